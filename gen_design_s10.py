#!/usr/bin/env python3
"""Regenerate DESIGN.md section 10 (engine findings + seeded-change table)."""
import json, subprocess
d=json.load(open('/verif/known_findings.json'))
rows=[]
for e in d['findings']:
    if e['property'] in ('C06','C07','C10','C13','C16','C17','C18','C19'):
        rows.append(f"| {e['property']} | {e['status']}{(' `'+e['commit']+'`') if e.get('commit') else ''} | {e['what'].replace('|','/')[:330]} |")
table=subprocess.run("python3 /verif/seeded/table.py",shell=True,capture_output=True,text=True).stdout
import glob
tot=len(glob.glob('/verif/seeded/C*-*')); missed=sum(1 for f in glob.glob('/verif/seeded/C*-*/meta.json') if not json.load(open(f)).get('caught_by')); retired=sum(1 for f in glob.glob('/verif/seeded/C*-*/meta.json') if json.load(open(f)).get('retired'))
first=sum(1 for f in glob.glob('/verif/seeded/C*-*/meta.json') if json.load(open(f)).get('first_result'))
s=open('/verif/DESIGN.md').read()
i=s.index("## 10. Results of round 1")
sec='''## 10. Results of round 1 for the agent-built engines, and the seeded-change table

### 10.1 Defects found in turmoil-net / turmoil-fs / turmoil-io-uring

(`fixed <commit>` = repaired by a small `fix:` commit; `known` = recorded in
`known_findings.json` with the exact signature, reproduced by a directed scenario
on every run. Details, minimal inputs and per-fix justification: the engines'
`NOTES.md` section (b).)

| prop. | status | what fails |
|-------|--------|------------|
''' + "\n".join(rows) + '''

Known findings that are *not* keyed by a minimised input: C06's two entries
(`zero-window-deadlock`, `closed-peer-ignores-fin`) are keyed by a wire-level
diagnosis (`netwire/src/diag.rs`) because ~9 % of random fault schedules hit the
missing persist timer with ever-changing schedules; every other stall/abort keeps
a class + minimised-schedule signature and is a new VIOLATION (all stall-type
mutants are still caught). turmoil-fs's known findings share one root cause
(inode state keyed by path; `sync_*` flushes sub-sequences of the pending log
out of order); `fsmodel/src/zones.rs` keeps the random generator and the
minimiser out of their syntactic neighbourhood (rejected candidates are counted
in the evidence), the directed scenarios keep reproducing them.

### 10.2 Independently seeded changes and which check catches them

''' + f"{tot} confirmed changes are kept; {retired} of them are retired (later repairs of genuine defects removed their only trigger: with the patch applied the demonstration now passes), {tot-missed-retired} are caught by the quick tier of the property's check, {missed} are currently missed; {first} of the caught ones were missed at first and led to a strengthening of the check (column 'caught by', in parentheses).\n\n" + table + "\n"
open('/verif/DESIGN.md','w').write(s[:i]+sec)
print(tot, missed, first)
