//! Differential execution of one history against the POSIX reference tree
//! (the C10 oracle), shared helpers for minimisation and signatures.

use crate::model::{matches, Expect, Node, Obs, Ret, Tree, Val};
use crate::ops::{canonical, parent_of, universe, Op, Step};
use crate::real::{Cfg, Direct};
use std::collections::{BTreeMap, BTreeSet};

#[derive(Clone, Debug)]
pub struct Complaint {
    pub class: String,
    /// index of the op after which the oracle complained
    pub at: usize,
    pub what: String,
}

#[derive(Default, Clone, Debug)]
pub struct Stats {
    pub c: BTreeMap<String, u64>,
    pub max_objects: usize,
    pub mutations_ok: u64,
}

impl Stats {
    pub fn inc(&mut self, k: &str) {
        *self.c.entry(k.to_string()).or_default() += 1;
    }
    pub fn add(&mut self, k: &str, n: u64) {
        *self.c.entry(k.to_string()).or_default() += n;
    }
}

/// Compare two sweeps; describe the first difference.
pub fn sweep_diff(paths: &[String], model: &[Obs], real: &[Obs]) -> Option<(String, String)> {
    for (i, p) in paths.iter().enumerate() {
        if model[i] != real[i] {
            let class = match (&model[i], &real[i]) {
                (_, Obs::Confused(_)) => "state:confused",
                (Obs::Absent, _) => "state:exists",
                (_, Obs::Absent) => "state:missing",
                (Obs::File(a), Obs::File(b)) => {
                    if a.len() != b.len() {
                        "state:length"
                    } else {
                        "state:content"
                    }
                }
                (Obs::Dir(_), Obs::Dir(_)) => "state:entries",
                _ => "state:kind",
            };
            return Some((
                class.to_string(),
                format!("{p}: expected {}, got {}", model[i].short(), real[i].short()),
            ));
        }
    }
    None
}

pub fn model_sweep(t: &Tree, paths: &[String]) -> Vec<Obs> {
    paths.iter().map(|p| t.observe(p)).collect()
}

fn ret_short(r: &Ret) -> String {
    let s = format!("{r:?}");
    if s.len() > 160 {
        format!("{}…", &s[..160])
    } else {
        s
    }
}

fn exp_short(e: &Expect) -> String {
    let s = format!("{e:?}");
    if s.len() > 160 {
        format!("{}…", &s[..160])
    } else {
        s
    }
}

/// Semantic event counters derived from the model state before the op.
pub fn note_semantics(st: &mut Stats, t: &Tree, op: &Op, removed: &mut BTreeSet<String>) {
    st.inc(&format!("op:{}", op.kind()));
    if let Some(fe) = op.fe() {
        st.inc(&format!("fe:{}", fe.as_str()));
    }
    let file_len = |p: &str| -> Option<usize> {
        t.lookup(p).ok().and_then(|i| match &t.nodes[&i] {
            Node::File(c) => Some(c.len()),
            _ => None,
        })
    };
    match op {
        Op::WriteAt { p, off, n, .. } => {
            if let Some(l) = file_len(p) {
                if *n > 0 && *off as usize > l {
                    st.inc("sem:write_hole");
                }
                if *n > 0 && (*off as usize) < l {
                    st.inc("sem:write_overlap");
                }
            }
        }
        Op::SetLen { p, len, .. } => {
            if let Some(l) = file_len(p) {
                if (*len as usize) < l {
                    st.inc("sem:set_len_shrink");
                }
                if (*len as usize) > l {
                    st.inc("sem:set_len_extend");
                }
            }
        }
        Op::Rename { a, b, .. } => {
            if t.lookup(a).is_ok() {
                if t.lookup(b).is_ok() {
                    st.inc("sem:rename_onto_existing");
                } else {
                    st.inc("sem:rename_onto_new");
                }
                if parent_of(a) != parent_of(b) {
                    st.inc("sem:rename_cross_dir");
                }
                if t.lookup(a).map(|i| t.is_dir(i)).unwrap_or(false) {
                    st.inc("sem:rename_dir");
                }
                removed.insert(a.clone());
            }
        }
        Op::RemoveFile { p, .. } => {
            if file_len(p).is_some() {
                removed.insert(p.clone());
            }
        }
        Op::WriteAll { p, .. } | Op::Open { p, .. } | Op::Handle { p, .. } => {
            if t.lookup(p).is_err() && removed.contains(p) {
                st.inc("sem:recreate_after_remove");
            }
        }
        _ => {}
    }
    if let Op::Handle { steps, .. } = op {
        for s in steps {
            match s {
                Step::Seek { .. } => st.inc("sem:cursor_seek"),
                Step::Read { .. } => st.inc("sem:cursor_read"),
                Step::Write { .. } => st.inc("sem:cursor_write"),
                _ => {}
            }
        }
    }
}

fn note_ret(st: &mut Stats, r: &Ret) {
    match r {
        Ret::Ok(Val::Steps(v)) => {
            st.inc("ret:ok");
            for s in v {
                if let Ret::Err(c) = s {
                    st.inc(&format!("err:{:?}", c).replace(['(', ')', '"'], "_"));
                }
            }
        }
        Ret::Ok(_) => st.inc("ret:ok"),
        Ret::Err(c) => {
            st.inc("ret:err");
            let k = match c {
                crate::model::Errc::Other(_) => "err:Other".to_string(),
                c => format!("err:{c:?}"),
            };
            st.inc(&k);
        }
    }
}

/// One directly driven host with its own reference tree.
pub struct Host {
    pub real: Direct,
    pub model: Tree,
    pub removed: BTreeSet<String>,
}

impl Host {
    pub fn new(cfg: &Cfg) -> Host {
        Host {
            real: Direct::new(cfg),
            model: Tree::new(),
            removed: BTreeSet::new(),
        }
    }

    /// Apply one op to model and implementation and compare return value and
    /// the full observation sweep.
    pub fn step(&mut self, i: usize, op: &Op, uni: &[String], st: &mut Stats) -> Option<Complaint> {
        if matches!(op, Op::Crash) {
            return None;
        }
        note_semantics(st, &self.model, op, &mut self.removed);
        let before = self.model.nodes.clone();
        let exp = self.model.apply(op);
        self.model.events.clear();
        if self.model.nodes != before {
            st.mutations_ok += 1;
        }
        st.max_objects = st.max_objects.max(self.model.nodes.len() - 1);
        let ret = self.real.exec(op);
        note_ret(st, &ret);
        if !matches(&exp, &ret) {
            return Some(Complaint {
                class: format!("ret:{}", op.kind()),
                at: i,
                what: format!(
                    "op #{i} {}: expected {}, got {}",
                    op.to_json(),
                    exp_short(&exp),
                    ret_short(&ret)
                ),
            });
        }
        if matches!(exp, Expect::Any) {
            st.inc("undetermined_ops");
        }
        self.check_state(i, op, uni, st)
    }

    pub fn check_state(
        &mut self,
        i: usize,
        op: &Op,
        uni: &[String],
        st: &mut Stats,
    ) -> Option<Complaint> {
        let ms = model_sweep(&self.model, uni);
        let rs = self.real.sweep(uni);
        st.inc("sweeps");
        st.add("observations_compared", uni.len() as u64);
        if op.is_sync() {
            st.inc("sync_neutrality_checks");
        }
        if matches!(op, Op::Advance { .. }) {
            st.inc("time_neutrality_checks");
        }
        if let Some((class, what)) = sweep_diff(uni, &ms, &rs) {
            let class = if op.is_sync() {
                format!("sync-not-neutral:{}", op.kind())
            } else if matches!(op, Op::Advance { .. }) {
                "time-not-neutral".to_string()
            } else {
                class
            };
            return Some(Complaint {
                class,
                at: i,
                what: format!("after op #{i} {}: {what}", op.to_json()),
            });
        }
        None
    }
}

/// Run a history on a single directly driven host.
pub fn run_single(cfg: &Cfg, h: &[Op], st: &mut Stats) -> Option<Complaint> {
    let uni = universe();
    let mut host = Host::new(cfg);
    for (i, op) in h.iter().enumerate() {
        if let Some(c) = host.step(i, op, &uni, st) {
            return Some(c);
        }
    }
    st.add("uring_ops", host.real.uring_ops);
    None
}

/// Two hosts with identical path names, interleaved by `order` (false = host
/// 0, true = host 1). After every op both trees are swept; a mismatch on the
/// host that did *not* run the op is an isolation failure.
pub fn run_pair(
    cfg: &Cfg,
    h0: &[Op],
    h1: &[Op],
    order: &[bool],
    st: &mut Stats,
) -> Option<Complaint> {
    let uni = universe();
    let mut hosts = [Host::new(cfg), Host::new(cfg)];
    let mut idx = [0usize, 0usize];
    for (k, who) in order.iter().enumerate() {
        let w = *who as usize;
        let h = if w == 0 { h0 } else { h1 };
        if idx[w] >= h.len() {
            continue;
        }
        let op = &h[idx[w]];
        idx[w] += 1;
        if let Some(c) = hosts[w].step(k, op, &uni, st) {
            return Some(c);
        }
        let o = 1 - w;
        st.inc("isolation_checks");
        let ms = model_sweep(&hosts[o].model, &uni);
        let rs = hosts[o].real.sweep(&uni);
        if let Some((_, what)) = sweep_diff(&uni, &ms, &rs) {
            return Some(Complaint {
                class: "isolation".into(),
                at: k,
                what: format!(
                    "host {o} changed after host {w} ran {}: {what}",
                    op.to_json()
                ),
            });
        }
    }
    None
}

// ---------------------------------------------------------------------------
// minimisation + signatures

/// Simplify the parameters of the ops of a failing history while `fails`
/// keeps holding (front-end -> std, sizes -> 1, offsets -> 0, fewer steps).
pub fn simplify(mut h: Vec<Op>, fails: &mut dyn FnMut(&[Op]) -> bool) -> Vec<Op> {
    for i in 0..h.len() {
        let mut cands: Vec<Op> = vec![];
        let cur = h[i].clone();
        // front-end
        if cur.fe().is_some() && cur.fe() != Some(crate::ops::Fe::Std) {
            let mut c = cur.clone();
            c.set_fe(crate::ops::Fe::Std);
            cands.push(c);
        }
        match &cur {
            Op::WriteAt { p, off, n, key, fe } => {
                if *off != 0 {
                    cands.push(Op::WriteAt {
                        p: p.clone(),
                        off: 0,
                        n: *n,
                        key: *key,
                        fe: *fe,
                    });
                }
                if *n > 1 {
                    cands.push(Op::WriteAt {
                        p: p.clone(),
                        off: *off,
                        n: 1,
                        key: *key,
                        fe: *fe,
                    });
                }
            }
            Op::WriteAll { p, n, key, fe } if *n > 1 => cands.push(Op::WriteAll {
                p: p.clone(),
                n: 1,
                key: *key,
                fe: *fe,
            }),
            Op::Append { p, n, key, fe } if *n > 1 => cands.push(Op::Append {
                p: p.clone(),
                n: 1,
                key: *key,
                fe: *fe,
            }),
            Op::ReadAt { p, off, n, fe } => {
                if *off != 0 {
                    cands.push(Op::ReadAt {
                        p: p.clone(),
                        off: 0,
                        n: *n,
                        fe: *fe,
                    });
                }
            }
            Op::SetLen { p, len, fe } if *len > 1 => {
                cands.push(Op::SetLen {
                    p: p.clone(),
                    len: 0,
                    fe: *fe,
                });
                cands.push(Op::SetLen {
                    p: p.clone(),
                    len: 1,
                    fe: *fe,
                });
            }
            Op::Handle { p, fl, steps, fe } if steps.len() > 1 => {
                for k in 0..steps.len() {
                    let mut s = steps.clone();
                    s.remove(k);
                    cands.push(Op::Handle {
                        p: p.clone(),
                        fl: *fl,
                        steps: s,
                        fe: *fe,
                    });
                }
            }
            _ => {}
        }
        for c in cands {
            let old = std::mem::replace(&mut h[i], c);
            if fails(&h) {
                // keep, and try to simplify the same op further on the next round
            } else {
                h[i] = old;
            }
        }
    }
    h
}

/// ddmin + parameter simplification (two rounds) against `fails`.
pub fn minimise(h: Vec<Op>, fails: &mut dyn FnMut(&[Op]) -> bool, budget: usize) -> Vec<Op> {
    let mut cur = vcore::ddmin::ddmin(h, |c| fails(c), budget);
    for _ in 0..2 {
        cur = simplify(cur, fails);
        let n = cur.len();
        cur = vcore::ddmin::ddmin(cur, |c| fails(c), budget / 2);
        if cur.len() == n {
            break;
        }
    }
    cur
}

pub fn signature(class: &str, h: &[Op]) -> String {
    format!("{class}|{}", canonical(h))
}
