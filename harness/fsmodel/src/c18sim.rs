//! C18 inside a running `Sim`: batches of SQEs drained with
//! `AsyncFd::readable` loops, ring clock = the host's step clock, optional
//! `Sim::crash` between submission and completion followed by `bounce`.

use crate::c18::{Complaint, RStats};
use crate::durable::CrashStats;
use crate::model::Obs;
use crate::ops::payload;
use crate::real::{Cfg, Lat};
use crate::ring::*;
use crate::simdrv::{self, RingFd};
use serde_json::{json, Value};
use std::os::fd::AsRawFd;
use std::sync::atomic::{AtomicU64, Ordering};
use std::sync::{Arc, Mutex};
use std::time::Duration;
use turmoil::fs::shim::std::fs as sfs;
use turmoil::io_uring::{opcode, squeue, types, AsyncFd, IoUring};
use vcore::{Ctx, Rng, ScenarioOut};

#[derive(Clone, Debug)]
pub struct Batch {
    pub sqes: Vec<(u64, SqKind, u8)>,
    /// cancel entries submitted right after the batch: (ud, target)
    pub cancels: Vec<(u64, u64)>,
}

#[derive(Clone, Debug)]
pub struct SimSpec {
    pub cfg: Cfg,
    pub seed: u64,
    pub depth: u32,
    pub nfiles: usize,
    pub batches: Vec<Batch>,
    /// crash this many steps after the first submission
    pub crash_after: Option<u64>,
    /// tick duration (ms); 0 = the default 1 ms
    pub tick_ms: u64,
    /// sleep this long before the first submission (submit in mid-tick)
    pub pre_sleep_ms: u64,
    /// poll the CQ every N ms instead of awaiting AsyncFd::readable, and judge
    /// the latency on the host's own clock (directed scenario only)
    pub poll_ms: Option<u64>,
}

impl SimSpec {
    pub fn to_json(&self) -> Value {
        json!({
            "cfg": self.cfg.to_json(), "seed": self.seed, "depth": self.depth, "nfiles": self.nfiles,
            "crash_after": self.crash_after,
            "tick_ms": self.tick_ms, "pre_sleep_ms": self.pre_sleep_ms, "poll_ms": self.poll_ms,
            "batches": self.batches.iter().map(|b| json!({
                "sqes": b.sqes.iter().map(|(ud,k,f)| RAct::Push{ring:0,ud:*ud,kind:k.clone(),flag:*f}.to_json()).collect::<Vec<_>>(),
                "cancels": b.cancels.iter().map(|(u,t)| json!([u,t])).collect::<Vec<_>>(),
            })).collect::<Vec<_>>(),
        })
    }
    pub fn from_json(v: &Value) -> SimSpec {
        SimSpec {
            cfg: Cfg::from_json(&v["cfg"]),
            seed: v["seed"].as_u64().unwrap_or(0),
            depth: v["depth"].as_u64().unwrap_or(4) as u32,
            nfiles: v["nfiles"].as_u64().unwrap_or(1) as usize,
            crash_after: v["crash_after"].as_u64(),
            tick_ms: v["tick_ms"].as_u64().unwrap_or(0),
            pre_sleep_ms: v["pre_sleep_ms"].as_u64().unwrap_or(0),
            poll_ms: v["poll_ms"].as_u64(),
            batches: v["batches"]
                .as_array()
                .map(|a| {
                    a.iter()
                        .map(|b| Batch {
                            sqes: b["sqes"]
                                .as_array()
                                .map(|s| {
                                    s.iter()
                                        .filter_map(|x| match RAct::from_json(x) {
                                            Some(RAct::Push { ud, kind, flag, .. }) => {
                                                Some((ud, kind, flag))
                                            }
                                            _ => None,
                                        })
                                        .collect()
                                })
                                .unwrap_or_default(),
                            cancels: b["cancels"]
                                .as_array()
                                .map(|c| {
                                    c.iter()
                                        .map(|p| {
                                            (p[0].as_u64().unwrap_or(0), p[1].as_u64().unwrap_or(0))
                                        })
                                        .collect()
                                })
                                .unwrap_or_default(),
                        })
                        .collect()
                })
                .unwrap_or_default(),
        }
    }
}

#[derive(Clone, Debug)]
enum Ev {
    Submitted { uds: Vec<(u64, SqKind, u8)>, step: u64, accepted: usize, host_ns: u64 },
    Cqe { ud: u64, res: i32, step: u64, data: Option<Vec<u8>>, host_ns: u64 },
    Wait,
    Files { contents: Vec<Obs> },
    PostCrash { sweep: Vec<Obs> },
    Error(String),
    Done,
}

struct Shared {
    phase: usize,
    log: Vec<Ev>,
    first_submit: bool,
    done: [bool; 2],
}

fn flag_of(f: u8) -> squeue::Flags {
    match f {
        0 => squeue::Flags::empty(),
        1 => squeue::Flags::ASYNC,
        2 => squeue::Flags::FIXED_FILE,
        3 => squeue::Flags::IO_DRAIN,
        4 => squeue::Flags::IO_LINK,
        5 => squeue::Flags::IO_HARDLINK,
        _ => squeue::Flags::BUFFER_SELECT,
    }
}

async fn program(spec: Arc<SimSpec>, sh: Arc<Mutex<Shared>>, step: Arc<AtomicU64>) {
    let log = |e: Ev| sh.lock().unwrap().log.push(e);
    let phase = sh.lock().unwrap().phase;
    let mut uni = vec!["/".to_string()];
    uni.extend(crate::ops::universe());
    uni.extend((0..spec.nfiles).map(file_path));
    let files_obs = || -> Vec<Obs> {
        (0..spec.nfiles)
            .map(|i| crate::real::observe_entered(&file_path(i)))
            .collect()
    };
    if phase == 0 {
        for i in 0..spec.nfiles {
            let p = file_path(i);
            let r = (|| -> std::io::Result<()> {
                sfs::write(&p, initial_content(i))?;
                let f = sfs::OpenOptions::new().write(true).open(&p)?;
                f.sync_all()?;
                Ok(())
            })();
            if let Err(e) = r {
                log(Ev::Error(format!("setup: {e}")));
                return;
            }
        }
        if let Err(e) = sfs::sync_dir("/") {
            log(Ev::Error(format!("setup: {e}")));
            return;
        }
    } else {
        log(Ev::PostCrash {
            sweep: simdrv::sweep_entered(&uni),
        });
    }
    let mut fhs = vec![];
    for i in 0..spec.nfiles {
        match sfs::OpenOptions::new().read(true).write(true).open(file_path(i)) {
            Ok(f) => fhs.push(f),
            Err(e) => {
                log(Ev::Error(format!("open: {e}")));
                return;
            }
        }
    }
    let mut ring = match IoUring::new(spec.depth) {
        Ok(r) => r,
        Err(e) => {
            log(Ev::Error(format!("ring: {e}")));
            return;
        }
    };
    let afd = match AsyncFd::new(RingFd(ring.as_raw_fd())) {
        Ok(a) => a,
        Err(e) => {
            log(Ev::Error(format!("asyncfd: {e}")));
            return;
        }
    };
    // after a crash: one read per file through the fresh ring
    let t0 = tokio::time::Instant::now();
    if phase == 0 && spec.pre_sleep_ms > 0 {
        tokio::time::sleep(Duration::from_millis(spec.pre_sleep_ms)).await;
    }
    let batches: Vec<Batch> = if phase == 0 {
        spec.batches.clone()
    } else {
        vec![Batch {
            sqes: (0..spec.nfiles)
                .map(|i| {
                    (
                        900_000 + i as u64,
                        SqKind::Read {
                            file: i,
                            off: 0,
                            n: 64,
                        },
                        0u8,
                    )
                })
                .collect(),
            cancels: vec![],
        }]
    };
    // buffers live until the end of the program (the crash drops the task and
    // with it the buffers: the ring must not touch them afterwards)
    let mut bufs: std::collections::BTreeMap<u64, Vec<u8>> = Default::default();
    for b in &batches {
        let mut owed: std::collections::BTreeSet<u64> = Default::default();
        let mut groups: Vec<Vec<(u64, SqKind, u8)>> = vec![];
        // SQEs in groups of at most `depth`
        let depth = spec.depth.next_power_of_two() as usize;
        for chunk in b.sqes.chunks(depth.max(1)) {
            groups.push(chunk.to_vec());
        }
        if !b.cancels.is_empty() {
            for chunk in b.cancels.chunks(depth.max(1)) {
                groups.push(
                    chunk
                        .iter()
                        .map(|(u, t)| (*u, SqKind::Cancel { target: *t }, 0u8))
                        .collect(),
                );
            }
        }
        for g in groups {
            for (ud, kind, flag) in &g {
                let fd = |f: &usize| types::Fd(fhs[*f % fhs.len()].as_raw_fd());
                let sqe = match kind {
                    SqKind::Read { file, off, n } => {
                        let buf = bufs.entry(*ud).or_insert_with(|| vec![0xEE; *n as usize]);
                        opcode::Read::new(fd(file), buf.as_mut_ptr(), *n).offset(*off).build()
                    }
                    SqKind::Write { file, off, n, key } => {
                        let buf = bufs.entry(*ud).or_insert_with(|| payload(*key, *n));
                        opcode::Write::new(fd(file), buf.as_ptr(), *n).offset(*off).build()
                    }
                    SqKind::Fsync { file } => opcode::Fsync::new(fd(file)).build(),
                    SqKind::Cancel { target } => opcode::AsyncCancel::new(*target).build(),
                }
                .user_data(*ud)
                .flags(flag_of(*flag));
                if unsafe { ring.submission().push(&sqe) }.is_err() {
                    log(Ev::Error(format!("push of ud {ud} failed below depth")));
                    return;
                }
                owed.insert(*ud);
            }
            let accepted = match ring.submit() {
                Ok(n) => n,
                Err(e) => {
                    log(Ev::Error(format!("submit: {e}")));
                    return;
                }
            };
            log(Ev::Submitted {
                uds: g.clone(),
                step: step.load(Ordering::SeqCst),
                accepted,
                host_ns: t0.elapsed().as_nanos() as u64,
            });
            sh.lock().unwrap().first_submit = true;
        }
        // drain with AsyncFd::readable until everything owed has arrived
        let mut rounds = 0;
        while !owed.is_empty() {
            rounds += 1;
            if rounds > 2000 {
                log(Ev::Error(format!("entries never completed: {owed:?}")));
                return;
            }
            {
                let mut cq = ring.completion();
                cq.sync();
                for e in &mut cq {
                    let ud = e.user_data();
                    owed.remove(&ud);
                    log(Ev::Cqe {
                        ud,
                        res: e.result(),
                        step: step.load(Ordering::SeqCst),
                        data: bufs.get(&ud).cloned(),
                        host_ns: t0.elapsed().as_nanos() as u64,
                    });
                }
            }
            if owed.is_empty() {
                break;
            }
            log(Ev::Wait);
            if let Some(p) = spec.poll_ms {
                tokio::time::sleep(Duration::from_millis(p)).await;
                continue;
            }
            match tokio::time::timeout(Duration::from_secs(5), afd.readable()).await {
                Ok(Ok(_g)) => {}
                Ok(Err(e)) => {
                    log(Ev::Error(format!("readable: {e}")));
                    return;
                }
                Err(_) => {
                    log(Ev::Error(format!(
                        "readable() did not resolve within 5 s of virtual time; owed {owed:?}"
                    )));
                    return;
                }
            }
        }
        log(Ev::Files {
            contents: files_obs(),
        });
    }
    drop(afd);
    drop(ring);
    drop(fhs);
    log(Ev::Done);
    sh.lock().unwrap().done[phase] = true;
}

pub fn run_sim(spec: &SimSpec, st: &mut RStats) -> Option<Complaint> {
    let tick = Duration::from_millis(spec.tick_ms.max(1));
    let tick_ns = tick.as_nanos() as u64;
    let mut sim = simdrv::builder_for(&spec.cfg, spec.seed, tick).build();
    let sh = Arc::new(Mutex::new(Shared {
        phase: 0,
        log: vec![],
        first_submit: false,
        done: [false; 2],
    }));
    let step = Arc::new(AtomicU64::new(0));
    {
        let spec = Arc::new(spec.clone());
        let sh = sh.clone();
        let step = step.clone();
        sim.host("h0", move || {
            let spec = spec.clone();
            let sh = sh.clone();
            let step = step.clone();
            async move {
                program(spec, sh.clone(), step).await;
                std::future::pending::<()>().await;
                Ok(())
            }
        });
    }
    let fail = |class: &str, what: String| {
        Some(Complaint {
            class: class.into(),
            at: 0,
            what,
        })
    };
    let do_step = |sim: &mut turmoil::Sim| -> Result<(), String> {
        step.fetch_add(1, Ordering::SeqCst);
        sim.step().map(|_| ()).map_err(|e| format!("Sim::step: {e}"))
    };
    let mut crashed_at_log: Option<usize> = None;
    let mut guard = 0u64;
    let mut after_first: Option<u64> = None;
    loop {
        guard += 1;
        if guard > 60_000 {
            return fail("sim-stuck", "no completion within 60000 steps".into());
        }
        {
            let s = sh.lock().unwrap();
            if s.log.iter().any(|e| matches!(e, Ev::Error(_))) {
                break;
            }
            let phase = s.phase;
            if s.done[phase] {
                break;
            }
            if phase == 0 && s.first_submit && after_first.is_none() {
                after_first = Some(0);
            }
        }
        if let (Some(k), Some(n)) = (spec.crash_after, after_first) {
            if sh.lock().unwrap().phase == 0 && n >= k {
                // crash between submission and completion, then bounce
                crashed_at_log = Some(sh.lock().unwrap().log.len());
                sim.crash("h0");
                sh.lock().unwrap().phase = 1;
                sim.bounce("h0");
                st.inc("sim_crashes");
                after_first = None;
                continue;
            }
        }
        if let Err(e) = do_step(&mut sim) {
            return fail("sim-error", e);
        }
        if let Some(n) = after_first.as_mut() {
            *n += 1;
        }
    }
    st.add("sim_steps", step.load(Ordering::SeqCst));
    let log = sh.lock().unwrap().log.clone();
    // ---- judge
    let script = Script {
        cfg: spec.cfg.clone(),
        depths: vec![spec.depth],
        nfiles: spec.nfiles,
        acts: vec![],
    };
    let mut m = Model::new(&script);
    for i in 0..spec.nfiles {
        for op in [
            crate::ops::Op::WriteAll {
                p: file_path(i),
                n: initial_content(i).len() as u32,
                key: 10 + i as u8 * 3,
                fe: crate::ops::Fe::Std,
            },
            crate::ops::Op::SyncAll {
                p: file_path(i),
                fe: crate::ops::Fe::Std,
            },
        ] {
            m.fs.v.apply(&op);
            m.fs.absorb();
        }
        m.open_file(i);
    }
    m.fs.v.apply(&crate::ops::Op::SyncDir {
        p: "/".into(),
        fe: crate::ops::Fe::Std,
    });
    m.fs.absorb();
    let max_steps_lat = (spec.cfg.lat.max().as_nanos() as u64).div_ceil(tick_ns);
    let clock = |s: u64| s.saturating_sub(1) * tick_ns;
    let mut submit_step: std::collections::BTreeMap<u64, u64> = Default::default();
    let mut submit_host: std::collections::BTreeMap<u64, u64> = Default::default();
    for (li, ev) in log.iter().enumerate() {
        if Some(li) == crashed_at_log {
            st.add(
                "inflight_at_crash",
                m.rings[0].inflight.len() as u64,
            );
            m.crash_rings();
            for i in 0..spec.nfiles {
                m.open_file(i);
            }
        }
        match ev {
            Ev::Error(e) => {
                let class = if e.contains("never completed") || e.contains("did not resolve") {
                    "cqe-missing"
                } else if e.contains("push") {
                    "push-result"
                } else {
                    "sim-error"
                };
                return fail(class, format!("in-sim: {e}"));
            }
            Ev::Submitted { uds, step, accepted, host_ns } => {
                m.now = clock(*step);
                for (ud, _, _) in uds {
                    submit_host.insert(*ud, *host_ns);
                }
                for (ud, kind, flag) in uds {
                    if m.push(0, *ud, kind, *flag).is_err() {
                        return fail("push-result", format!("in-sim: model queue full at ud {ud}"));
                    }
                    submit_step.insert(*ud, *step);
                    match kind {
                        SqKind::Read { .. } => st.inc("sqe:read"),
                        SqKind::Write { .. } => st.inc("sqe:write"),
                        SqKind::Fsync { .. } => st.inc("sqe:fsync"),
                        SqKind::Cancel { .. } => st.inc("sqe:cancel"),
                    }
                }
                let n = m.submit(0);
                st.add("submitted", n as u64);
                if n != *accepted {
                    return fail(
                        "submit-result",
                        format!("in-sim: submit returned {accepted}, {n} entries were queued"),
                    );
                }
            }
            Ev::Wait => st.inc("sim_asyncfd_waits"),
            Ev::Cqe { ud, res, step, data, host_ns } => {
                if spec.poll_ms.is_some() {
                    // latency on the host's own clock (what the software sees)
                    if let Some(inf) = m.rings[0].inflight.get(ud) {
                        let lmin = spec.cfg.lat.min().as_nanos() as u64;
                        let waited = host_ns.saturating_sub(submit_host.get(ud).copied().unwrap_or(0));
                        if !inf.cancelled && inf.fixed.is_none() && waited < lmin {
                            return fail(
                                "cqe-early-host-clock",
                                format!(
                                    "in-sim: ud {ud} ({:?}) was visible {waited} ns after submit() on the host's clock, configured latency {lmin} ns (submitted {} ns into a {} ms tick)",
                                    inf.e.kind,
                                    submit_host.get(ud).copied().unwrap_or(0) % (tick_ns),
                                    spec.tick_ms.max(1)
                                ),
                            );
                        }
                    }
                }
                st.inc("cqes");
                st.inc("sim_cqes");
                m.now = clock(*step);
                if m.dead.contains(ud) {
                    return fail(
                        "cqe-after-crash",
                        format!("in-sim: ud {ud} from before the crash completed with {res}"),
                    );
                }
                let Some((inf, exp)) = m.complete(0, *ud) else {
                    return fail(
                        "cqe-duplicate-or-unknown",
                        format!("in-sim: CQE ud={ud} res={res} is not outstanding"),
                    );
                };
                st.inc("latency_window_checks");
                if m.now < inf.min_ready {
                    return fail(
                        "cqe-early",
                        format!(
                            "in-sim: ud {ud} ({:?}) submitted in step {} (ring clock {} ns) was visible in step {step} (ring clock {} ns), earliest allowed {} ns",
                            inf.e.kind, submit_step[ud], inf.submit_ns, m.now, inf.min_ready
                        ),
                    );
                }
                // bounded liveness: 4x margin on the latency in steps
                let bound = submit_step[ud] + 4 * (max_steps_lat + 2);
                if *step > bound {
                    return fail(
                        "cqe-late",
                        format!(
                            "in-sim: ud {ud} submitted in step {} completed in step {step}, bound {bound}",
                            submit_step[ud]
                        ),
                    );
                }
                if !exp.results.contains(res) {
                    return fail(
                        if inf.cancelled { "cancel-result" } else { "cqe-result" },
                        format!(
                            "in-sim: ud {ud} ({:?}{}) completed with {res}, expected one of {:?}",
                            inf.e.kind,
                            if inf.cancelled { ", cancelled" } else { "" },
                            exp.results
                        ),
                    );
                }
                if inf.cancelled {
                    st.inc("cqe:cancelled");
                }
                let normal = *res >= 0 && !inf.cancelled && inf.fixed.is_none();
                if normal {
                    if let (SqKind::Read { .. }, Some(buf)) = (&inf.e.kind, data) {
                        st.inc("cqe:read_ok");
                        let want = exp.data.clone().unwrap_or_default();
                        let k = *res as usize;
                        if buf[..k] != want[..] || buf[k..].iter().any(|b| *b != 0xEE) {
                            return fail(
                                "read-data",
                                format!(
                                    "in-sim: ud {ud} read returned {res}: buffer {}, expected {}",
                                    Obs::File(buf.clone()).short(),
                                    Obs::File(want).short()
                                ),
                            );
                        }
                    }
                    match inf.e.kind {
                        SqKind::Write { .. } => st.inc("cqe:write_ok"),
                        SqKind::Fsync { .. } => st.inc("cqe:fsync_ok"),
                        _ => {}
                    }
                    m.apply_effect(&inf);
                } else if let (SqKind::Read { .. }, Some(buf)) = (&inf.e.kind, data) {
                    if buf.iter().any(|b| *b != 0xEE) {
                        return fail(
                            "buffer-touched",
                            format!("in-sim: read ud {ud} completed with {res} but its buffer was written"),
                        );
                    }
                }
            }
            Ev::Files { contents } => {
                st.inc("effect_checks");
                for (i, got) in contents.iter().enumerate() {
                    let want = m.file_content(i).map(Obs::File).unwrap_or(Obs::Absent);
                    if *got != want {
                        return fail(
                            "effect-mismatch",
                            format!(
                                "in-sim: after a batch {} is {}, expected {}",
                                file_path(i),
                                got.short(),
                                want.short()
                            ),
                        );
                    }
                }
            }
            Ev::PostCrash { sweep } => {
                let mut uni = vec!["/".to_string()];
                uni.extend(crate::ops::universe());
                uni.extend((0..spec.nfiles).map(file_path));
                let mut cs = CrashStats::default();
                let mut obs = |p: &str| match uni.iter().position(|u| u == p) {
                    Some(k) => sweep[k].clone(),
                    None => Obs::Absent,
                };
                if let Some(c) = m.fs.crash(&mut obs, &mut cs) {
                    return fail(
                        "crash-image",
                        format!("in-sim after crash + bounce: {} ({})", c.what, c.class),
                    );
                }
                st.inc("crash_image_checks");
            }
            Ev::Done => {}
        }
    }
    // everything submitted (and not lost in the crash) completed
    if let Some(i) = m.rings[0].inflight.values().next() {
        return fail(
            "cqe-missing",
            format!("in-sim: ud {} ({:?}) never completed", i.e.ud, i.e.kind),
        );
    }
    None
}

fn gen_spec(rng: &mut Rng) -> SimSpec {
    let lat = *rng.pick(&[
        Lat::None,
        Lat::Fixed(3000),
        Lat::Range(2000, 7000),
        Lat::Fixed(500),
    ]);
    let cfg = Cfg {
        sync_prob: 0.0,
        block: None,
        lat,
        page_cache: rng.chance(0.3),
        fs_seed: 0,
        capacity: None,
        dio_align: None,
        rw_modes: false,
        io_err: 0.0,
    };
    let nfiles = rng.range(1, 2) as usize;
    let mut next = 1u64;
    let mut batches = vec![];
    for _ in 0..rng.range(1, 4) {
        let n = rng.range(1, 6) as usize;
        let mut sqes = vec![];
        for _ in 0..n {
            let file = rng.usize_below(nfiles);
            let kind = match rng.below(10) {
                0..=3 => SqKind::Read {
                    file,
                    off: rng.below(8),
                    n: *rng.pick(&[1u32, 4, 16]),
                },
                4..=7 => SqKind::Write {
                    file,
                    off: rng.below(10),
                    n: *rng.pick(&[1u32, 3, 8]),
                    key: rng.below(26) as u8,
                },
                _ => SqKind::Fsync { file },
            };
            sqes.push((next, kind, if rng.chance(0.05) { 4 } else { 0 }));
            next += 1;
        }
        let mut cancels = vec![];
        if rng.chance(0.4) {
            let t = sqes[rng.usize_below(sqes.len())].0;
            cancels.push((next, t));
            next += 1;
        }
        batches.push(Batch { sqes, cancels });
    }
    SimSpec {
        cfg,
        seed: rng.next_u64(),
        depth: *rng.pick(&[1u32, 2, 4, 8]),
        nfiles,
        batches,
        crash_after: if rng.chance(0.4) {
            Some(rng.below(5))
        } else {
            None
        },
        tick_ms: 1,
        pre_sleep_ms: 0,
        poll_ms: None,
    }
}

/// Directed in-Sim scenarios (hunted C18-1): submission in the middle of a
/// 10 ms tick, fixed 5 ms latency, CQ polled every simulated millisecond.
pub fn directed() -> Vec<(&'static str, SimSpec)> {
    vec![(
        "mid-tick-submit",
        SimSpec {
            cfg: Cfg {
                lat: Lat::Fixed(5000),
                ..Cfg::default()
            },
            seed: 1,
            depth: 4,
            nfiles: 1,
            batches: vec![Batch {
                sqes: vec![(
                    1,
                    SqKind::Write {
                        file: 0,
                        off: 0,
                        n: 4,
                        key: 3,
                    },
                    0,
                )],
                cancels: vec![],
            }],
            crash_after: None,
            tick_ms: 10,
            pre_sleep_ms: 9,
            poll_ms: Some(1),
        },
    )]
}

pub fn scenario_directed(_ctx: &Ctx, idx: u64) -> ScenarioOut {
    let all = directed();
    let (name, spec) = &all[idx as usize];
    let mut out = ScenarioOut::default();
    let mut st = RStats::default();
    out.count("sim_directed", 1);
    let c = run_sim(spec, &mut st);
    if let Some(c) = &c {
        out.violate(
            &c.class,
            format!("{}|sim-directed|{name}", c.class),
            c.what.clone(),
            json!({"kind":"sim","directed":name,"spec":spec.to_json()}),
        );
    }
    for (k, v) in &st.c {
        out.count(k, *v);
    }
    out.nontrivial = true;
    out.digest = vcore::digest_str(&format!("sim-directed:{name}"));
    out.sample = Some(json!({"kind":"sim-directed","name":name,"spec":spec.to_json(),
        "verdict": if c.is_some() {"complaint"} else {"conforms"}}));
    out
}

pub fn scenario(ctx: &Ctx, idx: u64) -> ScenarioOut {
    let mut rng = Rng::new(ctx.scenario_seed("sim", idx));
    let spec = gen_spec(&mut rng);
    let mut out = ScenarioOut::default();
    let mut st = RStats::default();
    out.count("sim_scripts", 1);
    let c = run_sim(&spec, &mut st);
    if let Some(c) = &c {
        out.violate(
            &c.class,
            format!("{}|sim|{}", c.class, vcore::digest_json(&spec.to_json())),
            c.what.clone(),
            json!({"kind":"sim","spec":spec.to_json()}),
        );
    }
    for (k, v) in &st.c {
        out.count(k, *v);
    }
    out.nontrivial = st.get("sim_cqes") >= 2;
    out.digest = vcore::digest_json(&spec.to_json());
    out.sample = Some(json!({"kind":"sim","spec":spec.to_json(),
        "verdict": if c.is_some() {"complaint"} else {"conforms"}}));
    out
}
