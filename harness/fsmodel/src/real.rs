//! Drivers for the code under test: execute one `Op` through the std shim,
//! the tokio shim or io_uring and normalise what came back (`Ret`), plus the
//! path-level observation used by the sweeps.
//!
//! `Direct` drives `turmoil_fs::Fs` + `IoUringHostState` without a `Sim`
//! (own `enter` guards, harness-chosen `now`). The in-`Sim` drivers in the
//! checks reuse `exec_std` / `exec_tokio` / `observe_entered`.

use crate::model::{Errc, Obs, Ret, Val};
use crate::ops::{payload, Fe, Flags, Op, Step};
use std::collections::BTreeSet;
use std::io;
use std::os::fd::AsRawFd;
use std::os::unix::fs::FileExt;
use std::sync::{Arc, Mutex};
use std::time::Duration;
use turmoil::fs::shim::std::fs as sfs;
use turmoil::fs::shim::tokio::fs as tfs;
use turmoil::fs::{Fs, FsConfig};
use turmoil::io_uring::host::IoUringHostState;
use turmoil::io_uring::{opcode, types, IoUring};

pub fn classify(e: &io::Error) -> Errc {
    use io::ErrorKind as K;
    match e.kind() {
        K::NotFound => Errc::NotFound,
        K::AlreadyExists => Errc::Exists,
        K::PermissionDenied => Errc::BadAccess,
        K::InvalidInput => Errc::Invalid,
        K::IsADirectory => Errc::IsDir,
        K::NotADirectory => Errc::NotDir,
        K::DirectoryNotEmpty => Errc::NotEmpty,
        // error KINDS are a compared observable: an errno text wrapped in an
        // uncategorised io::Error is not the POSIX kind
        k => Errc::Other(format!("{k:?}: {e}")),
    }
}

pub fn classify_errno(res: i32) -> Errc {
    match -res {
        2 => Errc::NotFound,
        9 => Errc::BadAccess,
        17 => Errc::Exists,
        20 => Errc::NotDir,
        21 => Errc::IsDir,
        22 => Errc::Invalid,
        39 => Errc::NotEmpty,
        n => Errc::Other(format!("errno {n}")),
    }
}

fn r_unit(r: io::Result<()>) -> Ret {
    match r {
        Ok(()) => Ret::Ok(Val::Unit),
        Err(e) => Ret::Err(classify(&e)),
    }
}

fn std_opts(fl: &Flags) -> sfs::OpenOptions {
    let mut o = sfs::OpenOptions::new();
    o.read(fl.read)
        .write(fl.write)
        .append(fl.append)
        .truncate(fl.truncate)
        .create(fl.create)
        .create_new(fl.create_new);
    o
}

fn tokio_opts(fl: &Flags) -> tfs::OpenOptions {
    let mut o = tfs::OpenOptions::new();
    o.read(fl.read)
        .write(fl.write)
        .append(fl.append)
        .truncate(fl.truncate)
        .create(fl.create)
        .create_new(fl.create_new);
    o
}

fn std_step(f: &mut sfs::File, s: &Step) -> Ret {
    use std::io::{Read, Seek, SeekFrom, Write};
    match s {
        Step::Seek { whence, off } => {
            let pos = match whence {
                0 => SeekFrom::Start(*off as u64),
                1 => SeekFrom::Current(*off),
                _ => SeekFrom::End(*off),
            };
            match f.seek(pos) {
                Ok(n) => Ret::Ok(Val::Count(n)),
                Err(e) => Ret::Err(classify(&e)),
            }
        }
        Step::Read { n } => {
            let mut buf = vec![0xEEu8; *n as usize];
            match f.read(&mut buf) {
                Ok(k) => {
                    buf.truncate(k);
                    Ret::Ok(Val::Bytes(buf))
                }
                Err(e) => Ret::Err(classify(&e)),
            }
        }
        Step::Write { n, key } => match f.write(&payload(*key, *n)) {
            Ok(k) => Ret::Ok(Val::Count(k as u64)),
            Err(e) => Ret::Err(classify(&e)),
        },
        Step::ReadAt { off, n } => {
            let mut buf = vec![0xEEu8; *n as usize];
            match f.read_at(&mut buf, *off) {
                Ok(k) => {
                    buf.truncate(k);
                    Ret::Ok(Val::Bytes(buf))
                }
                Err(e) => Ret::Err(classify(&e)),
            }
        }
        Step::WriteAt { off, n, key } => match f.write_at(&payload(*key, *n), *off) {
            Ok(k) => Ret::Ok(Val::Count(k as u64)),
            Err(e) => Ret::Err(classify(&e)),
        },
        Step::SetLen { len } => r_unit(f.set_len(*len)),
        Step::SyncAll => r_unit(f.sync_all()),
        Step::SyncData => r_unit(f.sync_data()),
        Step::Rename { a, b } => r_unit(sfs::rename(a, b)),
        Step::Len => match f.metadata() {
            Ok(m) => Ret::Ok(Val::Count(m.len())),
            Err(e) => Ret::Err(classify(&e)),
        },
    }
}

fn std_one(p: &str, fl: &str, s: Step) -> Ret {
    match std_opts(&Flags::parse(fl)).open(p) {
        Err(e) => Ret::Err(classify(&e)),
        Ok(mut f) => std_step(&mut f, &s),
    }
}

fn names_of(rd: sfs::ReadDir) -> Result<BTreeSet<String>, String> {
    let mut out = BTreeSet::new();
    let mut n = 0;
    for e in rd {
        n += 1;
        match e {
            Ok(e) => {
                out.insert(e.file_name().to_string_lossy().to_string());
            }
            Err(e) => return Err(format!("read_dir entry error {e}")),
        }
    }
    if n != out.len() {
        return Err(format!("read_dir yielded {n} entries, {} distinct", out.len()));
    }
    Ok(out)
}

/// Execute through the std shim. Must be called with an `Fs` entered.
pub fn exec_std(op: &Op) -> Ret {
    match op {
        Op::Open { p, fl, .. } => match std_opts(fl).open(p) {
            Ok(_) => Ret::Ok(Val::Unit),
            Err(e) => Ret::Err(classify(&e)),
        },
        Op::WriteAt { p, off, n, key, .. } => std_one(
            p,
            "w",
            Step::WriteAt {
                off: *off,
                n: *n,
                key: *key,
            },
        ),
        Op::Append { p, n, key, .. } => std_one(p, "a", Step::Write { n: *n, key: *key }),
        Op::ReadAt { p, off, n, .. } => std_one(p, "r", Step::ReadAt { off: *off, n: *n }),
        Op::ReadAll { p, .. } => match sfs::read(p) {
            Ok(b) => Ret::Ok(Val::Bytes(b)),
            Err(e) => Ret::Err(classify(&e)),
        },
        Op::WriteAll { p, n, key, .. } => r_unit(sfs::write(p, payload(*key, *n))),
        Op::Handle { p, fl, steps, .. } => match std_opts(fl).open(p) {
            Err(e) => Ret::Err(classify(&e)),
            Ok(mut f) => Ret::Ok(Val::Steps(steps.iter().map(|s| std_step(&mut f, s)).collect())),
        },
        Op::SetLen { p, len, .. } => std_one(p, "w", Step::SetLen { len: *len }),
        Op::SyncAll { p, .. } => std_one(p, "w", Step::SyncAll),
        Op::SyncData { p, .. } => std_one(p, "w", Step::SyncData),
        Op::SyncDir { p, .. } => r_unit(sfs::sync_dir(p)),
        Op::Rename { a, b, .. } => r_unit(sfs::rename(a, b)),
        Op::RemoveFile { p, .. } => r_unit(sfs::remove_file(p)),
        Op::CreateDir { p, .. } => r_unit(sfs::create_dir(p)),
        Op::CreateDirAll { p, .. } => r_unit(sfs::create_dir_all(p)),
        Op::RemoveDir { p, .. } => r_unit(sfs::remove_dir(p)),
        Op::RemoveDirAll { p, .. } => r_unit(sfs::remove_dir_all(p)),
        Op::ReadDir { p, .. } => match sfs::read_dir(p) {
            Err(e) => Ret::Err(classify(&e)),
            Ok(rd) => match names_of(rd) {
                Ok(s) => Ret::Ok(Val::Names(s)),
                Err(m) => Ret::Err(Errc::Other(m)),
            },
        },
        Op::Metadata { p, .. } => match sfs::metadata(p) {
            Err(e) => Ret::Err(classify(&e)),
            Ok(m) => Ret::Ok(Val::Meta {
                dir: m.is_dir(),
                len: if m.is_dir() { 0 } else { m.len() },
            }),
        },
        Op::Advance { .. } | Op::Crash => Ret::Ok(Val::Unit),
    }
}

async fn tokio_step(f: &mut tfs::File, s: &Step) -> Ret {
    use tokio::io::{AsyncReadExt, AsyncSeekExt, AsyncWriteExt};
    match s {
        Step::Seek { whence, off } => {
            let pos = match whence {
                0 => std::io::SeekFrom::Start(*off as u64),
                1 => std::io::SeekFrom::Current(*off),
                _ => std::io::SeekFrom::End(*off),
            };
            match f.seek(pos).await {
                Ok(n) => Ret::Ok(Val::Count(n)),
                Err(e) => Ret::Err(classify(&e)),
            }
        }
        Step::Read { n } => {
            let mut buf = vec![0xEEu8; *n as usize];
            if *n == 0 {
                // tokio's read with an empty buffer is a no-op
                return Ret::Ok(Val::Bytes(vec![]));
            }
            match f.read(&mut buf).await {
                Ok(k) => {
                    buf.truncate(k);
                    Ret::Ok(Val::Bytes(buf))
                }
                Err(e) => Ret::Err(classify(&e)),
            }
        }
        Step::Write { n, key } => match f.write(&payload(*key, *n)).await {
            Ok(k) => Ret::Ok(Val::Count(k as u64)),
            Err(e) => Ret::Err(classify(&e)),
        },
        Step::ReadAt { off, n } => {
            let mut buf = vec![0xEEu8; *n as usize];
            match f.read_at(&mut buf, *off).await {
                Ok(k) => {
                    buf.truncate(k);
                    Ret::Ok(Val::Bytes(buf))
                }
                Err(e) => Ret::Err(classify(&e)),
            }
        }
        Step::WriteAt { off, n, key } => match f.write_at(&payload(*key, *n), *off).await {
            Ok(k) => Ret::Ok(Val::Count(k as u64)),
            Err(e) => Ret::Err(classify(&e)),
        },
        Step::SetLen { len } => r_unit(f.set_len(*len).await),
        Step::SyncAll => r_unit(f.sync_all().await),
        Step::SyncData => r_unit(f.sync_data().await),
        Step::Rename { a, b } => r_unit(tfs::rename(a, b).await),
        Step::Len => match f.metadata().await {
            Ok(m) => Ret::Ok(Val::Count(m.len())),
            Err(e) => Ret::Err(classify(&e)),
        },
    }
}

async fn tokio_one(p: &str, fl: &str, s: Step) -> Ret {
    match tokio_opts(&Flags::parse(fl)).open(p).await {
        Err(e) => Ret::Err(classify(&e)),
        Ok(mut f) => tokio_step(&mut f, &s).await,
    }
}

/// Execute through the tokio shim. Needs an entered `Fs` and a tokio context.
pub async fn exec_tokio(op: &Op) -> Ret {
    match op {
        Op::Open { p, fl, .. } => match tokio_opts(fl).open(p).await {
            Ok(_) => Ret::Ok(Val::Unit),
            Err(e) => Ret::Err(classify(&e)),
        },
        Op::WriteAt { p, off, n, key, .. } => {
            tokio_one(
                p,
                "w",
                Step::WriteAt {
                    off: *off,
                    n: *n,
                    key: *key,
                },
            )
            .await
        }
        Op::Append { p, n, key, .. } => tokio_one(p, "a", Step::Write { n: *n, key: *key }).await,
        Op::ReadAt { p, off, n, .. } => tokio_one(p, "r", Step::ReadAt { off: *off, n: *n }).await,
        Op::ReadAll { p, .. } => match tfs::read(p).await {
            Ok(b) => Ret::Ok(Val::Bytes(b)),
            Err(e) => Ret::Err(classify(&e)),
        },
        Op::WriteAll { p, n, key, .. } => r_unit(tfs::write(p, payload(*key, *n)).await),
        Op::Handle { p, fl, steps, .. } => match tokio_opts(fl).open(p).await {
            Err(e) => Ret::Err(classify(&e)),
            Ok(mut f) => {
                let mut out = vec![];
                for s in steps {
                    out.push(tokio_step(&mut f, s).await);
                }
                Ret::Ok(Val::Steps(out))
            }
        },
        Op::SetLen { p, len, .. } => tokio_one(p, "w", Step::SetLen { len: *len }).await,
        Op::SyncAll { p, .. } => tokio_one(p, "w", Step::SyncAll).await,
        Op::SyncData { p, .. } => tokio_one(p, "w", Step::SyncData).await,
        Op::SyncDir { p, .. } => r_unit(tfs::sync_dir(p).await),
        Op::Rename { a, b, .. } => r_unit(tfs::rename(a, b).await),
        Op::RemoveFile { p, .. } => r_unit(tfs::remove_file(p).await),
        Op::CreateDir { p, .. } => r_unit(tfs::create_dir(p).await),
        Op::CreateDirAll { p, .. } => r_unit(tfs::create_dir_all(p).await),
        Op::RemoveDir { p, .. } => r_unit(tfs::remove_dir(p).await),
        Op::RemoveDirAll { p, .. } => r_unit(tfs::remove_dir_all(p).await),
        Op::ReadDir { p, .. } => match tfs::read_dir(p).await {
            Err(e) => Ret::Err(classify(&e)),
            Ok(rd) => match names_of(rd) {
                Ok(s) => Ret::Ok(Val::Names(s)),
                Err(m) => Ret::Err(Errc::Other(m)),
            },
        },
        Op::Metadata { p, .. } => match tfs::metadata(p).await {
            Err(e) => Ret::Err(classify(&e)),
            Ok(m) => Ret::Ok(Val::Meta {
                dir: m.is_dir(),
                len: if m.is_dir() { 0 } else { m.len() },
            }),
        },
        Op::Advance { .. } | Op::Crash => Ret::Ok(Val::Unit),
    }
}

/// Path-level observation through the std shim (entered `Fs` required).
pub fn observe_entered(path: &str) -> Obs {
    let ex = sfs::exists(path);
    match sfs::metadata(path) {
        Err(_) => {
            if ex {
                Obs::Confused("exists() is true but metadata() fails".into())
            } else {
                Obs::Absent
            }
        }
        Ok(m) => {
            if !ex {
                return Obs::Confused("metadata() succeeds but exists() is false".into());
            }
            if m.is_dir() {
                match sfs::read_dir(path) {
                    Err(e) => Obs::Confused(format!("metadata says dir, read_dir fails: {e}")),
                    Ok(rd) => match names_of(rd) {
                        Ok(s) => Obs::Dir(s),
                        Err(m) => Obs::Confused(m),
                    },
                }
            } else {
                if sfs::read_dir(path).is_ok() {
                    return Obs::Confused("metadata says file, read_dir succeeds".into());
                }
                match sfs::read(path) {
                    Err(e) => Obs::Confused(format!("metadata says file, read fails: {e}")),
                    Ok(b) => {
                        if b.len() as u64 != m.len() {
                            Obs::Confused(format!(
                                "metadata len {} but read returned {} bytes",
                                m.len(),
                                b.len()
                            ))
                        } else {
                            Obs::File(b)
                        }
                    }
                }
            }
        }
    }
}

#[derive(Clone, Copy, Debug, PartialEq)]
pub enum Lat {
    None,
    /// min = max (micro seconds)
    Fixed(u64),
    Range(u64, u64),
}

impl Lat {
    pub fn min(&self) -> Duration {
        match self {
            Lat::None => Duration::ZERO,
            Lat::Fixed(a) | Lat::Range(a, _) => Duration::from_micros(*a),
        }
    }
    pub fn max(&self) -> Duration {
        match self {
            Lat::None => Duration::ZERO,
            Lat::Fixed(a) | Lat::Range(_, a) => Duration::from_micros(*a),
        }
    }
    pub fn to_json(&self) -> serde_json::Value {
        match self {
            Lat::None => serde_json::json!("none"),
            Lat::Fixed(a) => serde_json::json!({"fixed_us": a}),
            Lat::Range(a, b) => serde_json::json!({"min_us": a, "max_us": b}),
        }
    }
    pub fn from_json(v: &serde_json::Value) -> Lat {
        if let Some(a) = v["fixed_us"].as_u64() {
            Lat::Fixed(a)
        } else if let (Some(a), Some(b)) = (v["min_us"].as_u64(), v["max_us"].as_u64()) {
            Lat::Range(a, b)
        } else {
            Lat::None
        }
    }
}

#[derive(Clone, Debug, PartialEq)]
pub struct Cfg {
    pub sync_prob: f64,
    pub block: Option<u64>,
    pub lat: Lat,
    pub page_cache: bool,
    pub fs_seed: u64,
    /// disk capacity in bytes (None = unlimited)
    pub capacity: Option<u64>,
    /// O_DIRECT alignment (None = default 512)
    pub dio_align: Option<u64>,
    /// open a read-only and a write-only handle per file (C18)
    pub rw_modes: bool,
    /// io_error_probability switched on after the setup (C18 directed)
    pub io_err: f64,
}

impl Default for Cfg {
    fn default() -> Self {
        Cfg {
            sync_prob: 0.0,
            block: None,
            lat: Lat::None,
            page_cache: false,
            fs_seed: 1,
            capacity: None,
            dio_align: None,
            rw_modes: false,
            io_err: 0.0,
        }
    }
}

impl Cfg {
    pub fn to_json(&self) -> serde_json::Value {
        serde_json::json!({
            "sync_prob": self.sync_prob,
            "block": self.block,
            "lat": self.lat.to_json(),
            "page_cache": self.page_cache,
            "fs_seed": self.fs_seed,
            "capacity": self.capacity,
            "dio_align": self.dio_align,
            "rw_modes": self.rw_modes,
            "io_err": self.io_err,
        })
    }
    pub fn from_json(v: &serde_json::Value) -> Cfg {
        Cfg {
            sync_prob: v["sync_prob"].as_f64().unwrap_or(0.0),
            block: v["block"].as_u64(),
            lat: Lat::from_json(&v["lat"]),
            page_cache: v["page_cache"].as_bool().unwrap_or(false),
            fs_seed: v["fs_seed"].as_u64().unwrap_or(1),
            capacity: v["capacity"].as_u64(),
            dio_align: v["dio_align"].as_u64(),
            rw_modes: v["rw_modes"].as_bool().unwrap_or(false),
            io_err: v["io_err"].as_f64().unwrap_or(0.0),
        }
    }
    pub fn fs_config(&self) -> FsConfig {
        let mut c = FsConfig::default();
        if self.sync_prob > 0.0 {
            c.sync_probability(self.sync_prob);
        }
        if let Some(b) = self.block {
            c.block_size(b);
        }
        match self.lat {
            Lat::None => {}
            l => {
                c.io_latency().min_latency(l.min()).max_latency(l.max());
            }
        }
        if self.page_cache {
            c.page_cache();
        }
        if let Some(cap) = self.capacity {
            c.capacity(cap);
        }
        if let Some(a) = self.dio_align {
            c.direct_io_alignment(a);
        }
        c
    }
}

/// Directly driven file system + ring registry (no `Sim`).
pub struct Direct {
    pub fs: Arc<Mutex<Fs>>,
    pub iou: Arc<Mutex<IoUringHostState>>,
    pub now: Duration,
    pub cfg: Cfg,
    rt: Option<tokio::runtime::Runtime>,
    next_ud: u64,
    pub uring_ops: u64,
    pub tokio_ops: u64,
    pub std_ops: u64,
}

impl Direct {
    pub fn new(cfg: &Cfg) -> Direct {
        Direct {
            fs: Arc::new(Mutex::new(Fs::new(cfg.fs_config(), cfg.fs_seed))),
            iou: Arc::new(Mutex::new(IoUringHostState::new())),
            now: Duration::from_millis(1),
            cfg: cfg.clone(),
            rt: None,
            next_ud: 1,
            uring_ops: 0,
            tokio_ops: 0,
            std_ops: 0,
        }
    }

    /// Run `f` with both thread-locals entered at the current `now`.
    pub fn entered<R>(&self, f: impl FnOnce() -> R) -> R {
        let _g = turmoil::fs::enter(
            &self.fs,
            turmoil::fs::EnterCtx {
                now: self.now,
                on_corruption: None,
            },
        );
        let _u = turmoil::io_uring::host::enter(
            &self.iou,
            turmoil::io_uring::host::EnterCtx { now: self.now },
        );
        f()
    }

    pub fn observe(&self, path: &str) -> Obs {
        self.entered(|| observe_entered(path))
    }

    pub fn sweep(&self, paths: &[String]) -> Vec<Obs> {
        self.entered(|| paths.iter().map(|p| observe_entered(p)).collect())
    }

    pub fn crash(&mut self) {
        self.fs.lock().unwrap().crash();
        self.iou.lock().unwrap().crash();
        self.now += Duration::from_millis(1);
    }

    pub fn exec(&mut self, op: &Op) -> Ret {
        match op {
            Op::Advance { us } => {
                self.now += Duration::from_micros(*us);
                return Ret::Ok(Val::Unit);
            }
            Op::Crash => {
                self.crash();
                return Ret::Ok(Val::Unit);
            }
            _ => {}
        }
        let fe = op.fe().unwrap_or(Fe::Std);
        let r = match fe {
            Fe::Uring if op.uring_capable() => {
                self.uring_ops += 1;
                self.exec_uring(op)
            }
            Fe::Tokio => {
                self.tokio_ops += 1;
                if self.rt.is_none() {
                    self.rt = Some(
                        tokio::runtime::Builder::new_current_thread()
                            .enable_time()
                            .start_paused(true)
                            .build()
                            .expect("tokio runtime"),
                    );
                }
                let rt = self.rt.take().unwrap();
                let r = self.entered(|| rt.block_on(exec_tokio(op)));
                self.rt = Some(rt);
                r
            }
            _ => {
                self.std_ops += 1;
                self.entered(|| exec_std(op))
            }
        };
        // every operation takes a little virtual time
        self.now += Duration::from_micros(10);
        r
    }

    /// One operation through a fresh ring: open via the std shim, push the
    /// SQE, submit, let the latency elapse, drain the single CQE.
    fn exec_uring(&mut self, op: &Op) -> Ret {
        let ud = self.next_ud;
        self.next_ud += 1;
        enum K {
            Read(u64, u32),
            Write(u64, Vec<u8>),
            Fsync,
        }
        let (p, fl, k) = match op {
            Op::WriteAt { p, off, n, key, .. } => (p, "w", K::Write(*off, payload(*key, *n))),
            Op::ReadAt { p, off, n, .. } => (p, "r", K::Read(*off, *n)),
            Op::SyncAll { p, .. } | Op::SyncData { p, .. } => (p, "w", K::Fsync),
            // fsync through a read-only descriptor
            Op::Handle { p, .. } => (p, "r", K::Fsync),
            _ => unreachable!(),
        };
        // phase 1: open, ring, push, submit
        let mut rbuf: Vec<u8> = vec![];
        let phase1 = self.entered(|| -> Result<(sfs::File, IoUring), Ret> {
            let f = std_opts(&Flags::parse(fl))
                .open(p)
                .map_err(|e| Ret::Err(classify(&e)))?;
            let mut ring = IoUring::new(2).map_err(|e| Ret::Err(Errc::Other(format!("ring: {e}"))))?;
            let fd = types::Fd(f.as_raw_fd());
            let sqe = match &k {
                K::Read(off, n) => {
                    rbuf = vec![0xEEu8; *n as usize];
                    opcode::Read::new(fd, rbuf.as_mut_ptr(), *n).offset(*off).build()
                }
                K::Write(off, data) => {
                    opcode::Write::new(fd, data.as_ptr(), data.len() as u32).offset(*off).build()
                }
                K::Fsync => opcode::Fsync::new(fd).build(),
            }
            .user_data(ud);
            if unsafe { ring.submission().push(&sqe) }.is_err() {
                return Err(Ret::Err(Errc::Other("uring: push on empty ring failed".into())));
            }
            match ring.submit() {
                Ok(1) => {}
                other => {
                    return Err(Ret::Err(Errc::Other(format!("uring: submit returned {other:?}"))))
                }
            }
            Ok((f, ring))
        });
        let (f, mut ring) = match phase1 {
            Ok(x) => x,
            Err(r) => return r,
        };
        // phase 2: after the maximum latency, drain
        self.now += self.cfg.lat.max() + Duration::from_micros(1);
        let out = self.entered(|| {
            let mut got = vec![];
            {
                let mut cq = ring.completion();
                cq.sync();
                for e in &mut cq {
                    got.push((e.user_data(), e.result()));
                }
            }
            drop(ring);
            drop(f);
            got
        });
        drop(k);
        if out.len() != 1 || out[0].0 != ud {
            return Ret::Err(Errc::Other(format!(
                "uring: expected exactly one CQE for ud {ud}, got {out:?}"
            )));
        }
        let res = out[0].1;
        if res < 0 {
            return Ret::Err(classify_errno(res));
        }
        match op {
            Op::WriteAt { .. } => Ret::Ok(Val::Count(res as u64)),
            Op::ReadAt { .. } => {
                let k = (res as usize).min(rbuf.len());
                if rbuf[k..].iter().any(|b| *b != 0xEE) {
                    return Ret::Err(Errc::Other("uring: read wrote past its result count".into()));
                }
                rbuf.truncate(k);
                Ret::Ok(Val::Bytes(rbuf))
            }
            Op::Handle { .. } => Ret::Ok(Val::Steps(vec![Ret::Ok(Val::Unit)])),
            _ => Ret::Ok(Val::Unit),
        }
    }
}
