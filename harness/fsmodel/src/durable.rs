//! Durable-image reference model for C07, written from the property text:
//!
//! * volatile tree `v` (the POSIX tree of `model.rs`)
//! * durable directory entries per directory inode (`dents`): the entry set a
//!   directory had at its last `sync_dir`
//! * per file inode the content at its last data sync plus the log of data
//!   operations since (`files`)
//! * crash: volatile := what is reachable from the root through durable
//!   entries, file contents from the durable side.
//!
//! Inodes are identities: a rename keeps the inode, so data synced through a
//! new name belongs to the same file as the durable entry under the old name.
//!
//! Where the property text leaves the outcome open the model keeps a *set*:
//! `Maybe` entries (a directory's own creation made durable by `sync_dir` of
//! itself; the source name of a cross-directory rename of which only the
//! destination directory was synced) and, with `sync_probability > 0` or a
//! `block_size`, the admissible contents of a file. After a crash the model
//! adopts the admissible outcome the implementation chose and continues.

use crate::model::{Ev, Ino, Node, Obs, Tree, ROOT};
use std::collections::{BTreeMap, BTreeSet};

#[derive(Clone, Debug, PartialEq)]
pub enum DEnt {
    Def(Ino),
    /// present or absent; the flag is the generator's guess (never used by the oracle)
    Maybe(Ino, bool),
    Undet,
}

#[derive(Clone, Debug, PartialEq)]
pub enum DataOp {
    Write { off: u64, data: Vec<u8> },
    SetLen(u64),
}

#[derive(Clone, Debug, Default, PartialEq)]
pub struct FileDur {
    /// content at the last explicit data sync (empty if never synced)
    pub synced: Vec<u8>,
    /// data operations since then, in order
    pub log: Vec<DataOp>,
}

#[derive(Clone, Debug)]
pub struct Durable {
    pub v: Tree,
    pub dents: BTreeMap<Ino, BTreeMap<String, DEnt>>,
    pub files: BTreeMap<Ino, FileDur>,
    pub dir_inodes: BTreeSet<Ino>,
    /// cross-directory renames not yet durable on the source side:
    /// (inode, source dir, source name, destination dir, destination name)
    pub moves: Vec<(Ino, Ino, String, Ino, String)>,
    /// bookkeeping for the evidence only: current length per file inode,
    /// inodes with an unsynced extending set_len whose new end no write has
    /// reached, inodes for which such an extension has been data-synced
    pub cur_len: BTreeMap<Ino, u64>,
    pub ext_pending: BTreeSet<Ino>,
    pub synced_ext: BTreeSet<Ino>,
    /// sync_probability > 0
    pub bg_sync: bool,
    pub block: Option<u64>,
}

#[derive(Clone, Debug)]
pub struct CrashComplaint {
    pub class: String,
    pub what: String,
}

#[derive(Default, Clone, Debug)]
pub struct CrashStats {
    pub asserted_paths: u64,
    pub files_checked: u64,
    pub durable_files: u64,
    pub durable_dirs: u64,
    pub rolled_back: u64,
    pub maybe_entries: u64,
    pub undetermined: u64,
    pub admissible_set_sizes: u64,
    pub admissible_sets: u64,
    pub admissible_max: u64,
    pub too_many_candidates: u64,
    pub adopted_non_base: u64,
    /// durable files checked whose last data sync covered an extending set_len
    pub synced_extensions: u64,
    /// set when an Undet entry / duplicate reachability makes the rest unknown
    pub stop: bool,
}

fn apply_data(c: &mut Vec<u8>, op: &DataOp) {
    match op {
        DataOp::Write { off, data } => {
            let end = *off as usize + data.len();
            if c.len() < end {
                c.resize(end, 0);
            }
            c[*off as usize..end].copy_from_slice(data);
        }
        DataOp::SetLen(n) => c.resize(*n as usize, 0),
    }
}

impl Durable {
    pub fn new(bg_sync: bool, block: Option<u64>) -> Durable {
        let mut dents = BTreeMap::new();
        dents.insert(ROOT, BTreeMap::new());
        let mut dir_inodes = BTreeSet::new();
        dir_inodes.insert(ROOT);
        Durable {
            v: Tree::new(),
            dents,
            files: BTreeMap::new(),
            dir_inodes,
            moves: vec![],
            cur_len: BTreeMap::new(),
            ext_pending: BTreeSet::new(),
            synced_ext: BTreeSet::new(),
            bg_sync,
            block,
        }
    }

    /// Consume the data-level events of the last `v.apply`.
    pub fn absorb(&mut self) {
        let evs = std::mem::take(&mut self.v.events);
        for ev in evs {
            match ev {
                Ev::CreatedFile(i) => {
                    self.cur_len.insert(i, 0);
                    self.files.insert(i, FileDur::default());
                }
                Ev::CreatedDir(i) => {
                    self.dir_inodes.insert(i);
                    self.dents.insert(i, BTreeMap::new());
                }
                Ev::Write { ino, off, data } => {
                    let end = off + data.len() as u64;
                    let l = self.cur_len.entry(ino).or_default();
                    if end >= *l {
                        *l = end;
                        self.ext_pending.remove(&ino);
                    }
                    self.files
                        .entry(ino)
                        .or_default()
                        .log
                        .push(DataOp::Write { off, data });
                }
                Ev::SetLen { ino, len } => {
                    let l = self.cur_len.entry(ino).or_default();
                    if len > *l {
                        self.ext_pending.insert(ino);
                    } else if len < *l {
                        self.ext_pending.remove(&ino);
                    }
                    *l = len;
                    self.files.entry(ino).or_default().log.push(DataOp::SetLen(len));
                }
                Ev::OpenTrunc { ino } => {
                    self.cur_len.insert(ino, 0);
                    self.ext_pending.remove(&ino);
                    self.files.entry(ino).or_default().log.push(DataOp::SetLen(0));
                }
                Ev::SyncFile(i, content) => {
                    if self.ext_pending.remove(&i) {
                        self.synced_ext.insert(i);
                    }
                    let f = self.files.entry(i).or_default();
                    f.synced = content;
                    f.log.clear();
                }
                Ev::MovedAcross {
                    ino,
                    from_dir,
                    from_name,
                    to_dir,
                    to_name,
                } => self.moves.push((ino, from_dir, from_name, to_dir, to_name)),
                Ev::SyncDir(d) => self.sync_dir(d),
            }
        }
    }

    fn sync_dir(&mut self, d: Ino) {
        let new: BTreeMap<String, Ino> = self.v.dir(d).clone();
        let old = self.dents.get(&d).cloned().unwrap_or_default();
        // A cross-directory rename of which only ONE of the two directories
        // has been synced: the property text does not say whether the other
        // name follows (a rename is one atomic operation, yet each entry is
        // "made durable by syncing its parent directory"). Each name may show
        // the state before or after the rename until its own directory is
        // synced too.
        let moves = std::mem::take(&mut self.moves);
        for (ino, from_dir, from_name, to_dir, to_name) in moves {
            if to_dir == d && from_dir != d {
                // destination synced (snapshot below); source name undecided
                if let Some(ents) = self.dents.get_mut(&from_dir) {
                    if matches!(ents.get(&from_name), Some(DEnt::Def(j)) if *j == ino) {
                        ents.insert(from_name.clone(), DEnt::Maybe(ino, false));
                    }
                }
                continue;
            }
            if from_dir == d && to_dir != d {
                // source synced (snapshot below); destination name undecided
                let ents = self.dents.entry(to_dir).or_default();
                match ents.get(&to_name) {
                    None => {
                        ents.insert(to_name.clone(), DEnt::Maybe(ino, true));
                    }
                    Some(DEnt::Def(j)) | Some(DEnt::Maybe(j, _)) if *j == ino => {}
                    Some(_) => {
                        // old object or the renamed one
                        ents.insert(to_name.clone(), DEnt::Undet);
                    }
                }
                continue;
            }
            if from_dir == d && to_dir == d {
                continue;
            }
            self.moves.push((ino, from_dir, from_name, to_dir, to_name));
        }
        let _ = &old;
        self.dents
            .insert(d, new.into_iter().map(|(n, i)| (n, DEnt::Def(i))).collect());
        // the directory's own creation may become durable independently of
        // its parent
        if d != ROOT {
            if let Some((p, name)) = self.v.parent_of(d) {
                let ents = self.dents.entry(p).or_default();
                match ents.get(&name) {
                    Some(DEnt::Def(j)) | Some(DEnt::Maybe(j, _)) if *j == d => {}
                    Some(_) => {
                        ents.insert(name, DEnt::Undet);
                    }
                    None => {
                        ents.insert(name, DEnt::Maybe(d, true));
                    }
                }
            }
        }
    }

    /// Admissible post-crash contents of a file inode. `None` = too many
    /// combinations to enumerate (undetermined).
    pub fn admissible(&self, i: Ino) -> Option<BTreeSet<Vec<u8>>> {
        let empty = FileDur::default();
        let f = self.files.get(&i).unwrap_or(&empty);
        // states[k] = content after the first k logged ops
        let mut states = vec![f.synced.clone()];
        for op in &f.log {
            let mut c = states.last().unwrap().clone();
            apply_data(&mut c, op);
            states.push(c);
        }
        let bases: Vec<usize> = if self.bg_sync {
            (0..states.len()).collect()
        } else {
            vec![0]
        };
        let mut out = BTreeSet::new();
        for j in bases {
            match self.block {
                None => {
                    out.insert(states[j].clone());
                }
                Some(b) => {
                    // pending writes after sync point j, each cut to a prefix
                    // of whole blocks counted from the start of the write
                    let writes: Vec<(&u64, &Vec<u8>)> = f.log[j..]
                        .iter()
                        .filter_map(|op| match op {
                            DataOp::Write { off, data } => Some((off, data)),
                            _ => None,
                        })
                        .collect();
                    let mut combos: u64 = 1;
                    for (_, data) in &writes {
                        combos = combos.saturating_mul((data.len() as u64).div_ceil(b) + 1);
                    }
                    if combos > 4096 {
                        return None;
                    }
                    let mut cur: Vec<Vec<u8>> = vec![states[j].clone()];
                    for (off, data) in writes {
                        let blocks = (data.len() as u64).div_ceil(b);
                        let mut next = vec![];
                        for c in &cur {
                            for k in 0..=blocks {
                                let keep = ((k * b) as usize).min(data.len());
                                let mut c2 = c.clone();
                                if keep > 0 {
                                    apply_data(
                                        &mut c2,
                                        &DataOp::Write {
                                            off: *off,
                                            data: data[..keep].to_vec(),
                                        },
                                    );
                                }
                                next.push(c2);
                            }
                        }
                        next.sort();
                        next.dedup();
                        cur = next;
                    }
                    out.extend(cur);
                }
            }
        }
        Some(out)
    }

    /// Count of volatile mutations a crash would roll back (for the
    /// non-triviality rule): objects not durable + files with logged data ops.
    pub fn pending_mutations(&self) -> u64 {
        let mut n = 0;
        for (i, node) in &self.v.nodes {
            match node {
                Node::File(_) => {
                    if self.files.get(i).map(|f| !f.log.is_empty()).unwrap_or(false) {
                        n += 1;
                    }
                }
                Node::Dir(m) => {
                    let d = self.dents.get(i).cloned().unwrap_or_default();
                    for (name, c) in m {
                        if !matches!(d.get(name), Some(DEnt::Def(j)) if j == c) {
                            n += 1;
                        }
                    }
                    for name in d.keys() {
                        if !m.contains_key(name) {
                            n += 1;
                        }
                    }
                }
            }
        }
        n
    }

    /// Crash: compare the implementation's post-crash tree with the durable
    /// image (top-down from the root, through durable entries only) and
    /// adopt the admissible outcome it shows. `obs` observes the real tree.
    pub fn crash(
        &mut self,
        obs: &mut dyn FnMut(&str) -> Obs,
        st: &mut CrashStats,
    ) -> Option<CrashComplaint> {
        st.rolled_back += self.pending_mutations();
        let mut new_tree = Tree::new();
        new_tree.next = self.v.next;
        let mut new_dents: BTreeMap<Ino, BTreeMap<String, DEnt>> = BTreeMap::new();
        let mut new_files: BTreeMap<Ino, FileDur> = BTreeMap::new();
        let mut visited: BTreeSet<Ino> = BTreeSet::new();
        visited.insert(ROOT);
        let r = self.visit(
            ROOT,
            "/",
            obs,
            st,
            &mut new_tree,
            &mut new_dents,
            &mut new_files,
            &mut visited,
        );
        if let Some(c) = r {
            return Some(c);
        }
        // Dangling durable state: entries made durable (or a directory whose
        // own creation may have become durable) inside a directory the walk
        // from the root never reached, because an ancestor is not durable.
        // The property asserts nothing about such subtrees ("leaves dangling
        // subtrees unspecified"), and that includes what they turn into when an
        // object is later created under the same name in a new generation
        // (the implementation keeps them and they reattach). This crash was
        // judged on everything reachable; nothing after it is asserted.
        if self.dents.iter().any(|(d, ents)| !visited.contains(d) && !ents.is_empty()) {
            st.undetermined += 1;
            st.stop = true;
        }
        self.v = new_tree;
        self.dents = new_dents;
        self.files = new_files;
        self.moves.clear();
        self.ext_pending.clear();
        self.synced_ext.clear();
        self.cur_len = self
            .v
            .nodes
            .iter()
            .filter_map(|(i, n)| match n {
                Node::File(c) => Some((*i, c.len() as u64)),
                _ => None,
            })
            .collect();
        self.dir_inodes = self
            .v
            .nodes
            .iter()
            .filter(|(_, n)| matches!(n, Node::Dir(_)))
            .map(|(i, _)| *i)
            .collect();
        None
    }

    #[allow(clippy::too_many_arguments)]
    fn visit(
        &self,
        d: Ino,
        path: &str,
        obs: &mut dyn FnMut(&str) -> Obs,
        st: &mut CrashStats,
        nt: &mut Tree,
        nd: &mut BTreeMap<Ino, BTreeMap<String, DEnt>>,
        nf: &mut BTreeMap<Ino, FileDur>,
        visited: &mut BTreeSet<Ino>,
    ) -> Option<CrashComplaint> {
        st.asserted_paths += 1;
        st.durable_dirs += 1;
        let real = obs(path);
        let names = match &real {
            Obs::Dir(n) => n.clone(),
            other => {
                return Some(CrashComplaint {
                    class: if matches!(other, Obs::Absent) {
                        "crash:missing-dir".into()
                    } else {
                        "crash:kind".into()
                    },
                    what: format!("{path}: durable directory, after the crash {}", other.short()),
                })
            }
        };
        let ents = self.dents.get(&d).cloned().unwrap_or_default();
        // every definite entry must be there
        for (n, e) in &ents {
            if let DEnt::Def(_) = e {
                if !names.contains(n) {
                    return Some(CrashComplaint {
                        class: "crash:missing".into(),
                        what: format!(
                            "{}: durable entry '{n}' is gone after the crash (read_dir = {:?})",
                            path, names
                        ),
                    });
                }
            }
        }
        // nothing else may be there
        for n in &names {
            if !ents.contains_key(n) {
                return Some(CrashComplaint {
                    class: "crash:resurrected".into(),
                    what: format!(
                        "{}: entry '{n}' was never made durable (or was durably removed) but exists after the crash",
                        path
                    ),
                });
            }
        }
        let mut adopted: BTreeMap<String, Ino> = BTreeMap::new();
        for (n, e) in &ents {
            let child_path = if path == "/" {
                format!("/{n}")
            } else {
                format!("{path}/{n}")
            };
            let i = match e {
                DEnt::Undet => {
                    st.undetermined += 1;
                    st.stop = true;
                    continue;
                }
                DEnt::Maybe(i, _) => {
                    st.maybe_entries += 1;
                    if !names.contains(n) {
                        continue;
                    }
                    *i
                }
                DEnt::Def(i) => *i,
            };
            if !visited.insert(i) {
                // reachable twice: outside what the model can follow
                st.undetermined += 1;
                st.stop = true;
                continue;
            }
            if self.dir_inodes.contains(&i) {
                nt.nodes.insert(i, Node::Dir(BTreeMap::new()));
                adopted.insert(n.clone(), i);
                if let Some(c) = self.visit(i, &child_path, obs, st, nt, nd, nf, visited) {
                    return Some(c);
                }
            } else {
                st.asserted_paths += 1;
                st.durable_files += 1;
                if self.synced_ext.contains(&i) {
                    st.synced_extensions += 1;
                }
                let got = obs(&child_path);
                let content = match got {
                    Obs::File(c) => c,
                    other => {
                        return Some(CrashComplaint {
                            class: if matches!(other, Obs::Absent) {
                                "crash:missing".into()
                            } else if matches!(other, Obs::Confused(_)) {
                                "crash:confused".into()
                            } else {
                                "crash:kind".into()
                            },
                            what: format!(
                                "{child_path}: durable regular file, after the crash {}",
                                other.short()
                            ),
                        })
                    }
                };
                match self.admissible(i) {
                    None => {
                        st.too_many_candidates += 1;
                    }
                    Some(set) => {
                        st.files_checked += 1;
                        st.admissible_sets += 1;
                        st.admissible_set_sizes += set.len() as u64;
                        st.admissible_max = st.admissible_max.max(set.len() as u64);
                        if !set.contains(&content) {
                            let base = self
                                .files
                                .get(&i)
                                .map(|f| f.synced.clone())
                                .unwrap_or_default();
                            let vol = match self.v.nodes.get(&i) {
                                Some(Node::File(c)) => Some(c.clone()),
                                _ => None,
                            };
                            let class = if vol.as_ref() == Some(&content) && set.len() == 1 {
                                "crash:unsynced-data-survived"
                            } else if content.len() < base.len()
                                || !content.starts_with(&base[..base.len().min(content.len())])
                            {
                                "crash:synced-data-lost"
                            } else {
                                "crash:content"
                            };
                            let show: Vec<String> = set
                                .iter()
                                .take(4)
                                .map(|c| Obs::File(c.clone()).short())
                                .collect();
                            return Some(CrashComplaint {
                                class: class.into(),
                                what: format!(
                                    "{child_path}: after the crash {}, admissible ({}): {}",
                                    Obs::File(content.clone()).short(),
                                    set.len(),
                                    show.join(" | ")
                                ),
                            });
                        }
                        if self.files.get(&i).map(|f| f.synced != content).unwrap_or(false) {
                            st.adopted_non_base += 1;
                        }
                    }
                }
                nt.nodes.insert(i, Node::File(content.clone()));
                nf.insert(
                    i,
                    FileDur {
                        synced: content,
                        log: vec![],
                    },
                );
                adopted.insert(n.clone(), i);
            }
        }
        nd.insert(
            d,
            adopted.iter().map(|(n, i)| (n.clone(), DEnt::Def(*i))).collect(),
        );
        if let Some(Node::Dir(m)) = nt.nodes.get_mut(&d) {
            *m = adopted;
        }
        None
    }

    /// Crash as the generator sees it (no implementation to ask): `Maybe`
    /// entries vanish, files fall back to their last explicitly synced
    /// content.
    pub fn crash_assume(&mut self) {
        let mut ask = |_: &str| Obs::Absent;
        let _ = &mut ask;
        let snapshot = self.clone();
        let mut st = CrashStats::default();
        // Build an oracle-free observer from the durable image itself
        fn obs_of(d: &Durable, path: &str) -> Obs {
            let mut cur = ROOT;
            for c in crate::ops::comps(path) {
                match d.dents.get(&cur).and_then(|m| m.get(c)) {
                    Some(DEnt::Def(i)) | Some(DEnt::Maybe(i, true)) => cur = *i,
                    _ => return Obs::Absent,
                }
            }
            if d.dir_inodes.contains(&cur) {
                Obs::Dir(
                    d.dents
                        .get(&cur)
                        .map(|m| {
                            m.iter()
                                .filter(|(_, e)| {
                                    matches!(e, DEnt::Def(_) | DEnt::Maybe(_, true))
                                })
                                .map(|(n, _)| n.clone())
                                .collect()
                        })
                        .unwrap_or_default(),
                )
            } else {
                Obs::File(d.files.get(&cur).map(|f| f.synced.clone()).unwrap_or_default())
            }
        }
        let mut o = |p: &str| obs_of(&snapshot, p);
        // admissibility is irrelevant here: make every content acceptable
        let mut lenient = self.clone();
        lenient.block = None;
        lenient.bg_sync = false;
        for f in lenient.files.values_mut() {
            f.log.clear();
        }
        let _ = lenient.crash(&mut o, &mut st);
        self.v = lenient.v;
        self.dents = lenient.dents;
        self.files = lenient.files;
        self.dir_inodes = lenient.dir_inodes;
        self.moves.clear();
    }
}
