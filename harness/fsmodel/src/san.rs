//! Sanitizer phase (stub)
pub fn fold(_ctx: &vcore::Ctx, _rep: &mut vcore::Report, _prop: &str) {}
