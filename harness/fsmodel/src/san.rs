//! Sanitizer phase: small direct-driven workloads (`san-child`) executed under
//! Miri and AddressSanitizer as child processes (`san`, also invoked by the
//! thorough tier of C07 / C18).
//!
//! * C07: direct driver with `block_size` set (raw-pointer split borrow in
//!   `Fs::crash`), crash-continue-crash histories.
//! * C18: ring scripts heavy in cancels and crashes with the *buffer
//!   discipline*: an operation buffer is freed as soon as its CQE, the CQE of
//!   the cancel that hit it, or the crash is observed, and the script keeps
//!   draining. A later touch by the ring is a use-after-free.
//!
//! Verdict mapping: a memory error on an operation buffer -> violation class
//! `buffer-uaf`; aliasing-model diagnostics elsewhere -> reported in the
//! evidence, not a verdict; a sanitizer that cannot be run -> harness error
//! (INCONCLUSIVE), never a violation.

use crate::c18::RStats;
use crate::diff::Stats;
use crate::gen::{gen_history, GenCfg};
use crate::ops::Op;
use crate::real::{Cfg, Lat};
use crate::ring::gen_script;
use serde_json::{json, Value};
use std::process::Command;
use vcore::{Ctx, Report, Rng};

/// The workload run inside the sanitizer. Prints one `SAN-CHILD-OK` line.
pub fn child(args: &[String]) -> ! {
    let which = args.first().map(|s| s.as_str()).unwrap_or("c18");
    let scale: u64 = args
        .iter()
        .position(|a| a == "--scale")
        .and_then(|i| args.get(i + 1))
        .and_then(|s| s.parse().ok())
        .unwrap_or(1);
    let seed: u64 = std::env::var("VERIF_SEED")
        .ok()
        .and_then(|s| s.parse().ok())
        .unwrap_or(0);
    let mut ops = 0u64;
    let mut complaints = 0u64;
    let extra;
    match which {
        "c07" => {
            let mut crashes = 0u64;
            for i in 0..(10 * scale) {
                let mut rng = Rng::new(vcore::rng::mix(seed ^ (0xC07 << 32) ^ i));
                let gc = GenCfg {
                    len: rng.range(8, 16) as usize,
                    fe_w: [3, 1, 1],
                    crashes: true,
                    sync_heavy: true,
                    sync_everywhere: false,
                    max_write: 16,
                    avoid_zones: true,
                };
                let cfg = Cfg {
                    sync_prob: if i % 2 == 0 { 0.0 } else { 0.3 },
                    block: Some(*rng.pick(&[2u64, 4])),
                    lat: Lat::None,
                    page_cache: false,
                    fs_seed: rng.next_u64(),
                    capacity: None,
                    dio_align: None,
                    rw_modes: false,
                    io_err: 0.0,
                };
                let (mut h, _) = gen_history(&mut rng, &gc);
                h.push(Op::Crash);
                let mut st = Stats::default();
                let o = crate::c07::run_direct(&cfg, &h, &mut st, false);
                ops += h.len() as u64;
                crashes += o.crashes;
                if o.complaint.is_some() {
                    complaints += 1;
                }
            }
            extra = format!(" crashes={crashes}");
        }
        _ => {
            let mut freed = 0u64;
            let mut cqes = 0u64;
            for i in 0..(6 * scale) {
                let mut rng = Rng::new(vcore::rng::mix(seed ^ (0xC18 << 32) ^ i));
                // dense cancel / crash scripts, every third one a random script
                let s = if i % 3 == 2 {
                    gen_script(&mut rng, 30, true)
                } else {
                    crate::ring::gen_san_script(&mut rng)
                };
                let mut st = RStats::default();
                let c = crate::c18::run_direct(&s, &mut st, true);
                ops += s.acts.len() as u64;
                freed += st.get("buffers_freed_early");
                cqes += st.get("cqes");
                if c.is_some() {
                    complaints += 1;
                }
            }
            extra = format!(" cqes={cqes} buffers_freed_early={freed}");
        }
    }
    println!("SAN-CHILD-OK prop={which} ops={ops} oracle_complaints={complaints}{extra}");
    std::process::exit(0)
}

#[derive(Debug, Clone)]
pub struct ToolRun {
    pub tool: String,
    pub prop: String,
    pub ran: bool,
    pub clean: bool,
    pub ops: u64,
    pub reports: u64,
    pub buffer_reports: u64,
    pub aliasing_reports: u64,
    pub wall_s: f64,
    pub detail: String,
    pub summary_line: String,
}

impl ToolRun {
    fn to_json(&self) -> Value {
        json!({
            "tool": self.tool, "workload": self.prop, "ran": self.ran, "clean": self.clean,
            "ops_executed": self.ops, "reports": self.reports,
            "reports_on_operation_buffers": self.buffer_reports,
            "aliasing_model_reports": self.aliasing_reports,
            "wall_s": (self.wall_s * 10.0).round() / 10.0,
            "child_summary": self.summary_line,
            "detail": self.detail,
        })
    }
}

fn harness_dir() -> std::path::PathBuf {
    // the binary is built from /verif/harness; allow an override for scratch copies
    std::env::var("FSMODEL_HARNESS_DIR")
        .map(std::path::PathBuf::from)
        .unwrap_or_else(|_| std::path::PathBuf::from(env!("CARGO_MANIFEST_DIR")).join(".."))
}

fn classify(tool: &str, prop: &str, out: std::io::Result<std::process::Output>, wall: f64) -> ToolRun {
    let mut r = ToolRun {
        tool: tool.into(),
        prop: prop.into(),
        ran: false,
        clean: false,
        ops: 0,
        reports: 0,
        buffer_reports: 0,
        aliasing_reports: 0,
        wall_s: wall,
        detail: String::new(),
        summary_line: String::new(),
    };
    let out = match out {
        Ok(o) => o,
        Err(e) => {
            r.detail = format!("cannot spawn: {e}");
            return r;
        }
    };
    let stdout = String::from_utf8_lossy(&out.stdout).to_string();
    let stderr = String::from_utf8_lossy(&out.stderr).to_string();
    if let Some(l) = stdout.lines().find(|l| l.starts_with("SAN-CHILD-OK")) {
        r.summary_line = l.to_string();
        for tok in l.split_whitespace() {
            if let Some(v) = tok.strip_prefix("ops=") {
                r.ops = v.parse().unwrap_or(0);
            }
        }
    }
    let ub = stderr.matches("error: Undefined Behavior").count() as u64;
    let asan = stderr.matches("ERROR: AddressSanitizer").count() as u64;
    r.reports = ub + asan;
    if r.reports > 0 {
        r.ran = true;
        let low = stderr.to_lowercase();
        let memory = low.contains("has been freed")
            || low.contains("dangling")
            || low.contains("use-after-free")
            || low.contains("heap-buffer-overflow")
            || low.contains("out-of-bounds");
        let aliasing = low.contains("stacked borrows")
            || low.contains("tree borrows")
            || low.contains("retag")
            || low.contains("not granting access");
        let on_ring_path = low.contains("exec_read")
            || low.contains("exec_write")
            || low.contains("read_file")
            || low.contains("turmoil_io_uring")
            || low.contains("copy_from_slice")
            || low.contains("from_raw_parts");
        if memory && (on_ring_path || prop == "c18") {
            r.buffer_reports = r.reports;
        } else if aliasing {
            r.aliasing_reports = r.reports;
        }
        // keep the head of the first report
        let start = stderr
            .find("Undefined Behavior")
            .or_else(|| stderr.find("ERROR: AddressSanitizer"))
            .unwrap_or(0);
        r.detail = stderr[start.saturating_sub(7)..].chars().take(1500).collect();
        return r;
    }
    if out.status.success() && !r.summary_line.is_empty() {
        r.ran = true;
        r.clean = true;
        return r;
    }
    r.detail = format!(
        "exit {:?}; stderr tail: {}",
        out.status.code(),
        stderr.chars().rev().take(600).collect::<String>().chars().rev().collect::<String>()
    );
    r
}

pub fn run_miri(prop: &str) -> ToolRun {
    let t0 = std::time::Instant::now();
    let dir = harness_dir();
    let out = Command::new("cargo")
        .current_dir(&dir)
        .args([
            "+nightly",
            "miri",
            "run",
            "--offline",
            "-q",
            "-p",
            "fsmodel",
            "--target-dir",
        ])
        .arg(dir.join("target-miri"))
        .args(["--", "san-child", prop])
        .env("MIRIFLAGS", "-Zmiri-disable-isolation")
        .env_remove("RUSTFLAGS")
        .output();
    classify("miri", prop, out, t0.elapsed().as_secs_f64())
}

pub fn run_asan(prop: &str, scale: u64) -> ToolRun {
    let t0 = std::time::Instant::now();
    let dir = harness_dir();
    let out = Command::new("cargo")
        .current_dir(&dir)
        .args([
            "+nightly",
            "run",
            "--offline",
            "-q",
            "--release",
            "-p",
            "fsmodel",
            "--target",
            "x86_64-unknown-linux-gnu",
            "--target-dir",
        ])
        .arg(dir.join("target-asan"))
        .args(["--", "san-child", prop, "--scale"])
        .arg(scale.to_string())
        .env(
            "RUSTFLAGS",
            "-Zsanitizer=address -Cforce-frame-pointers=yes --cfg tokio_unstable --cfg turmoil_verif",
        )
        .env("ASAN_OPTIONS", "detect_leaks=0:abort_on_error=0")
        .output();
    classify("asan", prop, out, t0.elapsed().as_secs_f64())
}

/// Run the sanitizer phase of `prop` and fold it into the report.
pub fn fold(ctx: &Ctx, rep: &mut Report, prop: &str) {
    let which = if prop == "C07" { "c07" } else { "c18" };
    let mut runs = vec![run_miri(which)];
    if which == "c18" {
        runs.push(run_asan(which, 400));
    }
    let mut ops_miri = 0;
    let mut ops_asan = 0;
    for r in &runs {
        if r.tool == "miri" {
            ops_miri += r.ops;
        } else {
            ops_asan += r.ops;
        }
        if !r.ran {
            rep.harness_errors.push(format!(
                "sanitizer {} could not run the {} workload: {}",
                r.tool, r.prop, r.detail
            ));
        } else if r.buffer_reports > 0 {
            let v = vcore::Violation {
                class: "buffer-uaf".into(),
                signature: format!("buffer-uaf|{}|{}", r.tool, which),
                what: format!(
                    "{} reported a memory error on an operation buffer in the {} workload: {}",
                    r.tool,
                    which,
                    r.detail.lines().take(3).collect::<Vec<_>>().join(" / ")
                ),
                witness: json!({"kind":"sanitizer","tool":r.tool,"workload":which,
                    "cmd": format!("fsmodel san {prop}"), "report": r.detail}),
            };
            rep.violation_count += 1;
            rep.violations.insert(v.signature.clone(), v);
        } else if !r.clean && r.aliasing_reports == 0 {
            // a report that is neither on a buffer nor an aliasing diagnostic:
            // not attributable here; the phase did not complete
            rep.harness_errors.push(format!(
                "sanitizer {} stopped on an unclassified report: {}",
                r.tool,
                r.detail.lines().take(2).collect::<Vec<_>>().join(" / ")
            ));
        }
    }
    *rep.counters.entry("san_ops_under_miri".into()).or_default() += ops_miri;
    *rep.counters.entry("san_ops_under_asan".into()).or_default() += ops_asan;
    *rep.counters.entry("san_reports".into()).or_default() +=
        runs.iter().map(|r| r.reports).sum::<u64>();
    rep.extra.insert(
        "sanitizers".into(),
        json!({
            "runs": runs.iter().map(|r| r.to_json()).collect::<Vec<_>>(),
            "ops_under_miri": ops_miri,
            "ops_under_asan": ops_asan,
            "reports_on_operation_buffers": runs.iter().map(|r| r.buffer_reports).sum::<u64>(),
            "aliasing_model_reports_not_verdicts": runs.iter().map(|r| r.aliasing_reports).sum::<u64>(),
        }),
    );
    let _ = ctx;
}

/// `fsmodel san <C07|C18>`: the sanitizer phase alone.
pub fn main(ctx: &Ctx) -> ! {
    let prop = ctx.rest.first().cloned().unwrap_or_else(|| "C18".into());
    let mut rep = Report::default();
    fold(ctx, &mut rep, &prop);
    println!(
        "{}",
        serde_json::to_string_pretty(&rep.extra.get("sanitizers").cloned().unwrap_or(json!({})))
            .unwrap()
    );
    if !rep.violations.is_empty() {
        for v in rep.violations.values() {
            println!("# {}: {}", v.class, v.what);
        }
        println!("VIOLATION property={prop} (sanitizer phase)");
        std::process::exit(1);
    }
    if !rep.harness_errors.is_empty() {
        for e in &rep.harness_errors {
            println!("# {e}");
        }
        println!("INCONCLUSIVE property={prop} sanitizer phase could not complete");
        std::process::exit(2);
    }
    println!("OK property={prop} sanitizer phase clean");
    std::process::exit(0)
}
