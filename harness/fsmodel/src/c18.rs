//! C18 — every io_uring submission completes exactly once with the right
//! result. Direct driver (entered Fs + IoUringHostState, harness-owned ring
//! clock) and in-Sim driver (AsyncFd::readable loops, Sim::crash/bounce).

use crate::durable::CrashStats;
use crate::model::Obs;
use crate::ops::payload;
use crate::real::Direct;
use crate::ring::*;
use serde_json::{json, Value};
use std::collections::BTreeMap;
use std::os::fd::AsRawFd;
use std::time::Duration;
use turmoil::fs::shim::std::fs as sfs;
use turmoil::io_uring::{opcode, squeue, types, IoUring};
use vcore::{Ctx, Finish, Rng, RunOpts, ScenarioOut};

#[derive(Clone, Debug)]
pub struct Complaint {
    pub class: String,
    /// index of the act at which the oracle complained
    #[allow(dead_code)]
    pub at: usize,
    pub what: String,
}

#[derive(Default, Clone, Debug)]
pub struct RStats {
    pub c: BTreeMap<String, u64>,
}
impl RStats {
    pub fn inc(&mut self, k: &str) {
        *self.c.entry(k.into()).or_default() += 1;
    }
    pub fn add(&mut self, k: &str, n: u64) {
        *self.c.entry(k.into()).or_default() += n;
    }
    pub fn get(&self, k: &str) -> u64 {
        self.c.get(k).copied().unwrap_or(0)
    }
}

const SENTINEL: u8 = 0xEE;

struct Buf {
    /// allocation; the operation uses `data[skew..skew + n]` (skew > 0 only
    /// for O_DIRECT operations, whose buffer must be aligned)
    data: Vec<u8>,
    skew: usize,
    n: usize,
    is_read: bool,
}

impl Buf {
    fn new(content: Vec<u8>, is_read: bool, align: Option<u64>) -> Buf {
        let n = content.len();
        match align {
            None => Buf {
                data: content,
                skew: 0,
                n,
                is_read,
            },
            Some(a) => {
                let mut data = vec![SENTINEL; n + a as usize];
                let addr = data.as_ptr() as usize;
                let skew = (a as usize - addr % a as usize) % a as usize;
                data[skew..skew + n].copy_from_slice(&content);
                Buf {
                    data,
                    skew,
                    n,
                    is_read,
                }
            }
        }
    }
    fn region(&self) -> &[u8] {
        &self.data[self.skew..self.skew + self.n]
    }
    fn ptr(&mut self) -> *mut u8 {
        self.data[self.skew..].as_mut_ptr()
    }
}

fn flag_of(f: u8) -> squeue::Flags {
    match f {
        0 => squeue::Flags::empty(),
        1 => squeue::Flags::ASYNC,
        2 => squeue::Flags::FIXED_FILE,
        3 => squeue::Flags::IO_DRAIN,
        4 => squeue::Flags::IO_LINK,
        5 => squeue::Flags::IO_HARDLINK,
        _ => squeue::Flags::BUFFER_SELECT,
    }
}

pub const ENOSPC: i32 = -28;

/// The same write through the synchronous file API (std shim), as a CQE-style
/// result: bytes written or a negative errno.
fn sync_api_write(d: &Direct, path: &str, off: u64, data: &[u8]) -> i32 {
    use std::os::unix::fs::FileExt;
    d.entered(|| {
        let f = match sfs::OpenOptions::new().write(true).open(path) {
            Ok(f) => f,
            Err(e) => return -(1000 + e.kind() as i32),
        };
        match f.write_at(data, off) {
            Ok(n) => n as i32,
            Err(e) => {
                if e.to_string().contains("No space left") {
                    ENOSPC
                } else {
                    -(1000 + e.kind() as i32)
                }
            }
        }
    })
}

fn open_rw(p: &str) -> std::io::Result<sfs::File> {
    sfs::OpenOptions::new().read(true).write(true).open(p)
}

/// Execute a ring script on a directly driven host.
///
/// `san`: sanitizer discipline — an operation buffer is *freed* as soon as
/// its CQE, the CQE of a cancel that hit it, or a crash is observed; the
/// script keeps draining afterwards. Without `san` retired buffers are kept
/// and must still hold their sentinel / payload at the end.
pub fn run_direct(s: &Script, st: &mut RStats, san: bool) -> Option<Complaint> {
    let mut real = Direct::new(&s.cfg);
    let mut m = Model::new(s);
    let fail = |class: &str, at: usize, what: String| {
        Some(Complaint {
            class: class.into(),
            at,
            what,
        })
    };
    // setup: files with durable initial content
    let mut files: Vec<Option<sfs::File>> = vec![];
    let mut last_fd: Vec<i32> = vec![];
    {
        let paths: Vec<String> = (0..s.nfiles).map(file_path).collect();
        let r: std::io::Result<()> = real.entered(|| {
            for (i, p) in paths.iter().enumerate() {
                sfs::write(p, initial_content(i))?;
                let f = open_rw(p)?;
                f.sync_all()?;
                last_fd.push(f.as_raw_fd());
                files.push(Some(f));
            }
            sfs::sync_dir("/")?;
            Ok(())
        });
        if let Err(e) = r {
            return fail("setup", 0, format!("setup failed: {e}"));
        }
        for i in 0..s.nfiles {
            for op in [
                crate::ops::Op::WriteAll {
                    p: file_path(i),
                    n: initial_content(i).len() as u32,
                    key: 10 + i as u8 * 3,
                    fe: crate::ops::Fe::Std,
                },
                crate::ops::Op::SyncAll {
                    p: file_path(i),
                    fe: crate::ops::Fe::Std,
                },
            ] {
                m.fs.v.apply(&op);
                m.fs.absorb();
            }
            m.open_file(i);
        }
        m.fs.v.apply(&crate::ops::Op::SyncDir {
            p: "/".into(),
            fe: crate::ops::Fe::Std,
        });
        m.fs.absorb();
    }
    // second, O_DIRECT handle per file (same file, opened twice)
    let mut dfiles: Vec<Option<sfs::File>> = vec![];
    let mut direct_fd: Vec<i32> = vec![-1; s.nfiles];
    let open_direct = |p: &str| {
        sfs::OpenOptions::new()
            .read(true)
            .write(true)
            .direct_io(true)
            .open(p)
    };
    if s.cfg.dio_align.is_some() {
        st.inc("direct_io_scripts");
        for i in 0..s.nfiles {
            match real.entered(|| open_direct(&file_path(i))) {
                Ok(f) => {
                    direct_fd[i] = f.as_raw_fd();
                    dfiles.push(Some(f));
                    m.open_direct(i);
                }
                Err(e) => return fail("setup", 0, format!("O_DIRECT open failed: {e}")),
            }
        }
    }
    // Twin (capacity configurations): a second file system in the same
    // configuration to which every effect is applied through the synchronous
    // std shim at the moment the ring yields it. The ring result must equal
    // what the sync API returns there (incl. ENOSPC, file unchanged).
    let mut twin: Option<Direct> = None;
    if s.cfg.capacity.is_some() || s.cfg.io_err > 0.0 {
        if s.cfg.capacity.is_some() {
            st.inc("capacity_scripts");
        }
        let t = Direct::new(&s.cfg);
        let r: std::io::Result<()> = t.entered(|| {
            for i in 0..s.nfiles {
                let p = file_path(i);
                sfs::write(&p, initial_content(i))?;
                open_rw(&p)?.sync_all()?;
            }
            sfs::sync_dir("/")?;
            Ok(())
        });
        if let Err(e) = r {
            return fail("setup", 0, format!("twin setup failed: {e}"));
        }
        twin = Some(t);
    }
    // fault knob switched on only after the setup (the setup itself must succeed)
    if s.cfg.io_err > 0.0 {
        st.inc("io_error_scripts");
        real.fs.lock().unwrap().io_error_probability = s.cfg.io_err;
        if let Some(t) = &twin {
            t.fs.lock().unwrap().io_error_probability = s.cfg.io_err;
        }
    }
    // read-only and write-only handle per file
    let mut mfiles: Vec<(sfs::File, sfs::File)> = vec![];
    let open_modes = |p: &str| -> std::io::Result<(sfs::File, sfs::File)> {
        Ok((
            sfs::OpenOptions::new().read(true).open(p)?,
            sfs::OpenOptions::new().write(true).open(p)?,
        ))
    };
    if s.cfg.rw_modes {
        st.inc("access_mode_scripts");
        for i in 0..s.nfiles {
            match real.entered(|| open_modes(&file_path(i))) {
                Ok(p) => {
                    mfiles.push(p);
                    m.open_modes(i);
                }
                Err(e) => return fail("setup", 0, format!("mode handles: {e}")),
            }
        }
    }
    let mut rings: Vec<IoUring> = vec![];
    let mut zombies: Vec<IoUring> = vec![];
    {
        let r: std::io::Result<()> = real.entered(|| {
            for d in &s.depths {
                rings.push(IoUring::new(*d)?);
            }
            Ok(())
        });
        if let Err(e) = r {
            return fail("setup", 0, format!("ring setup failed: {e}"));
        }
    }
    let mut bufs: BTreeMap<u64, Buf> = BTreeMap::new();
    // retired buffers (normal mode): (ud, buffer, expected content)
    let mut retired: Vec<(u64, Vec<u8>, Vec<u8>, &'static str)> = vec![];
    let t0 = real.now;
    let sync_clock = |real: &mut Direct, m: &Model| {
        real.now = t0 + Duration::from_nanos(m.now);
    };
    let retire = |bufs: &mut BTreeMap<u64, Buf>,
                      retired: &mut Vec<(u64, Vec<u8>, Vec<u8>, &'static str)>,
                      ud: u64,
                      why: &'static str,
                      st: &mut RStats| {
        if let Some(b) = bufs.remove(&ud) {
            if san {
                st.inc("buffers_freed_early");
                drop(b);
            } else {
                let expect = b.data.clone();
                retired.push((ud, b.data, expect, why));
            }
        }
    };

    let mut result: Option<Complaint> = None;
    // the script, then: let the maximum latency elapse and drain every ring
    let mut all_acts = s.acts.clone();
    all_acts.push(RAct::Advance {
        ns: s.cfg.lat.max().as_nanos() as u64 + 1_000,
    });
    for ring in 0..s.depths.len() {
        all_acts.push(RAct::Drain { ring, max: None });
    }
    'acts: for (ai, act) in all_acts.iter().enumerate() {
        st.inc(&format!(
            "act:{}",
            match act {
                RAct::Push { .. } => "push",
                RAct::Submit { .. } => "submit",
                RAct::Advance { .. } => "advance",
                RAct::Drain { .. } => "drain",
                RAct::CloseFile { .. } => "close_file",
                RAct::ReopenFile { .. } => "reopen_file",
                RAct::StdWrite { .. } => "std_write",
                RAct::Crash => "crash",
            }
        ));
        match act {
            RAct::Push { ring, ud, kind, flag } => {
                if *ring >= rings.len() {
                    continue;
                }
                let direct = is_direct(*flag) && s.cfg.dio_align.is_some();
                let mode = if s.cfg.rw_modes && !direct { *flag & (RDONLY | WRONLY) } else { 0 };
                let fd_of = |file: usize| {
                    let i = file.min(last_fd.len() - 1);
                    types::Fd(if direct {
                        direct_fd[i]
                    } else if mode & RDONLY != 0 && i < mfiles.len() {
                        mfiles[i].0.as_raw_fd()
                    } else if mode & WRONLY != 0 && i < mfiles.len() {
                        mfiles[i].1.as_raw_fd()
                    } else {
                        last_fd[i]
                    })
                };
                if mode != 0 {
                    st.inc("sqe:access_mode_handle");
                }
                // zero-length op with a NULL buffer (the kernel accepts (NULL, 0))
                let null = *flag & NULLPTR != 0;
                let align = if direct { s.cfg.dio_align } else { None };
                if direct {
                    st.inc("sqe:direct");
                }
                let mut newbuf: Option<Buf> = None;
                let sqe = match kind {
                    SqKind::Read { file, off, n } => {
                        let mut b = Buf::new(vec![SENTINEL; *n as usize], true, align);
                        let p = if null && *n == 0 { std::ptr::null_mut() } else { b.ptr() };
                        let e = opcode::Read::new(fd_of(*file), p, *n)
                            .offset(*off)
                            .build();
                        newbuf = Some(b);
                        e
                    }
                    SqKind::Write { file, off, n, key } => {
                        let mut b = Buf::new(payload(*key, *n), false, align);
                        let p = if null && *n == 0 { std::ptr::null() } else { b.ptr() as *const u8 };
                        let e = opcode::Write::new(fd_of(*file), p, *n)
                            .offset(*off)
                            .build();
                        newbuf = Some(b);
                        e
                    }
                    SqKind::Fsync { file } => opcode::Fsync::new(fd_of(*file)).build(),
                    SqKind::Cancel { target } => opcode::AsyncCancel::new(*target).build(),
                }
                .user_data(*ud)
                .flags(flag_of(sqe_flag(*flag)));
                match kind {
                    SqKind::Read { .. } => st.inc("sqe:read"),
                    SqKind::Write { .. } => st.inc("sqe:write"),
                    SqKind::Fsync { .. } => st.inc("sqe:fsync"),
                    SqKind::Cancel { .. } => st.inc("sqe:cancel"),
                }
                if sqe_flag(*flag) >= 2 {
                    st.inc("sqe:unsupported_flag");
                }
                let exp = m.push(*ring, *ud, kind, *flag);
                let got = real.entered(|| unsafe { rings[*ring].submission().push(&sqe) });
                match (exp, got.is_ok()) {
                    (Ok(()), true) => {
                        if let Some(b) = newbuf {
                            bufs.insert(*ud, b);
                        }
                        let ent = m.rings[*ring].sq.back().unwrap();
                        if ent.fd_gen.is_none() && !matches!(kind, SqKind::Cancel { .. }) {
                            st.inc("sqe:on_closed_fd");
                        }
                    }
                    (Err(()), false) => {
                        st.inc("full_queue_pushes");
                    }
                    (Ok(()), false) => {
                        result = fail(
                            "push-result",
                            ai,
                            format!("push of ud {ud} on ring {ring} failed although the queue holds {} of {}",
                                m.rings[*ring].sq.len() - 1, m.rings[*ring].depth),
                        );
                        break 'acts;
                    }
                    (Err(()), true) => {
                        result = fail(
                            "push-result",
                            ai,
                            format!(
                                "push of ud {ud} on ring {ring} accepted at full depth {}",
                                m.rings[*ring].depth
                            ),
                        );
                        break 'acts;
                    }
                }
                // SubmissionQueue::len must agree
                let l = real.entered(|| rings[*ring].submission().len());
                if l != m.rings[*ring].sq.len() {
                    result = fail(
                        "push-result",
                        ai,
                        format!("SQ length {l}, model {}", m.rings[*ring].sq.len()),
                    );
                    break 'acts;
                }
            }
            RAct::Submit { ring } => {
                if *ring >= rings.len() {
                    continue;
                }
                sync_clock(&mut real, &m);
                let before: Vec<u64> = m.rings[*ring].sq.iter().map(|e| e.ud).collect();
                let n = m.submit(*ring);
                let got = real.entered(|| rings[*ring].submit());
                st.add("submitted", n as u64);
                for ud in &before {
                    if let Some(i) = m.rings[*ring].inflight.get(ud) {
                        if i.fixed == Some(0) {
                            st.inc("cancels_hit");
                        }
                        if i.fixed == Some(ENOENT) {
                            st.inc("cancels_missed");
                        }
                    }
                }
                match got {
                    Ok(k) if k == n => {}
                    other => {
                        result = fail(
                            "submit-result",
                            ai,
                            format!("submit on ring {ring} returned {other:?}, {n} entries were queued"),
                        );
                        break 'acts;
                    }
                }
            }
            RAct::Advance { ns } => {
                m.now += ns;
                sync_clock(&mut real, &m);
            }
            RAct::Drain { ring, max } => {
                if *ring >= rings.len() {
                    continue;
                }
                sync_clock(&mut real, &m);
                let must = m.must_be_visible(*ring);
                // zombies (rings of a crashed host) must stay silent
                let zombie_cqes: Vec<(u64, i32)> = real.entered(|| {
                    let mut v = vec![];
                    for z in zombies.iter_mut() {
                        let mut cq = z.completion();
                        cq.sync();
                        for e in &mut cq {
                            v.push((e.user_data(), e.result()));
                        }
                    }
                    v
                });
                if let Some((ud, res)) = zombie_cqes.first() {
                    result = fail(
                        "cqe-after-crash",
                        ai,
                        format!("ring of the crashed host yielded CQE ud={ud} res={res} after the crash"),
                    );
                    break 'acts;
                }
                // one CompletionQueue handle per drain: sync once, iterate
                // (fully or up to `max`) — the patterns the property names
                st.inc("drains");
                if max.is_some() {
                    st.inc("drains_partial");
                }
                let want = max.map(|m| m as usize).unwrap_or(usize::MAX);
                let cqes: Vec<(u64, i32)> = real.entered(|| {
                    let mut cq = rings[*ring].completion();
                    cq.sync();
                    let mut v = vec![];
                    while v.len() < want {
                        match cq.next() {
                            Some(e) => v.push((e.user_data(), e.result())),
                            None => break,
                        }
                    }
                    v
                });
                // judge them in the order they were yielded (= the order in
                // which their effects were applied)
                for (ud, res) in cqes.iter().copied() {
                    st.inc("cqes");
                    if m.dead.contains(&ud) {
                        result = fail(
                            "cqe-after-crash",
                            ai,
                            format!("ud {ud} was submitted before the crash and completed after it (res {res})"),
                        );
                        break 'acts;
                    }
                    let Some((inf, exp)) = m.complete(*ring, ud) else {
                        result = fail(
                            "cqe-duplicate-or-unknown",
                            ai,
                            format!("ring {ring} yielded CQE ud={ud} res={res}: no such entry is outstanding (duplicate or never submitted)"),
                        );
                        break 'acts;
                    };
                    if m.now < inf.min_ready {
                        result = fail(
                            "cqe-early",
                            ai,
                            format!(
                                "ud {ud} ({:?}) submitted at {} ns, visible at {} ns, earliest allowed {} ns",
                                inf.e.kind, inf.submit_ns, m.now, inf.min_ready
                            ),
                        );
                        break 'acts;
                    }
                    st.inc("latency_window_checks");
                    let mut exp = exp;
                    if let (Some(t), SqKind::Write { file, off, n, key }) = (&twin, &inf.e.kind) {
                        let closed_ebadf = exp.undetermined_closed && res == EBADF;
                        if !inf.cancelled
                            && inf.fixed.is_none()
                            && inf.e.fd_gen.is_some()
                            && !closed_ebadf
                            && !exp.misaligned_direct
                        {
                            let sync_res =
                                sync_api_write(t, &file_path(*file), *off, &payload(*key, *n));
                            st.inc("twin_write_checks");
                            if sync_res == ENOSPC {
                                st.inc("sync_api_enospc");
                            }
                            exp.results = vec![sync_res];
                        }
                    }
                    if let (Some(t), SqKind::Fsync { file }) = (&twin, &inf.e.kind) {
                        let closed_ebadf = exp.undetermined_closed && res == EBADF;
                        if !inf.cancelled && inf.fixed.is_none() && inf.e.fd_gen.is_some() && !closed_ebadf {
                            let p = file_path(*file);
                            let sync_res = match t.entered(|| open_rw(&p).and_then(|f| f.sync_all())) {
                                Ok(()) => 0,
                                Err(_) => -5,
                            };
                            st.inc("twin_fsync_checks");
                            exp.results = vec![sync_res];
                        }
                    }
                    if exp.mode_denied && res == EBADF {
                        st.inc("cqe:access_mode_ebadf");
                    }
                    if res == ENOSPC {
                        st.inc("cqe:enospc");
                    }
                    if !exp.results.contains(&res) {
                        let class = if inf.cancelled {
                            "cancel-result"
                        } else {
                            "cqe-result"
                        };
                        result = fail(
                            class,
                            ai,
                            format!(
                                "ud {ud} ({:?}{}) completed with {res}, expected one of {:?}",
                                inf.e.kind,
                                if inf.cancelled { ", cancelled" } else { "" },
                                exp.results
                            ),
                        );
                        break 'acts;
                    }
                    if inf.cancelled {
                        st.inc("cqe:cancelled");
                    }
                    if exp.undetermined_closed {
                        st.inc("undetermined_close_before_completion");
                    }
                    if exp.misaligned_direct && res == EINVAL {
                        st.inc("cqe:direct_misaligned_einval");
                    }
                    match res {
                        EBADF => st.inc("cqe:ebadf"),
                        EINVAL => st.inc("cqe:einval"),
                        ENOENT => st.inc("cqe:enoent"),
                        _ => {}
                    }
                    let normal = res >= 0 && !inf.cancelled && inf.fixed.is_none();
                    if normal {
                        // buffer / effect
                        match &inf.e.kind {
                            SqKind::Read { n, .. } => {
                                st.inc("cqe:read_ok");
                                let b = bufs.get(&ud).expect("read buffer");
                                let want_data = exp.data.clone().unwrap_or_default();
                                let k = res as usize;
                                if is_direct(inf.e.flag) {
                                    st.inc("cqe:direct_read_ok");
                                }
                                if b.region()[..k] != want_data[..]
                                    || b.region()[k..].iter().any(|x| *x != SENTINEL)
                                    || b.data[..b.skew].iter().any(|x| *x != SENTINEL)
                                    || b.data[b.skew + b.n..].iter().any(|x| *x != SENTINEL)
                                {
                                    result = fail(
                                        "read-data",
                                        ai,
                                        format!(
                                            "ud {ud} read({n}) returned {res}: buffer {:?}, expected {:?} then sentinel",
                                            Obs::File(b.region().to_vec()).short(),
                                            Obs::File(want_data).short()
                                        ),
                                    );
                                    break 'acts;
                                }
                            }
                            SqKind::Write { .. } => st.inc("cqe:write_ok"),
                            SqKind::Fsync { file } => {
                                let _ = file;
                                st.inc("cqe:fsync_ok");
                            }
                            SqKind::Cancel { .. } => {}
                        }
                        m.apply_effect(&inf);
                    }
                    // the entry is complete: its buffer is released
                    if normal || !bufs.contains_key(&ud) {
                        bufs.remove(&ud);
                    } else {
                        // error / cancelled: buffer must never be touched again
                        retire(&mut bufs, &mut retired, ud, "completed-with-error", st);
                    }
                    // a successful cancel was observed: the target's buffer
                    // may be freed right away
                    if let SqKind::Cancel { target } = &inf.e.kind {
                        if res == 0 {
                            retire(&mut bufs, &mut retired, *target, "cancel-cqe-observed", st);
                        }
                    }
                }
                // the harness's own observations are not subject to fault knobs
                if s.cfg.io_err > 0.0 {
                    real.fs.lock().unwrap().io_error_probability = 0.0;
                    if let Some(t) = &twin {
                        t.fs.lock().unwrap().io_error_probability = 0.0;
                    }
                }
                // effects: files as seen through the std shim equal the model
                // (with `max = 1` this is a check after every single CQE)
                for fi in 0..s.nfiles {
                    let got = real.observe(&file_path(fi));
                    let want = m.file_content(fi).map(Obs::File).unwrap_or(Obs::Absent);
                    if got != want {
                        result = fail(
                            "effect-mismatch",
                            ai,
                            format!(
                                "after draining {:?} on ring {ring}: {} is {}, expected {}",
                                cqes,
                                file_path(fi),
                                got.short(),
                                want.short()
                            ),
                        );
                        break 'acts;
                    }
                }
                if let Some(t) = &twin {
                    for fi in 0..s.nfiles {
                        let a = real.observe(&file_path(fi));
                        let b = t.observe(&file_path(fi));
                        if a != b {
                            result = fail(
                                "effect-mismatch",
                                ai,
                                format!(
                                    "{} is {} after the ring operations, {} after the same operations through the sync API",
                                    file_path(fi),
                                    a.short(),
                                    b.short()
                                ),
                            );
                            break 'acts;
                        }
                    }
                }
                st.inc("effect_checks");
                if s.cfg.io_err > 0.0 {
                    real.fs.lock().unwrap().io_error_probability = s.cfg.io_err;
                    if let Some(t) = &twin {
                        t.fs.lock().unwrap().io_error_probability = s.cfg.io_err;
                    }
                }
                // everything whose latest instant has passed had to be visible
                let need = must.min(want);
                if cqes.len() < need {
                    let late: Vec<u64> = m.rings[*ring]
                        .inflight
                        .values()
                        .filter(|i| i.max_ready <= m.now)
                        .map(|i| i.e.ud)
                        .collect();
                    result = fail(
                        "cqe-missing",
                        ai,
                        format!(
                            "drain on ring {ring} at {} ns yielded {} CQEs, at least {need} were due (still outstanding past their deadline: {late:?})",
                            m.now,
                            cqes.len()
                        ),
                    );
                    break 'acts;
                }
            }
            RAct::CloseFile { file } => {
                if *file < files.len() {
                    let f = files[*file].take();
                    real.entered(|| drop(f));
                    m.open_gen[*file] = None;
                }
            }
            RAct::ReopenFile { file } => {
                if *file < files.len() && files[*file].is_none() {
                    match real.entered(|| open_rw(&file_path(*file))) {
                        Ok(f) => {
                            last_fd[*file] = f.as_raw_fd();
                            files[*file] = Some(f);
                            m.open_file(*file);
                        }
                        Err(e) => {
                            result = fail("setup", ai, format!("reopen failed: {e}"));
                            break 'acts;
                        }
                    }
                }
            }
            RAct::StdWrite { file, off, n, key } => {
                let p = file_path(*file);
                let data = payload(*key, *n);
                let r = sync_api_write(&real, &p, *off, &data);
                if let Some(t) = &twin {
                    let r2 = sync_api_write(t, &p, *off, &data);
                    if r != r2 {
                        result = fail(
                            "effect-mismatch",
                            ai,
                            format!("std write returned {r} on the ring-driven fs and {r2} on its sync-API twin"),
                        );
                        break 'acts;
                    }
                }
                if r == ENOSPC && s.cfg.capacity.is_some() {
                    // disk full: no effect
                    st.inc("std_write_enospc");
                    continue;
                }
                if r != *n as i32 {
                    result = fail("setup", ai, format!("std write failed: {r}"));
                    break 'acts;
                }
                m.fs.v.apply(&crate::ops::Op::WriteAt {
                    p,
                    off: *off,
                    n: *n,
                    key: *key,
                    fe: crate::ops::Fe::Std,
                });
                m.fs.absorb();
            }
            RAct::Crash => {
                sync_clock(&mut real, &m);
                st.add(
                    "inflight_at_crash",
                    m.rings.iter().map(|r| r.inflight.len() as u64).sum(),
                );
                real.crash();
                if let Some(t) = twin.as_mut() {
                    t.crash();
                }
                // the crash is observed: every outstanding buffer may be freed
                let outstanding: Vec<u64> = bufs.keys().copied().collect();
                for ud in outstanding {
                    retire(&mut bufs, &mut retired, ud, "crash-observed", st);
                }
                m.crash_rings();
                // durable image (C07 oracle)
                let mut cs = CrashStats::default();
                let mut obs = |p: &str| real.observe(p);
                if let Some(c) = m.fs.crash(&mut obs, &mut cs) {
                    result = fail(
                        "crash-image",
                        ai,
                        format!("after crash: {} ({})", c.what, c.class),
                    );
                    break 'acts;
                }
                st.inc("crash_image_checks");
                // bounce: old handles are gone, old rings are kept as zombies
                for f in files.iter_mut().chain(dfiles.iter_mut()) {
                    let old = f.take();
                    real.entered(|| drop(old));
                }
                {
                    let old = std::mem::take(&mut mfiles);
                    real.entered(|| drop(old));
                }
                zombies.append(&mut rings);
                let r: std::io::Result<()> = real.entered(|| {
                    for d in &s.depths {
                        rings.push(IoUring::new(*d)?);
                    }
                    for i in 0..s.nfiles {
                        let f = open_rw(&file_path(i))?;
                        last_fd[i] = f.as_raw_fd();
                        files[i] = Some(f);
                        if s.cfg.dio_align.is_some() {
                            let d = open_direct(&file_path(i))?;
                            direct_fd[i] = d.as_raw_fd();
                            dfiles[i] = Some(d);
                        }
                    }
                    Ok(())
                });
                if let Err(e) = r {
                    result = fail("setup", ai, format!("bounce failed: {e}"));
                    break 'acts;
                }
                for i in 0..s.nfiles {
                    m.open_file(i);
                    if s.cfg.dio_align.is_some() {
                        m.open_direct(i);
                    }
                    if s.cfg.rw_modes {
                        match real.entered(|| open_modes(&file_path(i))) {
                            Ok(p) => {
                                mfiles.push(p);
                                m.open_modes(i);
                            }
                            Err(e) => {
                                result = fail("setup", ai, format!("mode handles: {e}"));
                                break 'acts;
                            }
                        }
                    }
                }
                m.now += 1_000_000;
                sync_clock(&mut real, &m);
            }
        }
    }

    // epilogue (the two final Drain acts appended above let every latency
    // elapse and drain everything): each submitted entry must have completed
    // exactly once by now
    if result.is_none() {
        let epi = s.acts.len();
        for ring in 0..m.rings.len() {
            if let Some(i) = m.rings[ring].inflight.values().next() {
                result = fail(
                    "cqe-missing",
                    epi,
                    format!(
                        "ud {} ({:?}) submitted on ring {ring} at {} ns never completed (final drain at {} ns)",
                        i.e.ud, i.e.kind, i.submit_ns, m.now
                    ),
                );
                break;
            }
        }
        // zombies one last time
        if result.is_none() {
            let z: Vec<(u64, i32)> = real.entered(|| {
                let mut v = vec![];
                for z in zombies.iter_mut() {
                    let mut cq = z.completion();
                    cq.sync();
                    for e in &mut cq {
                        v.push((e.user_data(), e.result()));
                    }
                }
                v
            });
            if let Some((ud, res)) = z.first() {
                result = fail(
                    "cqe-after-crash",
                    epi,
                    format!("ring of the crashed host yielded CQE ud={ud} res={res}"),
                );
            }
        }
        // final contents (write effects of the bulk drain are order
        // dependent only when writes overlap; compare when no two
        // outstanding writes were drained together)
        if result.is_none() {
            real.fs.lock().unwrap().io_error_probability = 0.0;
            for fi in 0..s.nfiles {
                let got = real.observe(&file_path(fi));
                if let Obs::Confused(c) = got {
                    result = fail("effect-mismatch", epi, format!("{}: {c}", file_path(fi)));
                }
            }
        }
        // sentinel check of retired buffers (normal build only)
        if result.is_none() && !san {
            for (ud, data, expect, why) in &retired {
                st.inc("retired_buffers_checked");
                if data != expect {
                    result = fail(
                        "buffer-touched",
                        epi,
                        format!("buffer of ud {ud} was modified after it was released ({why})"),
                    );
                    break;
                }
            }
        }
    }
    // orderly teardown inside an entered scope
    real.entered(|| {
        drop(rings);
        drop(zombies);
        drop(files);
        drop(dfiles);
        drop(mfiles);
    });
    let _ = bufs.values().map(|b| b.is_read).count();
    drop(bufs);
    result
}

// ---------------------------------------------------------------------------

fn fails(class: &str, san: bool) -> impl FnMut(&[RAct], &Script) -> bool + '_ {
    move |acts: &[RAct], base: &Script| {
        let mut s = base.clone();
        s.acts = acts.to_vec();
        let mut st = RStats::default();
        matches!(run_direct(&s, &mut st, san), Some(c) if c.class == class)
    }
}

pub fn minimise(s: &Script, class: &str) -> Script {
    let mut f = fails(class, false);
    let base = s.clone();
    let acts = vcore::ddmin::ddmin(s.acts.clone(), |a| f(a, &base), 400);
    let mut out = s.clone();
    out.acts = acts;
    out
}

fn signature(class: &str, s: &Script) -> String {
    format!("{class}|{}", s.canonical())
}

fn scenario_direct(ctx: &Ctx, idx: u64) -> ScenarioOut {
    let mut rng = Rng::new(ctx.scenario_seed("direct", idx));
    let s = gen_script(&mut rng, ctx.pick(40, 70), true);
    let mut out = ScenarioOut::default();
    let mut st = RStats::default();
    out.count("scripts_direct", 1);
    let c = run_direct(&s, &mut st, false);
    if let Some(c) = &c {
        let min = minimise(&s, &c.class);
        let mut s2 = RStats::default();
        let what = run_direct(&min, &mut s2, false)
            .map(|c| c.what)
            .unwrap_or(c.what.clone());
        out.violate(
            &c.class,
            signature(&c.class, &min),
            what,
            json!({"kind":"direct","script":min.to_json(),"original_acts":s.acts.len()}),
        );
    }
    for (k, v) in &st.c {
        out.count(k, *v);
    }
    out.count(&format!("depth:{}", s.depths[0]), 1);
    out.count(
        match s.cfg.lat {
            crate::real::Lat::None => "latency:none",
            crate::real::Lat::Fixed(_) => "latency:fixed",
            crate::real::Lat::Range(..) => "latency:ranged",
        },
        1,
    );
    out.count(if s.cfg.page_cache { "page_cache:on" } else { "page_cache:off" }, 1);
    out.count(&format!("rings:{}", s.depths.len()), 1);
    // non-trivial: >= 3 CQEs observed and at least one drain that had to wait
    // or a cancel / full queue / crash event
    out.nontrivial = st.get("cqes") >= 3
        && (st.get("cancels_hit") + st.get("full_queue_pushes") + st.get("act:crash") + st.get("drains_partial") > 0);
    out.digest = vcore::digest_str(&s.canonical());
    let mut sample = s.clone();
    sample.acts.truncate(16);
    out.sample = Some(json!({"kind":"direct","script":sample.to_json(),"acts":s.acts.len(),
        "cqes":st.get("cqes"),"verdict": if c.is_some() {"complaint"} else {"conforms"}}));
    out
}

fn scenario_directed(_ctx: &Ctx, idx: u64) -> ScenarioOut {
    let all = directed();
    let (name, s) = &all[idx as usize];
    let mut out = ScenarioOut::default();
    let mut st = RStats::default();
    out.count("directed", 1);
    let c = if name.starts_with("child:") {
        run_in_child(s)
    } else {
        run_direct(s, &mut st, false)
    };
    if let Some(c) = &c {
        out.violate(
            &c.class,
            signature(&c.class, s),
            c.what.clone(),
            json!({"kind":"direct","directed":name,"script":s.to_json()}),
        );
    }
    for (k, v) in &st.c {
        out.count(k, *v);
    }
    out.nontrivial = true;
    out.digest = vcore::digest_str(&format!("directed:{name}"));
    out.sample = Some(json!({"kind":"directed","name":name,"script":s.to_json(),
        "verdict": if c.is_some() {"complaint"} else {"conforms"}}));
    out
}

/// Run a script in a child process (`fsmodel c18-child <file>`): used for
/// inputs on which the code under test may abort the whole process (an abort
/// is not a panic and cannot be caught in-process). A child that dies without
/// reporting is a complaint of class `ring-abort`: the entries it had
/// submitted never completed.
fn run_in_child(s: &Script) -> Option<Complaint> {
    let path = std::env::temp_dir().join(format!(
        "fsmodel-c18-child-{}-{:x}.json",
        std::process::id(),
        vcore::digest_str(&s.canonical())
    ));
    if std::fs::write(&path, s.to_json().to_string()).is_err() {
        panic!("cannot write child script");
    }
    let exe = std::env::current_exe().expect("current_exe");
    let out = std::process::Command::new(exe).arg("c18-child").arg(&path).output();
    let _ = std::fs::remove_file(&path);
    let out = out.expect("spawn child");
    let stdout = String::from_utf8_lossy(&out.stdout).to_string();
    if let Some(l) = stdout.lines().find(|l| l.starts_with("CHILD-COMPLAINT ")) {
        let rest = &l["CHILD-COMPLAINT ".len()..];
        let (class, what) = rest.split_once(' ').unwrap_or((rest, ""));
        return Some(Complaint {
            class: class.to_string(),
            at: 0,
            what: what.to_string(),
        });
    }
    if stdout.lines().any(|l| l == "CHILD-OK") && out.status.success() {
        return None;
    }
    let stderr = String::from_utf8_lossy(&out.stderr);
    Some(Complaint {
        class: "ring-abort".into(),
        at: 0,
        what: format!(
            "the process running the script died ({:?}) before its submitted entries completed: {}",
            out.status,
            stderr.lines().find(|l| !l.trim().is_empty()).unwrap_or("").chars().take(200).collect::<String>()
        ),
    })
}

pub fn child_main(args: &[String]) -> ! {
    let txt = std::fs::read_to_string(args.first().map(|s| s.as_str()).unwrap_or("")).unwrap_or_default();
    let s = Script::from_json(&serde_json::from_str(&txt).unwrap_or(Value::Null));
    let mut st = RStats::default();
    match run_direct(&s, &mut st, false) {
        Some(c) => println!("CHILD-COMPLAINT {} {}", c.class, c.what),
        None => println!("CHILD-OK"),
    }
    std::process::exit(0)
}

/// Fixed scripts run on every invocation.
pub fn directed() -> Vec<(&'static str, Script)> {
    use crate::real::{Cfg, Lat};
    let cfg = |lat| Cfg {
        lat,
        ..Cfg::default()
    };
    let rd = |ring, ud, file, off, n| RAct::Push {
        ring,
        ud,
        kind: SqKind::Read { file, off, n },
        flag: 0,
    };
    let wr = |ring, ud, file, off, n, key| RAct::Push {
        ring,
        ud,
        kind: SqKind::Write { file, off, n, key },
        flag: 0,
    };
    let cancel = |ring, ud, target| RAct::Push {
        ring,
        ud,
        kind: SqKind::Cancel { target },
        flag: 0,
    };
    vec![
        (
            "cancel-inflight-write",
            Script {
                cfg: cfg(Lat::Fixed(1000)),
                depths: vec![4],
                nfiles: 1,
                acts: vec![
                    wr(0, 1, 0, 0, 4, 3),
                    RAct::Submit { ring: 0 },
                    cancel(0, 2, 1),
                    RAct::Submit { ring: 0 },
                    RAct::Drain { ring: 0, max: None },
                    RAct::Advance { ns: 2_000_000 },
                    RAct::Drain { ring: 0, max: None },
                ],
            },
        ),
        (
            "latency-window",
            Script {
                cfg: cfg(Lat::Fixed(1000)),
                depths: vec![2],
                nfiles: 1,
                acts: vec![
                    rd(0, 1, 0, 0, 8),
                    RAct::Submit { ring: 0 },
                    RAct::Advance { ns: 999_999 },
                    RAct::Drain { ring: 0, max: None },
                    RAct::Advance { ns: 1 },
                    RAct::Drain { ring: 0, max: None },
                ],
            },
        ),
        (
            "full-queue-then-partial-drains",
            Script {
                cfg: cfg(Lat::None),
                depths: vec![2],
                nfiles: 1,
                acts: vec![
                    wr(0, 1, 0, 0, 2, 1),
                    rd(0, 2, 0, 0, 4),
                    rd(0, 3, 0, 0, 4),
                    RAct::Submit { ring: 0 },
                    RAct::Drain { ring: 0, max: Some(1) },
                    RAct::Drain { ring: 0, max: Some(1) },
                    RAct::Drain { ring: 0, max: None },
                ],
            },
        ),
        (
            "crash-between-submit-and-completion",
            Script {
                cfg: cfg(Lat::Fixed(1000)),
                depths: vec![4],
                nfiles: 1,
                acts: vec![
                    wr(0, 1, 0, 0, 4, 3),
                    rd(0, 2, 0, 0, 8),
                    RAct::Submit { ring: 0 },
                    RAct::Crash,
                    RAct::Advance { ns: 5_000_000 },
                    RAct::Drain { ring: 0, max: None },
                    rd(0, 3, 0, 0, 8),
                    RAct::Submit { ring: 0 },
                    RAct::Advance { ns: 1_000_000 },
                    RAct::Drain { ring: 0, max: None },
                ],
            },
        ),
        // ---- defect-hunting round (NOTES (g)) ----
        // hunted C18-3: a ring fsync must behave like sync_all under io_error_probability
        (
            "fsync-under-io-error-probability",
            Script {
                cfg: Cfg {
                    io_err: 1.0,
                    ..Cfg::default()
                },
                depths: vec![2],
                nfiles: 1,
                acts: vec![
                    RAct::Push {
                        ring: 0,
                        ud: 1,
                        kind: SqKind::Fsync { file: 0 },
                        flag: 0,
                    },
                    RAct::Submit { ring: 0 },
                    RAct::Drain { ring: 0, max: None },
                ],
            },
        ),
        // hunted C18-2 / C10-9: the descriptor's access mode
        (
            "write-through-read-only-descriptor",
            Script {
                cfg: Cfg {
                    rw_modes: true,
                    ..Cfg::default()
                },
                depths: vec![4],
                nfiles: 1,
                acts: vec![
                    RAct::Push {
                        ring: 0,
                        ud: 1,
                        kind: SqKind::Write { file: 0, off: 0, n: 2, key: 25 },
                        flag: RDONLY,
                    },
                    RAct::Push {
                        ring: 0,
                        ud: 2,
                        kind: SqKind::Read { file: 0, off: 0, n: 4 },
                        flag: WRONLY,
                    },
                    RAct::Submit { ring: 0 },
                    RAct::Drain { ring: 0, max: None },
                ],
            },
        ),
        // hunted C18-4: (NULL, 0) buffers; run in a child process
        (
            "child:zero-length-null-buffer",
            Script {
                cfg: cfg(Lat::None),
                depths: vec![4],
                nfiles: 1,
                acts: vec![
                    RAct::Push {
                        ring: 0,
                        ud: 1,
                        kind: SqKind::Write { file: 0, off: 0, n: 0, key: 0 },
                        flag: NULLPTR,
                    },
                    RAct::Push {
                        ring: 0,
                        ud: 2,
                        kind: SqKind::Read { file: 0, off: 0, n: 0 },
                        flag: NULLPTR,
                    },
                    RAct::Submit { ring: 0 },
                    RAct::Drain { ring: 0, max: None },
                ],
            },
        ),
    ]
}

fn replay(w: Value) -> ScenarioOut {
    let mut out = ScenarioOut::default();
    if w["kind"].as_str() == Some("sim") {
        let spec = crate::c18sim::SimSpec::from_json(&w["spec"]);
        let mut st = RStats::default();
        if let Some(c) = crate::c18sim::run_sim(&spec, &mut st) {
            out.violate(&c.class, format!("{}|sim", c.class), c.what, w.clone());
        }
    } else {
        let s = Script::from_json(&w["script"]);
        let mut st = RStats::default();
        if let Some(c) = run_direct(&s, &mut st, false) {
            out.violate(&c.class, signature(&c.class, &s), c.what, w.clone());
        }
    }
    out.nontrivial = true;
    out.digest = 1;
    out
}

pub fn run(ctx: &Ctx) -> ! {
    let fin = Finish {
        level: "exploration",
        rule: "random ring scripts (push read/write/fsync/cancel with unique user_data, submit, advance \
               the ring clock, drain fully / partially / late, close + reopen files, std-shim writes in \
               between, crash + bounce) over 1-3 rings of depth 1/2/4/8 and 1-3 files, latency none / \
               fixed / ranged, page cache on/off, executed on directly entered Fs + IoUringHostState and \
               (fewer) inside a Sim with AsyncFd::readable loops and Sim::crash/bounce. A ring model \
               checks every CQE as it is yielded: outstanding exactly once, not before submit+min latency, \
               due ones present, result and buffer equal to the sync API on the POSIX reference tree, file \
               contents re-read through the std shim after every CQE, cancel/EINVAL/EBADF/PushError \
               semantics, silence of pre-crash rings and the durable image after a crash. Non-trivial: \
               >=3 CQEs and at least one cancel hit, full-queue push, partial drain or crash; distinct = \
               distinct canonical script."
            .into(),
        assumptions: vec![
            "closing a file between push and completion: both -EBADF (documented simulation behaviour) and normal completion (Linux) are accepted and counted as undetermined_close_before_completion".into(),
            "buffered reads with the page cache enabled may complete after 100 ns (cache-hit latency) instead of min_latency".into(),
            "user_data values are unique per script; linked SQEs, fixed files and buffer rings are only submitted to observe -EINVAL".into(),
            "only memory errors on operation buffers count towards C18 in the sanitizer phase; aliasing-model diagnostics elsewhere are reported separately".into(),
        ],
        min_distinct: ctx.pick(8_000, 100_000),
        required_counters: vec![
            "cqes",
            "cqe:read_ok",
            "cqe:write_ok",
            "cqe:fsync_ok",
            "cqe:cancelled",
            "cancels_hit",
            "cancels_missed",
            "full_queue_pushes",
            "drains_partial",
            "latency_window_checks",
            "effect_checks",
            "cqe:einval",
            "cqe:ebadf",
            "act:crash",
            "inflight_at_crash",
            "crash_image_checks",
            "retired_buffers_checked",
            "access_mode_scripts",
            "cqe:access_mode_ebadf",
            "direct_io_scripts",
            "cqe:direct_read_ok",
            "cqe:direct_misaligned_einval",
            "capacity_scripts",
            "twin_write_checks",
            "cqe:enospc",
            "sim_scripts",
            "sim_asyncfd_waits",
            "sim_crashes",
            "latency:none",
            "latency:fixed",
            "latency:ranged",
            "page_cache:on",
            "depth:1",
            "depth:8",
        ],
    };
    if ctx.replay.is_some() {
        let Some(w) = vcore::read_replay(ctx) else {
            println!("INCONCLUSIVE property=C18 cannot read replay file");
            std::process::exit(2);
        };
        let rep = vcore::run_single(ctx, move |_| replay(w.clone()));
        vcore::finish(ctx, rep, fin);
    }
    let c2 = ctx.clone();
    let mut rep = vcore::run_parallel(ctx, directed().len() as u64, RunOpts::default(), move |i| {
        scenario_directed(&c2, i)
    });
    let c2 = ctx.clone();
    rep.merge(vcore::run_parallel(
        ctx,
        crate::c18sim::directed().len() as u64,
        RunOpts::default(),
        move |i| crate::c18sim::scenario_directed(&c2, i),
    ));
    let budget = ctx.pick(45.0, 400.0);
    let n_sim = ctx.pick(400u64, 3000);
    let c2 = ctx.clone();
    rep.merge(vcore::run_parallel(
        ctx,
        n_sim,
        RunOpts {
            budget_s: budget * 0.3,
            scenario_timeout_s: 120.0,
        },
        move |i| crate::c18sim::scenario(&c2, i),
    ));
    let n_direct = ctx.pick(120_000u64, 1_500_000);
    let c2 = ctx.clone();
    rep.merge(vcore::run_parallel(
        ctx,
        n_direct,
        RunOpts {
            budget_s: budget * 0.7,
            scenario_timeout_s: 120.0,
        },
        move |i| scenario_direct(&c2, i),
    ));
    if ctx.tier == vcore::Tier::Thorough {
        crate::san::fold(ctx, &mut rep, "C18");
    }
    vcore::finish(ctx, rep, fin);
}
