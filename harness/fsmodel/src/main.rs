fn main(){}
