//! Engine C ("fsmodel"): reference models + drivers for turmoil-fs and
//! turmoil-io-uring. Serves C07, C10, C18.
mod c07;
mod c10;
mod c18;
mod c18sim;
mod diff;
mod durable;
mod directed;
mod gen;
mod model;
mod ops;
mod real;
mod repro;
mod ring;
mod san;
mod simdrv;
mod zones;

fn main() {
    let args: Vec<String> = std::env::args().collect();
    let ctx = vcore::Ctx::from_args(&args[1..]);
    vcore::install_quiet_panic_hook();
    match ctx.prop.as_str() {
        "C07" => c07::run(&ctx),
        "C10" => c10::run(&ctx),
        "C18" => c18::run(&ctx),
        "repro" => repro::main(),
        "c18-child" => c18::child_main(&ctx.rest),
        "san" => san::main(&ctx),
        "san-child" => san::child(&ctx.rest),
        other => {
            println!("INCONCLUSIVE property={other} not served by fsmodel");
            std::process::exit(2);
        }
    }
}
