//! Model-guided history generator for C10 / C07.
//!
//! The generator keeps its own copy of the reference tree so that most
//! operations hit existing objects (with a fixed share of deliberately wrong
//! paths / kinds to exercise the error classes).

use crate::model::{Node, Tree};
use crate::ops::{universe, Fe, Flags, Op, Step};
use crate::zones;
use vcore::Rng;

pub type Rejected = std::collections::BTreeMap<&'static str, u64>;

pub fn count_rejected(out: &mut vcore::ScenarioOut, r: &Rejected) {
    for (k, v) in r {
        out.count(&format!("zone_rejected:{k}"), *v);
    }
}

#[derive(Clone, Debug)]
pub struct GenCfg {
    pub len: usize,
    /// front-end weights (std, tokio, uring)
    pub fe_w: [u32; 3],
    /// generate Crash ops
    pub crashes: bool,
    /// extra weight on sync operations
    pub sync_heavy: bool,
    /// insert a sync after (almost) every op ("syncs at every position")
    pub sync_everywhere: bool,
    /// maximum write size
    pub max_write: u32,
    /// do not generate histories inside known-defect zones
    pub avoid_zones: bool,
}

fn pick_fe(rng: &mut Rng, w: &[u32; 3]) -> Fe {
    let tot = (w[0] + w[1] + w[2]).max(1);
    let x = rng.below(tot as u64) as u32;
    if x < w[0] {
        Fe::Std
    } else if x < w[0] + w[1] {
        Fe::Tokio
    } else {
        Fe::Uring
    }
}

struct View {
    files: Vec<String>,
    dirs: Vec<String>,
    missing: Vec<String>,
}

fn view(t: &Tree, focus: &[String]) -> View {
    let mut v = View {
        files: vec![],
        dirs: vec![],
        missing: vec![],
    };
    for p in universe() {
        match t.lookup(&p) {
            Ok(i) => match t.nodes[&i] {
                Node::File(_) => v.files.push(p),
                Node::Dir(_) => v.dirs.push(p),
            },
            Err(_) => {
                if focus.contains(&p) {
                    v.missing.push(p)
                }
            }
        }
    }
    v
}

fn size(rng: &mut Rng, max: u32) -> u32 {
    let c = [0u32, 1, 1, 2, 3, 4, 5, 7, 8, 9, 12, 16, 24, 40];
    loop {
        let n = *rng.pick(&c);
        if n <= max {
            return n;
        }
    }
}

fn off(rng: &mut Rng) -> u64 {
    *rng.pick(&[0u64, 0, 0, 1, 2, 3, 4, 5, 6, 8, 9, 12, 20])
}

/// Choose a path: mostly of the wanted sort, sometimes anything.
fn choose(rng: &mut Rng, pref: &[String], all: &[String]) -> String {
    if !pref.is_empty() && rng.chance(0.85) {
        rng.pick(pref).clone()
    } else {
        rng.pick(all).clone()
    }
}

fn gen_steps(rng: &mut Rng, fl: &Flags, max_write: u32) -> Vec<Step> {
    let n = rng.range(1, 5) as usize;
    let mut out = vec![];
    for _ in 0..n {
        let s = match rng.below(12) {
            0 | 1 => Step::Seek {
                whence: rng.below(3) as u8,
                off: {
                    let w = rng.below(3);
                    let o = rng.below(7) as i64;
                    if w == 0 {
                        o
                    } else {
                        o - 3
                    }
                },
            },
            2 | 3 => Step::Read {
                n: size(rng, 40).max(1),
            },
            4 | 5 | 6 => Step::Write {
                n: size(rng, max_write).max(if fl.append { 1 } else { 0 }),
                key: rng.below(26) as u8,
            },
            7 => Step::ReadAt {
                off: off(rng),
                n: size(rng, 40),
            },
            8 if !fl.append => Step::WriteAt {
                off: off(rng),
                n: size(rng, max_write),
                key: rng.below(26) as u8,
            },
            9 => Step::SetLen {
                len: *rng.pick(&[0u64, 1, 2, 3, 5, 8, 13]),
            },
            10 => {
                if rng.coin() {
                    Step::SyncAll
                } else {
                    Step::SyncData
                }
            }
            _ => Step::Len,
        };
        // Seek{whence:0} with negative offset cannot be expressed through SeekFrom::Start
        if let Step::Seek { whence: 0, off } = s {
            if off < 0 {
                continue;
            }
        }
        out.push(s);
    }
    if out.is_empty() {
        out.push(Step::Len);
    }
    out
}

fn gen_flags(rng: &mut Rng) -> Flags {
    // every combination of create / create_new / truncate / append, with an
    // access mode std accepts for it
    loop {
        let fl = Flags {
            read: rng.coin(),
            write: rng.chance(0.8),
            append: rng.chance(0.25),
            truncate: rng.chance(0.3),
            create: rng.chance(0.5),
            create_new: rng.chance(0.2),
        };
        let writable = fl.write || fl.append;
        if !fl.read && !writable {
            continue;
        }
        // std::fs::OpenOptions rejects these before reaching the file system
        if !writable && (fl.truncate || fl.create || fl.create_new) {
            continue;
        }
        if fl.append && fl.truncate && !fl.create_new {
            continue;
        }
        if fl.truncate && !fl.write {
            continue;
        }
        return fl;
    }
}

/// One random operation given the current model state.
fn gen_op(rng: &mut Rng, cfg: &GenCfg, t: &Tree, focus: &[String]) -> Op {
    let all = universe();
    let v = view(t, focus);
    let mut dirs_root = v.dirs.clone();
    dirs_root.push("/".to_string());
    let fe = pick_fe(rng, &cfg.fe_w);
    let key = rng.below(26) as u8;
    // weights
    let sync_w = if cfg.sync_heavy { 9 } else { 3 };
    // an almost empty tree: favour creation so that short histories are not
    // spent on error paths only
    let boost = if v.files.len() < 2 { 4 } else { 1 };
    let dboost = if v.dirs.is_empty() { 3 } else { 1 };
    let table: Vec<(u32, u8)> = vec![
        (8 * boost, 0), // WriteAll / create
        (9, 1),       // WriteAt
        (4, 2),       // Append
        (3, 3),       // ReadAt
        (2, 4),       // ReadAll
        (6, 5),       // Handle
        (4, 6),       // SetLen
        (5, 7),       // Open with flags
        (sync_w, 8),  // SyncAll
        (sync_w / 2, 9), // SyncData
        (sync_w, 10), // SyncDir
        (7, 11),      // Rename
        (5, 12),      // RemoveFile
        (5 * dboost, 13), // CreateDir
        (2, 14),      // CreateDirAll
        (3, 15),      // RemoveDir
        (1, 16),      // RemoveDirAll
        (2, 17),      // ReadDir
        (2, 18),      // Metadata
        (1, 19),      // Advance
        (if cfg.crashes { 2 } else { 0 }, 20),
    ];
    let tot: u32 = table.iter().map(|x| x.0).sum();
    let mut x = rng.below(tot as u64) as u32;
    let mut kind = 0;
    for (w, k) in &table {
        if x < *w {
            kind = *k;
            break;
        }
        x -= w;
    }
    // creatable: missing paths whose parent is an existing directory
    let creatable: Vec<String> = v
        .missing
        .iter()
        .filter(|p| {
            t.lookup(&crate::ops::parent_of(p))
                .map(|i| t.is_dir(i))
                .unwrap_or(false)
        })
        .cloned()
        .collect();
    let mut file_or_new = v.files.clone();
    file_or_new.extend(creatable.iter().cloned());
    match kind {
        0 => Op::WriteAll {
            p: choose(rng, &file_or_new, &all),
            n: size(rng, cfg.max_write),
            key,
            fe,
        },
        1 => Op::WriteAt {
            p: choose(rng, &v.files, &all),
            off: off(rng),
            n: size(rng, cfg.max_write),
            key,
            fe,
        },
        2 => Op::Append {
            p: choose(rng, &v.files, &all),
            n: size(rng, cfg.max_write).max(1),
            key,
            fe: if fe == Fe::Uring { Fe::Std } else { fe },
        },
        3 => Op::ReadAt {
            p: choose(rng, &v.files, &all),
            off: off(rng),
            n: size(rng, 40),
            fe,
        },
        4 => Op::ReadAll {
            p: choose(rng, &v.files, &all),
            fe,
        },
        5 => {
            let fl = gen_flags(rng);
            let steps = gen_steps(rng, &fl, cfg.max_write);
            Op::Handle {
                p: choose(rng, &file_or_new, &all),
                fl,
                steps,
                fe: if fe == Fe::Uring { Fe::Std } else { fe },
            }
        }
        6 => Op::SetLen {
            p: choose(rng, &v.files, &all),
            len: *rng.pick(&[0u64, 1, 2, 3, 4, 5, 8, 13, 21]),
            fe,
        },
        7 => Op::Open {
            p: choose(rng, &file_or_new, &all),
            fl: gen_flags(rng),
            fe,
        },
        8 => Op::SyncAll {
            p: choose(rng, &v.files, &all),
            fe,
        },
        9 => Op::SyncData {
            p: choose(rng, &v.files, &all),
            fe,
        },
        10 => Op::SyncDir {
            p: choose(rng, &dirs_root, &all),
            fe,
        },
        11 => {
            let mut src = v.files.clone();
            src.extend(v.dirs.iter().cloned());
            let a = choose(rng, &src, &all);
            let mut dst = creatable.clone();
            dst.extend(v.files.iter().cloned());
            if rng.chance(0.3) {
                dst.extend(v.dirs.iter().cloned());
            }
            let b = choose(rng, &dst, &all);
            Op::Rename { a, b, fe }
        }
        12 => Op::RemoveFile {
            p: choose(rng, &v.files, &all),
            fe,
        },
        13 => Op::CreateDir {
            p: choose(rng, &creatable, &all),
            fe,
        },
        14 => Op::CreateDirAll {
            p: choose(rng, &v.missing, &all),
            fe,
        },
        15 => Op::RemoveDir {
            p: choose(rng, &v.dirs, &all),
            fe,
        },
        16 => Op::RemoveDirAll {
            p: choose(rng, &v.dirs, &all),
            fe,
        },
        17 => Op::ReadDir {
            p: choose(rng, &dirs_root, &all),
            fe,
        },
        18 => Op::Metadata {
            p: rng.pick(&all).clone(),
            fe,
        },
        19 => Op::Advance {
            us: *rng.pick(&[1u64, 50, 1000, 5000, 1_000_000]),
        },
        _ => Op::Crash,
    }
}

/// Turn some file syncs into `open(read-only); sync; close` (std / tokio
/// handle or an io_uring fsync on the read-only descriptor): the descriptor
/// that asks for durability need not be the one that wrote.
fn maybe_ro_sync(rng: &mut Rng, op: &mut Op) {
    let (p, fe, step) = match op {
        Op::SyncAll { p, fe } => (p.clone(), *fe, Step::SyncAll),
        Op::SyncData { p, fe } => (p.clone(), *fe, Step::SyncData),
        _ => return,
    };
    if rng.chance(0.3) {
        *op = Op::Handle {
            p,
            fl: Flags::parse("r"),
            steps: vec![step],
            fe,
        };
    }
}

fn fix_fe(op: &mut Op) {
    // io_uring only carries read / write / fsync
    if op.fe() == Some(Fe::Uring) && !op.uring_capable() {
        op.set_fe(Fe::Std);
    }
}

/// A sync op chosen for "syncs at every position".
fn gen_sync(rng: &mut Rng, cfg: &GenCfg, t: &Tree) -> Option<Op> {
    let v = view(t, &[]);
    let fe = pick_fe(rng, &cfg.fe_w);
    let mut dirs = v.dirs.clone();
    dirs.push("/".into());
    let mut op = match rng.below(3) {
        0 if !v.files.is_empty() => Op::SyncAll {
            p: rng.pick(&v.files).clone(),
            fe,
        },
        1 if !v.files.is_empty() => Op::SyncData {
            p: rng.pick(&v.files).clone(),
            fe,
        },
        _ => Op::SyncDir {
            p: rng.pick(&dirs).clone(),
            fe,
        },
    };
    maybe_ro_sync(rng, &mut op);
    fix_fe(&mut op);
    Some(op)
}

/// Generate a history. Returns the ops and the number of candidates rejected
/// because they fell into a known-defect zone.
pub fn gen_history(rng: &mut Rng, cfg: &GenCfg) -> (Vec<Op>, Rejected) {
    // focus: a per-history subset of the universe so that paths collide
    let mut all = universe();
    rng.shuffle(&mut all);
    let mut focus: Vec<String> = vec!["/a".into(), "/b".into(), "/d".into()];
    for p in all.iter().take(7) {
        if !focus.contains(p) {
            focus.push(p.clone());
        }
    }
    // make focus parent-closed
    let mut i = 0;
    while i < focus.len() {
        let par = crate::ops::parent_of(&focus[i]);
        if par != "/" && !focus.contains(&par) {
            focus.push(par);
        }
        i += 1;
    }
    let mut dm = crate::durable::Durable::new(false, None);
    let mut zt = zones::Tracker::new();
    let mut out: Vec<Op> = vec![];
    let mut rejected = Rejected::new();
    let mut guard = 0;
    while out.len() < cfg.len && guard < cfg.len * 40 {
        guard += 1;
        let mut op = gen_op(rng, cfg, &dm.v, &focus);
        maybe_ro_sync(rng, &mut op);
        fix_fe(&mut op);
        if cfg.avoid_zones {
            if let Some(z) = zt.check(&dm.v, &op) {
                *rejected.entry(z).or_default() += 1;
                continue;
            }
        }
        zt.apply(&dm.v, &op);
        if op == Op::Crash {
            // the generator follows a crash with the pessimistic durable
            // image (no background sync, no torn writes, `Maybe` entries gone)
            dm.crash_assume();
        } else {
            dm.v.apply(&op);
            dm.absorb();
        }
        out.push(op);
        if cfg.sync_everywhere && out.len() < cfg.len && rng.chance(0.7) {
            if let Some(s) = gen_sync(rng, cfg, &dm.v) {
                if !(cfg.avoid_zones && zt.check(&dm.v, &s).is_some()) {
                    zt.apply(&dm.v, &s);
                    dm.v.apply(&s);
                    dm.absorb();
                    out.push(s);
                }
            }
        }
    }
    (out, rejected)
}
