//! C10 — without a crash the simulated fs behaves like a plain POSIX tree.
//!
//! Differential test against `model::Tree` after every operation: return value
//! (data, counts, error class) and a full observation sweep over the path
//! universe. Sub-spaces: single directly-driven host (front-ends mixed, syncs
//! at every position), two directly-driven hosts interleaved (isolation), two
//! hosts inside a running `Sim`.

use crate::diff::{self, minimise, signature, Complaint, Stats};
use crate::gen::{gen_history, GenCfg};
use crate::model::{matches, Obs, Ret, Tree};
use crate::ops::{hist_json, hist_parse, universe, Op};
use crate::real::{Cfg, Lat};
use crate::simdrv;
use serde_json::{json, Value};
use std::sync::{Arc, Mutex};
use std::time::Duration;
use vcore::{Ctx, Finish, Rng, RunOpts, ScenarioOut};

fn fails_single<'a>(cfg: &'a Cfg, class: &str) -> impl FnMut(&[Op]) -> bool + 'a {
    let class = class.to_string();
    move |h: &[Op]| {
        // stay inside the explored space: a candidate that wanders into a
        // known-defect zone would fail for the known reason
        if crate::zones::in_zone(h).is_some() {
            return false;
        }
        let mut st = Stats::default();
        matches!(diff::run_single(cfg, h, &mut st), Some(c) if c.class == class)
    }
}

fn violate_single(out: &mut ScenarioOut, cfg: &Cfg, h: &[Op], c: &Complaint, kind: &str) {
    let mut f = fails_single(cfg, &c.class);
    // cut after the complaining op, then minimise
    let cut: Vec<Op> = h[..=c.at.min(h.len() - 1)].to_vec();
    let start = if f(&cut) { cut } else { h.to_vec() };
    let min = minimise(start, &mut f, 600);
    let mut st = Stats::default();
    let what = diff::run_single(cfg, &min, &mut st)
        .map(|c| c.what)
        .unwrap_or_else(|| c.what.clone());
    out.violate(
        &c.class,
        signature(&c.class, &min),
        what,
        json!({"kind":"single","found_by":kind,"cfg":cfg.to_json(),"history":hist_json(&min),
               "original_len": h.len()}),
    );
}

fn gen_cfg(ctx: &Ctx, rng: &mut Rng) -> GenCfg {
    let fe_w = match rng.below(4) {
        0 => [1, 0, 0],
        1 => [2, 2, 1],
        2 => [1, 1, 2],
        _ => [3, 1, 1],
    };
    GenCfg {
        len: rng.range(6, ctx.pick(24, 30)) as usize,
        fe_w,
        crashes: false,
        sync_heavy: rng.coin(),
        sync_everywhere: rng.chance(0.4),
        max_write: 16,
        avoid_zones: true,
    }
}

fn rand_cfg(rng: &mut Rng) -> Cfg {
    Cfg {
        sync_prob: 0.0,
        block: None,
        lat: *rng.pick(&[Lat::None, Lat::None, Lat::Fixed(300), Lat::Range(50, 900)]),
        page_cache: rng.chance(0.3),
        fs_seed: rng.next_u64(),
        capacity: None,
        dio_align: None,
        rw_modes: false,
        io_err: 0.0,
    }
}

fn finish_out(out: &mut ScenarioOut, st: &Stats, desc: Value, digest_src: &str) {
    for (k, v) in &st.c {
        out.count(k, *v);
    }
    out.nontrivial = st.mutations_ok >= 3 && st.max_objects >= 2;
    out.digest = vcore::digest_str(digest_src);
    out.sample = Some(desc);
}

fn scenario_single(ctx: &Ctx, idx: u64) -> ScenarioOut {
    let mut rng = Rng::new(ctx.scenario_seed("single", idx));
    let gc = gen_cfg(ctx, &mut rng);
    let cfg = rand_cfg(&mut rng);
    let (h, rejected) = gen_history(&mut rng, &gc);
    let mut out = ScenarioOut::default();
    let mut st = Stats::default();
    crate::gen::count_rejected(&mut out, &rejected);
    out.count("histories_single", 1);
    let c = diff::run_single(&cfg, &h, &mut st);
    if let Some(c) = &c {
        violate_single(&mut out, &cfg, &h, c, "single");
    }
    let canon = crate::ops::canonical(&h);
    finish_out(
        &mut out,
        &st,
        json!({"kind":"single","cfg":cfg.to_json(),"history":hist_json(&h[..h.len().min(12)]),
               "len":h.len(),"verdict": if c.is_some() {"complaint"} else {"conforms"}}),
        &canon,
    );
    out
}

fn scenario_pair(ctx: &Ctx, idx: u64) -> ScenarioOut {
    let mut rng = Rng::new(ctx.scenario_seed("pair", idx));
    let mut gc = gen_cfg(ctx, &mut rng);
    gc.len = rng.range(5, 14) as usize;
    let cfg = rand_cfg(&mut rng);
    let (h0, r0) = gen_history(&mut rng, &gc);
    let (h1, r1) = gen_history(&mut rng, &gc);
    let order: Vec<bool> = (0..h0.len() + h1.len() + 4).map(|_| rng.coin()).collect();
    let mut out = ScenarioOut::default();
    let mut st = Stats::default();
    crate::gen::count_rejected(&mut out, &r0);
    crate::gen::count_rejected(&mut out, &r1);
    out.count("histories_pair", 1);
    let c = diff::run_pair(&cfg, &h0, &h1, &order, &mut st);
    if let Some(c) = &c {
        // most complaints reproduce on one host alone: minimise there
        let mut reproduced = false;
        for h in [&h0, &h1] {
            let mut s2 = Stats::default();
            if let Some(c1) = diff::run_single(&cfg, h, &mut s2) {
                violate_single(&mut out, &cfg, h, &c1, "pair");
                reproduced = true;
                break;
            }
        }
        if !reproduced {
            let sig = format!(
                "{}|pair|{}|{}",
                c.class,
                crate::ops::canonical(&h0),
                crate::ops::canonical(&h1)
            );
            out.violate(
                &c.class,
                sig,
                c.what.clone(),
                json!({"kind":"pair","cfg":cfg.to_json(),"h0":hist_json(&h0),"h1":hist_json(&h1),
                       "order":order}),
            );
        }
    }
    let canon = format!(
        "{}||{}",
        crate::ops::canonical(&h0),
        crate::ops::canonical(&h1)
    );
    finish_out(
        &mut out,
        &st,
        json!({"kind":"pair","h0":hist_json(&h0[..h0.len().min(6)]),"h1":hist_json(&h1[..h1.len().min(6)]),
               "verdict": if c.is_some() {"complaint"} else {"conforms"}}),
        &canon,
    );
    out
}

type Rec = Arc<Mutex<Vec<(Ret, Vec<Obs>)>>>;

/// Two hosts inside one `Sim`, each running its history one op per tick.
pub fn run_sim_pair(cfg: &Cfg, seed: u64, h0: &[Op], h1: &[Op], st: &mut Stats) -> Option<Complaint> {
    let uni = Arc::new(universe());
    let mut sim = simdrv::builder_for(cfg, seed, Duration::from_millis(1)).build();
    let recs: [Rec; 2] = [Arc::new(Mutex::new(vec![])), Arc::new(Mutex::new(vec![]))];
    for (w, h) in [h0, h1].iter().enumerate() {
        let h: Vec<Op> = h.to_vec();
        let rec = recs[w].clone();
        let uni = uni.clone();
        sim.client(format!("h{w}"), async move {
            let mut ud = 1u64;
            for op in &h {
                let r = simdrv::exec_in_sim(op, ud).await;
                ud += 1;
                let sw = simdrv::sweep_entered(&uni);
                rec.lock().unwrap().push((r, sw));
                // let the other host run
                tokio::time::sleep(Duration::from_millis(1)).await;
            }
            Ok(())
        });
    }
    if let Err(e) = sim.run() {
        return Some(Complaint {
            class: "sim-error".into(),
            at: 0,
            what: format!("Sim::run failed: {e}"),
        });
    }
    st.add("sim_steps", 0);
    for (w, h) in [h0, h1].iter().enumerate() {
        let rec = recs[w].lock().unwrap();
        let mut model = Tree::new();
        let mut removed = Default::default();
        for (i, op) in h.iter().enumerate() {
            if i >= rec.len() {
                return Some(Complaint {
                    class: "sim-incomplete".into(),
                    at: i,
                    what: format!("host {w} recorded {} of {} ops", rec.len(), h.len()),
                });
            }
            diff::note_semantics(st, &model, op, &mut removed);
            st.inc("sim_ops");
            let before = model.nodes.clone();
            let exp = model.apply(op);
            model.events.clear();
            if model.nodes != before {
                st.mutations_ok += 1;
            }
            st.max_objects = st.max_objects.max(model.nodes.len() - 1);
            let (ret, sw) = &rec[i];
            if !matches(&exp, ret) {
                return Some(Complaint {
                    class: format!("ret:{}", op.kind()),
                    at: i,
                    what: format!(
                        "in-sim host {w} op #{i} {}: expected {exp:?}, got {ret:?}",
                        op.to_json()
                    ),
                });
            }
            st.inc("sweeps");
            let ms = diff::model_sweep(&model, &uni);
            if let Some((class, what)) = diff::sweep_diff(&uni, &ms, sw) {
                let class = if op.is_sync() {
                    format!("sync-not-neutral:{}", op.kind())
                } else if matches!(op, Op::Advance { .. }) {
                    "time-not-neutral".into()
                } else {
                    class
                };
                return Some(Complaint {
                    class,
                    at: i,
                    what: format!("in-sim host {w} after op #{i} {}: {what}", op.to_json()),
                });
            }
        }
    }
    None
}

fn scenario_sim(ctx: &Ctx, idx: u64) -> ScenarioOut {
    let mut rng = Rng::new(ctx.scenario_seed("sim", idx));
    let mut gc = gen_cfg(ctx, &mut rng);
    gc.len = rng.range(5, 12) as usize;
    gc.fe_w = [1, 1, 1];
    let cfg = rand_cfg(&mut rng);
    let seed = rng.next_u64();
    let (h0, r0) = gen_history(&mut rng, &gc);
    let (h1, r1) = gen_history(&mut rng, &gc);
    let mut out = ScenarioOut::default();
    let mut st = Stats::default();
    crate::gen::count_rejected(&mut out, &r0);
    crate::gen::count_rejected(&mut out, &r1);
    out.count("histories_sim", 1);
    let c = run_sim_pair(&cfg, seed, &h0, &h1, &mut st);
    if let Some(c) = &c {
        let mut reproduced = false;
        for h in [&h0, &h1] {
            let mut s2 = Stats::default();
            if let Some(c1) = diff::run_single(&cfg, h, &mut s2) {
                violate_single(&mut out, &cfg, h, &c1, "sim");
                reproduced = true;
                break;
            }
        }
        if !reproduced {
            let sig = format!(
                "{}|sim|{}|{}",
                c.class,
                crate::ops::canonical(&h0),
                crate::ops::canonical(&h1)
            );
            out.violate(
                &c.class,
                sig,
                c.what.clone(),
                json!({"kind":"sim","cfg":cfg.to_json(),"seed":seed,"h0":hist_json(&h0),"h1":hist_json(&h1)}),
            );
        }
    }
    let canon = format!(
        "sim||{}||{}",
        crate::ops::canonical(&h0),
        crate::ops::canonical(&h1)
    );
    finish_out(
        &mut out,
        &st,
        json!({"kind":"sim","h0":hist_json(&h0[..h0.len().min(6)]),"h1":hist_json(&h1[..h1.len().min(6)]),
               "verdict": if c.is_some() {"complaint"} else {"conforms"}}),
        &canon,
    );
    out
}

/// Directed histories run on every invocation (known findings and the
/// scenarios named in DESIGN.md §7).
pub fn directed() -> Vec<(&'static str, Vec<Op>)> {
    crate::directed::c10()
}

fn scenario_directed(_ctx: &Ctx, idx: u64) -> ScenarioOut {
    let all = directed();
    let (name, h) = &all[idx as usize];
    let cfg = Cfg::default();
    let mut out = ScenarioOut::default();
    let mut st = Stats::default();
    out.count("directed", 1);
    let c = diff::run_single(&cfg, h, &mut st);
    if let Some(c) = &c {
        // directed scenarios are already minimal: signature from the history as written
        out.violate(
            &c.class,
            signature(&c.class, h),
            c.what.clone(),
            json!({"kind":"single","directed":name,"cfg":cfg.to_json(),"history":hist_json(h)}),
        );
    }
    finish_out(
        &mut out,
        &st,
        json!({"kind":"directed","name":name,"history":hist_json(h),
               "verdict": if c.is_some() {"complaint"} else {"conforms"}}),
        &format!("directed:{name}"),
    );
    out
}

fn replay(ctx: &Ctx, w: Value) -> ScenarioOut {
    let mut out = ScenarioOut::default();
    let mut st = Stats::default();
    let cfg = Cfg::from_json(&w["cfg"]);
    let c = match w["kind"].as_str().unwrap_or("single") {
        "pair" => {
            let order: Vec<bool> = w["order"]
                .as_array()
                .map(|a| a.iter().map(|b| b.as_bool().unwrap_or(false)).collect())
                .unwrap_or_default();
            diff::run_pair(&cfg, &hist_parse(&w["h0"]), &hist_parse(&w["h1"]), &order, &mut st)
                .map(|c| (c, format!("pair|{}", w["h0"])))
        }
        "sim" => run_sim_pair(
            &cfg,
            w["seed"].as_u64().unwrap_or(0),
            &hist_parse(&w["h0"]),
            &hist_parse(&w["h1"]),
            &mut st,
        )
        .map(|c| (c, "sim".to_string())),
        _ => {
            let h = hist_parse(&w["history"]);
            diff::run_single(&cfg, &h, &mut st).map(|c| {
                let s = signature(&c.class, &h);
                (c, s)
            })
        }
    };
    if let Some((c, sig)) = c {
        out.violate(&c.class, sig, c.what, w.clone());
    }
    let _ = ctx;
    out.nontrivial = true;
    out.digest = 1;
    out
}

pub fn run(ctx: &Ctx) -> ! {
    let fin = Finish {
        level: "exploration",
        rule: "random model-guided op histories (6-30 ops over the 39 paths of depth <=3 on {a,b,d}; \
               open flag combinations, positional and cursor I/O, set_len, rename, remove/re-create, \
               dir ops, syncs at every position, std/tokio/io_uring front-ends mixed) executed against \
               the real Fs and an inode-based POSIX reference tree; after EVERY op the return value and \
               a full sweep (exists, kind, length, content, read_dir set) over all 39 paths must agree. \
               Handles live for one Op (cursor sequences run on one handle with no namespace op in \
               between): handle-follows-inode semantics across rename/unlink are not explored. \
               A history is non-trivial when >=3 ops changed the tree and >=2 objects coexisted; \
               distinct = distinct canonical history text."
            .into(),
        assumptions: vec![
            "errno classes: ENOTDIR on an intermediate path component is accepted as NotFound (a plain tree lookup cannot tell them apart)".into(),
            "open flag combinations that std::fs::OpenOptions itself rejects (no access mode, truncate/create without write) are not generated".into(),
            "write_at on O_APPEND handles and zero-length appends are not generated (Linux and POSIX disagree)".into(),
            "timestamps, permission bits, symlinks and hard links are never generated or compared; all fault probabilities are 0".into(),
            "histories inside known-defect zones (zones.rs) are not generated; each zone is covered by a directed scenario whose complaint is a known finding".into(),
        ],
        min_distinct: ctx.pick(8_000, 100_000),
        required_counters: vec![
            "sweeps",
            "sync_neutrality_checks",
            "time_neutrality_checks",
            "isolation_checks",
            "fe:std",
            "fe:tokio",
            "fe:uring",
            "sim_ops",
            "sem:write_hole",
            "sem:write_overlap",
            "sem:set_len_shrink",
            "sem:set_len_extend",
            "sem:rename_onto_new",
            "sem:cursor_seek",
            "op:remove_dir_all",
            "op:create_dir_all",
            "op:read_dir",
        ],
    };
    if ctx.replay.is_some() {
        let Some(w) = vcore::read_replay(ctx) else {
            println!("INCONCLUSIVE property=C10 cannot read replay file");
            std::process::exit(2);
        };
        let c2 = ctx.clone();
        let rep = vcore::run_single(ctx, move |_| replay(&c2, w.clone()));
        vcore::finish(ctx, rep, fin);
    }
    let n_dir = directed().len() as u64;
    let c2 = ctx.clone();
    let mut rep = vcore::run_parallel(ctx, n_dir, RunOpts::default(), move |i| {
        scenario_directed(&c2, i)
    });
    let n_single = ctx.pick(90_000u64, 2_000_000);
    let n_pair = ctx.pick(8_000u64, 150_000);
    let n_sim = ctx.pick(300u64, 2_000);
    let budget = ctx.pick(45.0, 560.0);
    let c2 = ctx.clone();
    rep.merge(vcore::run_parallel(
        ctx,
        n_sim,
        RunOpts {
            budget_s: budget * 0.2,
            scenario_timeout_s: 120.0,
        },
        move |i| scenario_sim(&c2, i),
    ));
    let c2 = ctx.clone();
    rep.merge(vcore::run_parallel(
        ctx,
        n_pair,
        RunOpts {
            budget_s: budget * 0.15,
            scenario_timeout_s: 120.0,
        },
        move |i| scenario_pair(&c2, i),
    ));
    let c2 = ctx.clone();
    rep.merge(vcore::run_parallel(
        ctx,
        n_single,
        RunOpts {
            budget_s: budget * 0.65,
            scenario_timeout_s: 120.0,
        },
        move |i| scenario_single(&c2, i),
    ));
    vcore::finish(ctx, rep, fin);
}
