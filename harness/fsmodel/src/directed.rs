//! Directed histories that run on every invocation: the scenarios named in
//! DESIGN.md §7 and one canonical reproduction per known finding.

use crate::ops::{Fe, Op};

fn w(p: &str, n: u32, key: u8) -> Op {
    Op::WriteAll { p: p.into(), n, key, fe: Fe::Std }
}
fn wat(p: &str, off: u64, n: u32, key: u8) -> Op {
    Op::WriteAt { p: p.into(), off, n, key, fe: Fe::Std }
}
fn rm(p: &str) -> Op {
    Op::RemoveFile { p: p.into(), fe: Fe::Std }
}
fn mv(a: &str, b: &str) -> Op {
    Op::Rename { a: a.into(), b: b.into(), fe: Fe::Std }
}
fn mkdir(p: &str) -> Op {
    Op::CreateDir { p: p.into(), fe: Fe::Std }
}
fn sync_all(p: &str) -> Op {
    Op::SyncAll { p: p.into(), fe: Fe::Std }
}
fn sync_dir(p: &str) -> Op {
    Op::SyncDir { p: p.into(), fe: Fe::Std }
}

pub fn c10() -> Vec<(&'static str, Vec<Op>)> {
    vec![
        (
            "F10a-remove-recreate",
            vec![w("/a", 4, 0), rm("/a"), w("/a", 1, 1)],
        ),
        (
            "F10b-rename-unsynced-dir",
            vec![mkdir("/d"), w("/d/a", 2, 0), mv("/d", "/b")],
        ),
        (
            "write-after-rename",
            vec![w("/a", 4, 0), mv("/a", "/b"), wat("/b", 0, 2, 25)],
        ),
        (
            "rename-onto-existing",
            vec![w("/a", 4, 0), w("/b", 6, 3), mv("/a", "/b")],
        ),
        (
            "synced-then-rename-dir",
            vec![
                mkdir("/d"),
                w("/d/a", 2, 0),
                sync_all("/d/a"),
                sync_dir("/d"),
                sync_dir("/"),
                mv("/d", "/b"),
            ],
        ),
    ]
}

pub fn c07() -> Vec<(&'static str, Vec<Op>)> {
    vec![(
        "F11-rename-write-sync-crash",
        vec![
            w("/a", 4, 0),
            sync_all("/a"),
            sync_dir("/"),
            mv("/a", "/b"),
            wat("/b", 0, 2, 25),
            sync_all("/b"),
            Op::Crash,
        ],
    )]
}
