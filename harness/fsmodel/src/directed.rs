//! Directed histories that run on every invocation: the scenarios named in
//! DESIGN.md §7 and one canonical reproduction per known finding.

use crate::ops::{Fe, Op};

fn w(p: &str, n: u32, key: u8) -> Op {
    Op::WriteAll { p: p.into(), n, key, fe: Fe::Std }
}
fn wat(p: &str, off: u64, n: u32, key: u8) -> Op {
    Op::WriteAt { p: p.into(), off, n, key, fe: Fe::Std }
}
fn rm(p: &str) -> Op {
    Op::RemoveFile { p: p.into(), fe: Fe::Std }
}
fn mv(a: &str, b: &str) -> Op {
    Op::Rename { a: a.into(), b: b.into(), fe: Fe::Std }
}
fn mkdir(p: &str) -> Op {
    Op::CreateDir { p: p.into(), fe: Fe::Std }
}
fn sync_all(p: &str) -> Op {
    Op::SyncAll { p: p.into(), fe: Fe::Std }
}
fn rmdir(p: &str) -> Op {
    Op::RemoveDir { p: p.into(), fe: Fe::Std }
}
fn sync_dir(p: &str) -> Op {
    Op::SyncDir { p: p.into(), fe: Fe::Std }
}

pub fn c10() -> Vec<(&'static str, Vec<Op>)> {
    use crate::ops::{Flags, Step};
    vec![
        // zone `recreate` (DESIGN §7 F10, first half)
        (
            "recreate-after-remove",
            vec![
                w("/a", 4, 0),
                rm("/a"),
                Op::Handle {
                    p: "/a".into(),
                    fl: Flags::parse("wc"),
                    steps: vec![Step::Write { n: 1, key: 1 }],
                    fe: Fe::Std,
                },
            ],
        ),
        // zone `rename-dir` (DESIGN §7 F10, second half)
        (
            "rename-unsynced-dir",
            vec![mkdir("/d"), w("/d/a", 2, 0), mv("/d", "/b")],
        ),
        (
            "rename-synced-dir",
            vec![
                mkdir("/d"),
                w("/d/a", 2, 0),
                sync_all("/d/a"),
                sync_dir("/d"),
                sync_dir("/"),
                mv("/d", "/b"),
            ],
        ),
        // zone `rename-pending-data`
        (
            "rename-file-with-unsynced-data",
            vec![w("/a", 4, 0), sync_dir("/"), mv("/a", "/b"), sync_dir("/")],
        ),
        // zone `write-after-rename`
        (
            "write-after-unsynced-rename",
            vec![
                w("/a", 4, 0),
                sync_all("/a"),
                sync_dir("/"),
                mv("/a", "/b"),
                wat("/b", 0, 2, 25),
            ],
        ),
        // fixed by b2ab43d (was a known finding, zone `rename-unsynced-create-cross-dir`)
        (
            "rename-new-file-into-other-dir",
            vec![
                mkdir("/d"),
                Op::Open {
                    p: "/a".into(),
                    fl: Flags::parse("wc"),
                    fe: Fe::Std,
                },
                mv("/a", "/d/a"),
                sync_dir("/d"),
            ],
        ),
        // zone `rename-onto-unflushed-rename`
        (
            "rename-onto-unflushed-rename-target",
            vec![
                w("/a", 1, 0),
                sync_all("/a"),
                mv("/a", "/b"),
                mkdir("/d"),
                w("/d/a", 1, 5),
                sync_all("/d/a"),
                sync_dir("/d"),
                mv("/d/a", "/b"),
                sync_dir("/d"),
            ],
        ),
        // fixed by b2ab43d (was a known finding)
        (
            "rename-back-across-dirs",
            vec![
                mkdir("/d"),
                w("/d/a", 1, 3),
                sync_all("/d/a"),
                w("/a", 1, 0),
                sync_all("/a"),
                sync_dir("/"),
                mv("/a", "/d/a"),
                sync_dir("/"),
                mv("/d/a", "/a"),
                sync_dir("/"),
            ],
        ),
        // ---- defect-hunting round (NOTES (g)) ----
        // hunted C10-1, zone `recreate` (rename onto a name vacated by a pending rename)
        (
            "swap-via-vacated-name",
            vec![w("/a", 4, 0), w("/b", 2, 1), mv("/a", "/d"), mv("/b", "/a")],
        ),
        // hunted C10-5, zone `recreate` (file under a former directory name)
        (
            "file-under-former-dir-name-renamed",
            vec![
                mkdir("/d"),
                sync_dir("/"),
                rmdir("/d"),
                w("/d", 1, 0),
                mv("/d", "/b"),
                Op::ReadDir { p: "/b".into(), fe: Fe::Std },
            ],
        ),
        // hunted C10-6, zone `recreate` (synced data of the removed file shows through)
        (
            "recreate-after-remove-of-synced-file",
            vec![
                w("/a", 4, 0),
                sync_all("/a"),
                sync_dir("/"),
                rm("/a"),
                Op::Open { p: "/a".into(), fl: Flags::parse("rwx"), fe: Fe::Std },
            ],
        ),
        // hunted C10-7 / C07-4a, zone `rename-pending-data` (destination has unsynced writes)
        (
            "rename-onto-file-with-unsynced-data",
            vec![
                w("/a", 2, 0),
                sync_all("/a"),
                w("/b", 8, 1),
                mv("/a", "/b"),
                sync_dir("/"),
            ],
        ),
        // hunted C10-8, zone `recreate` (log rotation)
        (
            "log-rotation",
            vec![
                w("/a", 4, 0),
                sync_all("/a"),
                sync_dir("/"),
                mv("/a", "/b"),
                w("/a", 1, 1),
            ],
        ),
        // hunted C10-3: an open handle does not follow its file across rename
        (
            "handle-across-rename",
            vec![Op::Handle {
                p: "/a".into(),
                fl: Flags::parse("rwc"),
                steps: vec![
                    Step::Write { n: 4, key: 0 },
                    Step::SyncAll,
                    Step::Rename { a: "/a".into(), b: "/b".into() },
                    Step::SyncAll,
                    Step::WriteAt { off: 0, n: 2, key: 25 },
                    Step::ReadAt { off: 0, n: 8 },
                ],
                fe: Fe::Std,
            }],
        ),
        // these conform (kept as fixed regression scenarios for the fix commits)
        // hunted C10-2 (fixed): sync_dir of a re-created directory
        (
            "sync-recreated-dir",
            vec![mkdir("/d"), rmdir("/d"), mkdir("/d"), sync_dir("/d")],
        ),
        // hunted C10-4 (fixed): POSIX error kinds of create_dir / remove_dir / rename
        (
            "error-kinds",
            vec![
                mkdir("/d"),
                mkdir("/d"),
                mkdir("/a/b"),
                rmdir("/b"),
                mv("/b", "/a"),
                w("/d/a", 1, 0),
                rmdir("/d"),
            ],
        ),
        (
            "rename-onto-existing-synced",
            vec![
                w("/a", 4, 0),
                w("/b", 6, 3),
                sync_all("/a"),
                sync_all("/b"),
                sync_dir("/"),
                mv("/a", "/b"),
                sync_dir("/"),
            ],
        ),
        (
            "truncate-then-extend",
            vec![Op::Handle {
                p: "/a".into(),
                fl: Flags::parse("rwc"),
                steps: vec![
                    Step::Write { n: 4, key: 0 },
                    Step::SetLen { len: 0 },
                    Step::WriteAt { off: 2, n: 1, key: 1 },
                    Step::ReadAt { off: 0, n: 8 },
                ],
                fe: Fe::Std,
            }],
        ),
        ("rename-onto-itself", vec![w("/a", 1, 0), mv("/a", "/a")]),
        ("rename-dir-into-itself", vec![mkdir("/d"), mv("/d", "/d/a")]),
        (
            "open-create-on-directory",
            vec![
                mkdir("/d"),
                Op::Open {
                    p: "/d".into(),
                    fl: Flags::parse("wc"),
                    fe: Fe::Std,
                },
            ],
        ),
        (
            "remove-dir-with-renamed-in-child",
            vec![
                mkdir("/d"),
                w("/a", 1, 0),
                sync_all("/a"),
                sync_dir("/"),
                mv("/a", "/d/a"),
                Op::RemoveDir {
                    p: "/d".into(),
                    fe: Fe::Std,
                },
            ],
        ),
    ]
}

pub fn c07() -> Vec<(&'static str, crate::real::Cfg, Vec<Op>)> {
    use crate::real::Cfg;
    vec![
        // DESIGN §7 F11 (zone `write-after-rename`): data synced through the
        // new name of an unsynced rename is lost
        (
            "F11-rename-write-sync-crash",
            Cfg::default(),
            vec![
                w("/a", 4, 0),
                sync_all("/a"),
                sync_dir("/"),
                mv("/a", "/b"),
                wat("/b", 0, 2, 25),
                sync_all("/b"),
                Op::Crash,
            ],
        ),
        // zone `recreate` (directory): the removal of a directory is flushed
        // without the removal of its former entries, which come back inside a
        // new directory of the same name
        (
            "resurrected-children",
            Cfg::default(),
            vec![
                mkdir("/d"),
                w("/d/a", 1, 0),
                sync_dir("/d"),
                Op::RemoveDirAll { p: "/d".into(), fe: Fe::Std },
                sync_dir("/"),
                mkdir("/d"),
                sync_dir("/"),
                Op::Crash,
            ],
        ),
        // ---- defect-hunting round (NOTES (g)) ----
        // hunted C07-1, zone `recreate`
        (
            "recreate-sync-crash",
            Cfg::default(),
            vec![
                w("/a", 9, 0),
                sync_all("/a"),
                sync_dir("/"),
                rm("/a"),
                w("/a", 3, 13),
                sync_all("/a"),
                sync_dir("/"),
                Op::Crash,
            ],
        ),
        // hunted C07-2, zone `recreate` (rename onto a name unlinked in another directory)
        (
            "rename-onto-unlinked-name-cross-dir",
            Cfg::default(),
            vec![
                mkdir("/a"),
                mkdir("/d"),
                sync_dir("/"),
                w("/a/a", 4, 0),
                sync_all("/a/a"),
                sync_dir("/a"),
                w("/d/b", 2, 6),
                sync_all("/d/b"),
                sync_dir("/d"),
                rm("/a/a"),
                mv("/d/b", "/a/a"),
                sync_dir("/d"),
                sync_dir("/a"),
                Op::Crash,
            ],
        ),
        // hunted C07-3, zone `rename-pending-data`
        (
            "write-rename-syncdir-syncfile-crash",
            Cfg::default(),
            vec![
                w("/a", 4, 0),
                mv("/a", "/b"),
                sync_dir("/"),
                sync_all("/b"),
                Op::Crash,
            ],
        ),
        // hunted C07-4b, zone `recreate` (stale pending writes of a removed file)
        (
            "stale-writes-reach-new-file",
            Cfg::default(),
            vec![
                w("/a", 4, 0),
                sync_all("/a"),
                sync_dir("/"),
                wat("/a", 0, 2, 1),
                rm("/a"),
                sync_dir("/"),
                Op::Open { p: "/a".into(), fl: crate::ops::Flags::parse("wx"), fe: Fe::Std },
                sync_dir("/"),
                sync_all("/a"),
                Op::Crash,
            ],
        ),
        // hunted C07-5, zone `rename-dir`
        (
            "rename-durable-dir-crash",
            Cfg::default(),
            vec![
                mkdir("/d"),
                sync_dir("/"),
                w("/d/a", 4, 0),
                sync_all("/d/a"),
                sync_dir("/d"),
                mv("/d", "/b"),
                sync_dir("/"),
                Op::Crash,
            ],
        ),
        // conforming regression scenarios
        (
            // seeded change C07-1: never-durable source entry, data synced,
            // renamed across directories, only the destination synced
            "publish-undurable-source-dst-synced",
            Cfg::default(),
            vec![
                mkdir("/a"),
                mkdir("/b"),
                sync_dir("/"),
                w("/a/a", 4, 0),
                sync_all("/a/a"),
                mv("/a/a", "/b/a"),
                sync_dir("/b"),
                Op::Crash,
            ],
        ),
        (
            // fixed by b2ab43d: the stale creation of the old name was
            // flushed later and resurrected an empty /a/a
            "publish-undurable-source-dst-then-src-synced",
            Cfg::default(),
            vec![
                mkdir("/a"),
                mkdir("/b"),
                sync_dir("/"),
                w("/a/a", 4, 0),
                sync_all("/a/a"),
                mv("/a/a", "/b/a"),
                sync_dir("/b"),
                sync_dir("/a"),
                Op::Crash,
            ],
        ),
        (
            "cross-dir-rename-both-dirs-synced",
            Cfg::default(),
            vec![
                w("/a", 4, 0),
                sync_all("/a"),
                sync_dir("/"),
                mkdir("/d"),
                mv("/a", "/d/a"),
                sync_dir("/"),
                sync_dir("/d"),
                Op::Crash,
            ],
        ),
        (
            "atomic-replace-pattern",
            Cfg::default(),
            vec![
                w("/a", 4, 0),
                sync_all("/a"),
                sync_dir("/"),
                w("/b", 6, 3),
                sync_all("/b"),
                sync_dir("/"),
                mv("/b", "/a"),
                sync_dir("/"),
                Op::Crash,
            ],
        ),
        (
            "unsynced-everything-rolled-back",
            Cfg::default(),
            vec![
                w("/a", 4, 0),
                sync_all("/a"),
                sync_dir("/"),
                wat("/a", 2, 4, 9),
                mkdir("/d"),
                w("/d/a", 2, 1),
                rm("/a"),
                Op::Crash,
            ],
        ),
    ]
}
