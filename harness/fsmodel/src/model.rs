//! Reference model: a plain in-memory POSIX file tree (inodes, directories as
//! name -> inode maps, files as byte vectors). Written from POSIX / `std::fs`
//! semantics, not from the implementation.
//!
//! `Tree::apply` executes one `Op` and says what a POSIX tree would return
//! (`Expect`). Data-level effects are also reported as `Ev` events so that the
//! durable-image model of C07 (`durable.rs`) can track per-inode sync state.

use crate::ops::{comps, payload, Flags, Op, Step};
use std::collections::{BTreeMap, BTreeSet};

pub type Ino = u32;
pub const ROOT: Ino = 0;

#[derive(Clone, Debug, PartialEq, Eq, PartialOrd, Ord)]
pub enum Errc {
    NotFound,
    Exists,
    IsDir,
    NotDir,
    NotEmpty,
    Invalid,
    BadAccess,
    Other(String),
}

#[derive(Clone, Debug, PartialEq)]
pub enum Val {
    Unit,
    Count(u64),
    Bytes(Vec<u8>),
    Names(BTreeSet<String>),
    Meta { dir: bool, len: u64 },
    Steps(Vec<Ret>),
}

/// What the real implementation returned.
#[derive(Clone, Debug, PartialEq)]
pub enum Ret {
    Ok(Val),
    Err(Errc),
}

/// What the reference model accepts.
#[derive(Clone, Debug, PartialEq)]
pub enum Expect {
    Ok(Val),
    /// any of these error classes
    Err(Vec<Errc>),
    /// success (with value) or one of the error classes; no state change either way
    OkOrErr(Val, Vec<Errc>),
    /// handle opened; per-step expectations
    Steps(Vec<Expect>),
    /// not determined by POSIX / the property text; no state change
    Any,
}

pub fn matches(e: &Expect, r: &Ret) -> bool {
    match (e, r) {
        (Expect::Any, _) => true,
        (Expect::Ok(v), Ret::Ok(w)) => v == w,
        (Expect::Err(set), Ret::Err(c)) => set.contains(c),
        (Expect::OkOrErr(v, _), Ret::Ok(w)) => v == w,
        (Expect::OkOrErr(_, set), Ret::Err(c)) => set.contains(c),
        (Expect::Steps(es), Ret::Ok(Val::Steps(rs))) => {
            es.len() == rs.len() && es.iter().zip(rs).all(|(e, r)| matches(e, r))
        }
        _ => false,
    }
}

#[derive(Clone, Debug, PartialEq)]
pub enum Node {
    File(Vec<u8>),
    Dir(BTreeMap<String, Ino>),
}

/// Data-level effects (for the durable-image model).
#[derive(Clone, Debug, PartialEq)]
pub enum Ev {
    CreatedFile(Ino),
    CreatedDir(Ino),
    /// write through a handle (a point at which background sync may happen)
    Write { ino: Ino, off: u64, data: Vec<u8> },
    /// set_len through a handle (background sync point)
    SetLen { ino: Ino, len: u64 },
    /// truncation by open(O_TRUNC) (no background sync point)
    OpenTrunc { ino: Ino },
    /// data sync of a file; carries the content at that moment
    SyncFile(Ino, Vec<u8>),
    /// an object moved to another directory
    MovedAcross { ino: Ino, from_dir: Ino, from_name: String, to_dir: Ino, to_name: String },
    SyncDir(Ino),
}

#[derive(Clone, Debug, PartialEq)]
pub struct Tree {
    pub nodes: BTreeMap<Ino, Node>,
    pub next: Ino,
    pub events: Vec<Ev>,
}

type Errs = Vec<Errc>;

fn e1(c: Errc) -> Errs {
    vec![c]
}

impl Default for Tree {
    fn default() -> Self {
        Self::new()
    }
}

struct Handle {
    ino: Ino,
    read: bool,
    write: bool,
    append: bool,
    cur: u64,
}

impl Tree {
    pub fn new() -> Tree {
        let mut nodes = BTreeMap::new();
        nodes.insert(ROOT, Node::Dir(BTreeMap::new()));
        Tree {
            nodes,
            next: 1,
            events: vec![],
        }
    }

    pub fn is_dir(&self, i: Ino) -> bool {
        matches!(self.nodes.get(&i), Some(Node::Dir(_)))
    }

    pub fn dir(&self, i: Ino) -> &BTreeMap<String, Ino> {
        match self.nodes.get(&i) {
            Some(Node::Dir(m)) => m,
            _ => panic!("model: inode {i} is not a directory"),
        }
    }

    fn dir_mut(&mut self, i: Ino) -> &mut BTreeMap<String, Ino> {
        match self.nodes.get_mut(&i) {
            Some(Node::Dir(m)) => m,
            _ => panic!("model: inode {i} is not a directory"),
        }
    }

    pub fn file(&self, i: Ino) -> &Vec<u8> {
        match self.nodes.get(&i) {
            Some(Node::File(c)) => c,
            _ => panic!("model: inode {i} is not a file"),
        }
    }

    fn file_mut(&mut self, i: Ino) -> &mut Vec<u8> {
        match self.nodes.get_mut(&i) {
            Some(Node::File(c)) => c,
            _ => panic!("model: inode {i} is not a file"),
        }
    }

    /// Resolve a path to an inode.
    pub fn lookup(&self, path: &str) -> Result<Ino, Errs> {
        let mut cur = ROOT;
        for c in comps(path) {
            match self.nodes.get(&cur) {
                Some(Node::Dir(m)) => match m.get(c) {
                    Some(i) => cur = *i,
                    None => return Err(e1(Errc::NotFound)),
                },
                // walking through a regular file: ENOTDIR; a plain tree
                // lookup reports "not found" — both accepted
                _ => return Err(vec![Errc::NotDir, Errc::NotFound]),
            }
        }
        Ok(cur)
    }

    /// Resolve the parent directory of `path` and the final name.
    fn lookup_parent(&self, path: &str) -> Result<(Ino, String), Errs> {
        let cs = comps(path);
        let Some((last, init)) = cs.split_last() else {
            return Err(e1(Errc::Invalid));
        };
        let mut cur = ROOT;
        for c in init {
            match self.nodes.get(&cur) {
                Some(Node::Dir(m)) => match m.get(*c) {
                    Some(i) => cur = *i,
                    None => return Err(e1(Errc::NotFound)),
                },
                _ => return Err(vec![Errc::NotDir, Errc::NotFound]),
            }
        }
        if !self.is_dir(cur) {
            return Err(vec![Errc::NotDir, Errc::NotFound]);
        }
        Ok((cur, last.to_string()))
    }

    fn alloc(&mut self, n: Node) -> Ino {
        let i = self.next;
        self.next += 1;
        self.nodes.insert(i, n);
        i
    }

    fn drop_subtree(&mut self, i: Ino) {
        if let Some(Node::Dir(m)) = self.nodes.remove(&i) {
            for (_, c) in m {
                self.drop_subtree(c);
            }
        }
    }

    fn is_ancestor_or_same(&self, anc: Ino, mut path_to: &str) -> bool {
        // is `anc` on the path from root to `path_to` (inclusive)?
        loop {
            if let Ok(i) = self.lookup(path_to) {
                if i == anc {
                    return true;
                }
            }
            if path_to == "/" || path_to.is_empty() {
                return false;
            }
            let p = match path_to.rfind('/') {
                Some(0) | None => "/",
                Some(k) => &path_to[..k],
            };
            path_to = p;
        }
    }

    fn write_inode(&mut self, ino: Ino, off: u64, data: &[u8]) {
        if data.is_empty() {
            return;
        }
        let c = self.file_mut(ino);
        let end = off as usize + data.len();
        if c.len() < end {
            c.resize(end, 0);
        }
        c[off as usize..end].copy_from_slice(data);
        self.events.push(Ev::Write {
            ino,
            off,
            data: data.to_vec(),
        });
    }

    fn open(&mut self, p: &str, fl: &Flags) -> Result<Handle, Expect> {
        let writable = fl.write || fl.append;
        if !fl.read && !writable {
            return Err(Expect::Err(e1(Errc::Invalid)));
        }
        let ino = match self.lookup(p) {
            Ok(i) => {
                if fl.create_new {
                    return Err(Expect::Err(e1(Errc::Exists)));
                }
                if self.is_dir(i) {
                    if writable || fl.truncate || fl.create {
                        return Err(Expect::Err(e1(Errc::IsDir)));
                    }
                    // O_RDONLY on a directory succeeds on Linux, any later
                    // read fails EISDIR; std::fs users normally see EISDIR.
                    return Err(Expect::OkOrErr(Val::Unit, e1(Errc::IsDir)));
                }
                i
            }
            Err(_) => {
                let (dir, name) = match self.lookup_parent(p) {
                    Ok(x) => x,
                    Err(errs) => return Err(Expect::Err(errs)),
                };
                if self.dir(dir).contains_key(&name) {
                    unreachable!("lookup failed but parent has the entry");
                }
                if (fl.create || fl.create_new) && writable {
                    let i = self.alloc(Node::File(vec![]));
                    self.dir_mut(dir).insert(name, i);
                    self.events.push(Ev::CreatedFile(i));
                    i
                } else {
                    return Err(Expect::Err(e1(Errc::NotFound)));
                }
            }
        };
        if fl.truncate && fl.write && !fl.create_new {
            if !self.file(ino).is_empty() {
                self.file_mut(ino).clear();
            }
            self.events.push(Ev::OpenTrunc { ino });
        }
        Ok(Handle {
            ino,
            read: fl.read,
            write: writable,
            append: fl.append,
            cur: 0,
        })
    }

    fn step(&mut self, h: &mut Handle, s: &Step) -> Expect {
        match s {
            Step::Seek { whence, off } => {
                let base: i64 = match whence {
                    0 => 0,
                    1 => h.cur as i64,
                    _ => self.file(h.ino).len() as i64,
                };
                let np = base + off;
                if np < 0 {
                    Expect::Err(e1(Errc::Invalid))
                } else {
                    h.cur = np as u64;
                    Expect::Ok(Val::Count(np as u64))
                }
            }
            Step::Read { n } => {
                if !h.read {
                    return Expect::Err(e1(Errc::BadAccess));
                }
                let c = self.file(h.ino);
                let start = (h.cur as usize).min(c.len());
                let end = (start + *n as usize).min(c.len());
                let out = c[start..end].to_vec();
                h.cur += out.len() as u64;
                Expect::Ok(Val::Bytes(out))
            }
            Step::Write { n, key } => {
                if !h.write {
                    return Expect::Err(e1(Errc::BadAccess));
                }
                let off = if h.append {
                    self.file(h.ino).len() as u64
                } else {
                    h.cur
                };
                self.write_inode(h.ino, off, &payload(*key, *n));
                h.cur = off + *n as u64;
                Expect::Ok(Val::Count(*n as u64))
            }
            Step::ReadAt { off, n } => {
                if !h.read {
                    return Expect::Err(e1(Errc::BadAccess));
                }
                let c = self.file(h.ino);
                let start = (*off as usize).min(c.len());
                let end = (start + *n as usize).min(c.len());
                Expect::Ok(Val::Bytes(c[start..end].to_vec()))
            }
            Step::WriteAt { off, n, key } => {
                if !h.write {
                    return Expect::Err(e1(Errc::BadAccess));
                }
                self.write_inode(h.ino, *off, &payload(*key, *n));
                Expect::Ok(Val::Count(*n as u64))
            }
            Step::SetLen { len } => {
                if !h.write {
                    return Expect::Err(vec![Errc::BadAccess, Errc::Invalid]);
                }
                self.file_mut(h.ino).resize(*len as usize, 0);
                self.events.push(Ev::SetLen {
                    ino: h.ino,
                    len: *len,
                });
                Expect::Ok(Val::Unit)
            }
            Step::SyncAll | Step::SyncData => {
                let snap = self.file(h.ino).clone();
                self.events.push(Ev::SyncFile(h.ino, snap));
                Expect::Ok(Val::Unit)
            }
            Step::Len => Expect::Ok(Val::Count(self.file(h.ino).len() as u64)),
            // the handle keeps referring to its inode
            Step::Rename { a, b } => self.rename(a, b),
        }
    }

    /// open + one step + close, flattening the result
    fn one(&mut self, p: &str, fl: &str, s: Step) -> Expect {
        match self.open(p, &Flags::parse(fl)) {
            Err(Expect::OkOrErr(_, errs)) => Expect::Err(errs),
            Err(e) => e,
            Ok(mut h) => self.step(&mut h, &s),
        }
    }

    pub fn apply(&mut self, op: &Op) -> Expect {
        match op {
            Op::Open { p, fl, .. } => match self.open(p, fl) {
                Ok(_) => Expect::Ok(Val::Unit),
                Err(e) => e,
            },
            Op::WriteAt { p, off, n, key, .. } => self.one(
                p,
                "w",
                Step::WriteAt {
                    off: *off,
                    n: *n,
                    key: *key,
                },
            ),
            Op::Append { p, n, key, .. } => self.one(p, "a", Step::Write { n: *n, key: *key }),
            Op::ReadAt { p, off, n, .. } => self.one(p, "r", Step::ReadAt { off: *off, n: *n }),
            Op::ReadAll { p, .. } => match self.lookup(p) {
                Ok(i) if self.is_dir(i) => Expect::Err(e1(Errc::IsDir)),
                Ok(i) => Expect::Ok(Val::Bytes(self.file(i).clone())),
                Err(e) => Expect::Err(e),
            },
            Op::WriteAll { p, n, key, .. } => match self.open(p, &Flags::parse("wct")) {
                Err(Expect::OkOrErr(_, errs)) => Expect::Err(errs),
                Err(e) => e,
                Ok(mut h) => {
                    if *n > 0 {
                        self.step(
                            &mut h,
                            &Step::WriteAt {
                                off: 0,
                                n: *n,
                                key: *key,
                            },
                        );
                    }
                    Expect::Ok(Val::Unit)
                }
            },
            Op::Handle { p, fl, steps, .. } => match self.open(p, fl) {
                Err(Expect::OkOrErr(..)) => Expect::Any,
                Err(e) => e,
                Ok(mut h) => {
                    let mut out = vec![];
                    for s in steps {
                        out.push(self.step(&mut h, s));
                    }
                    Expect::Steps(out)
                }
            },
            Op::SetLen { p, len, .. } => self.one(p, "w", Step::SetLen { len: *len }),
            Op::SyncAll { p, .. } => self.one(p, "w", Step::SyncAll),
            Op::SyncData { p, .. } => self.one(p, "w", Step::SyncData),
            Op::SyncDir { p, .. } => match self.lookup(p) {
                Ok(i) if self.is_dir(i) => {
                    self.events.push(Ev::SyncDir(i));
                    Expect::Ok(Val::Unit)
                }
                Ok(_) => Expect::Err(vec![Errc::NotDir, Errc::NotFound]),
                Err(e) => Expect::Err(e),
            },
            Op::Rename { a, b, .. } => self.rename(a, b),
            Op::RemoveFile { p, .. } => match self.lookup(p) {
                Err(e) => Expect::Err(e),
                Ok(i) if self.is_dir(i) => Expect::Err(vec![Errc::IsDir, Errc::BadAccess]),
                Ok(i) => {
                    let (d, name) = self.lookup_parent(p).expect("parent of existing");
                    self.dir_mut(d).remove(&name);
                    self.nodes.remove(&i);
                    Expect::Ok(Val::Unit)
                }
            },
            Op::CreateDir { p, .. } => {
                if p == "/" || self.lookup(p).is_ok() {
                    return Expect::Err(e1(Errc::Exists));
                }
                match self.lookup_parent(p) {
                    Err(e) => Expect::Err(e),
                    Ok((d, name)) => {
                        let i = self.alloc(Node::Dir(BTreeMap::new()));
                        self.dir_mut(d).insert(name, i);
                        self.events.push(Ev::CreatedDir(i));
                        Expect::Ok(Val::Unit)
                    }
                }
            }
            Op::CreateDirAll { p, .. } => {
                // check first: a non-directory on the way is an error and
                // nothing is created (all its ancestors already exist)
                let mut cur = ROOT;
                let cs: Vec<String> = comps(p).iter().map(|s| s.to_string()).collect();
                let mut k = 0;
                while k < cs.len() {
                    match self.dir(cur).get(&cs[k]) {
                        Some(i) if self.is_dir(*i) => {
                            cur = *i;
                            k += 1;
                        }
                        Some(_) => {
                            // a regular file in the way: EEXIST when it is the
                            // final component, ENOTDIR (accepted: not found)
                            // when it is an intermediate one
                            return Expect::Err(if k + 1 == cs.len() {
                                vec![Errc::Exists]
                            } else {
                                vec![Errc::NotDir, Errc::NotFound]
                            });
                        }
                        None => break,
                    }
                }
                while k < cs.len() {
                    let i = self.alloc(Node::Dir(BTreeMap::new()));
                    self.dir_mut(cur).insert(cs[k].clone(), i);
                    self.events.push(Ev::CreatedDir(i));
                    cur = i;
                    k += 1;
                }
                Expect::Ok(Val::Unit)
            }
            Op::RemoveDir { p, .. } => match self.lookup(p) {
                Err(e) => Expect::Err(e),
                Ok(ROOT) => Expect::Any,
                Ok(i) if !self.is_dir(i) => Expect::Err(e1(Errc::NotDir)),
                Ok(i) if !self.dir(i).is_empty() => Expect::Err(vec![Errc::NotEmpty, Errc::Exists]),
                Ok(i) => {
                    let (d, name) = self.lookup_parent(p).expect("parent of existing");
                    self.dir_mut(d).remove(&name);
                    self.nodes.remove(&i);
                    Expect::Ok(Val::Unit)
                }
            },
            Op::RemoveDirAll { p, .. } => match self.lookup(p) {
                Err(e) => Expect::Err(e),
                Ok(ROOT) => Expect::Any,
                Ok(i) if !self.is_dir(i) => Expect::Err(e1(Errc::NotDir)),
                Ok(i) => {
                    let (d, name) = self.lookup_parent(p).expect("parent of existing");
                    self.dir_mut(d).remove(&name);
                    self.drop_subtree(i);
                    Expect::Ok(Val::Unit)
                }
            },
            Op::ReadDir { p, .. } => match self.lookup(p) {
                Err(e) => Expect::Err(e),
                Ok(i) if !self.is_dir(i) => Expect::Err(e1(Errc::NotDir)),
                Ok(i) => Expect::Ok(Val::Names(self.dir(i).keys().cloned().collect())),
            },
            Op::Metadata { p, .. } => match self.lookup(p) {
                Err(e) => Expect::Err(e),
                Ok(i) => Expect::Ok(match &self.nodes[&i] {
                    Node::Dir(_) => Val::Meta { dir: true, len: 0 },
                    Node::File(c) => Val::Meta {
                        dir: false,
                        len: c.len() as u64,
                    },
                }),
            },
            Op::Advance { .. } => Expect::Ok(Val::Unit),
            Op::Crash => Expect::Ok(Val::Unit),
        }
    }

    fn rename(&mut self, a: &str, b: &str) -> Expect {
        let src = match self.lookup(a) {
            Ok(i) => i,
            Err(e) => return Expect::Err(e),
        };
        if src == ROOT {
            return Expect::Any;
        }
        let (bd, bname) = match self.lookup_parent(b) {
            Ok(x) => x,
            Err(e) => return Expect::Err(e),
        };
        let dst = self.dir(bd).get(&bname).copied();
        if dst == Some(src) {
            // same file: POSIX says do nothing, succeed
            return Expect::Ok(Val::Unit);
        }
        let src_is_dir = self.is_dir(src);
        if src_is_dir && self.is_ancestor_or_same(src, &crate::ops::parent_of(b)) {
            // moving a directory into itself
            return Expect::Err(e1(Errc::Invalid));
        }
        if let Some(d) = dst {
            let dst_is_dir = self.is_dir(d);
            match (src_is_dir, dst_is_dir) {
                (false, true) => return Expect::Err(e1(Errc::IsDir)),
                (true, false) => return Expect::Err(e1(Errc::NotDir)),
                (true, true) => {
                    if !self.dir(d).is_empty() {
                        return Expect::Err(vec![Errc::NotEmpty, Errc::Exists]);
                    }
                    // an ancestor of src can never be empty, so no cycle here
                }
                (false, false) => {}
            }
            self.drop_subtree(d);
        }
        let (ad, aname) = self.lookup_parent(a).expect("parent of existing");
        self.dir_mut(ad).remove(&aname);
        self.dir_mut(bd).insert(bname.clone(), src);
        if ad != bd {
            self.events.push(Ev::MovedAcross {
                ino: src,
                from_dir: ad,
                from_name: aname,
                to_dir: bd,
                to_name: bname,
            });
        }
        Expect::Ok(Val::Unit)
    }

    /// Full path -> observation map used by the sweeps.
    pub fn observe(&self, path: &str) -> Obs {
        match self.lookup(path) {
            Err(_) => Obs::Absent,
            Ok(i) => match &self.nodes[&i] {
                Node::File(c) => Obs::File(c.clone()),
                Node::Dir(m) => Obs::Dir(m.keys().cloned().collect()),
            },
        }
    }

    /// (parent inode, name) of an inode
    pub fn parent_of(&self, target: Ino) -> Option<(Ino, String)> {
        for (i, n) in &self.nodes {
            if let Node::Dir(m) = n {
                for (name, c) in m {
                    if *c == target {
                        return Some((*i, name.clone()));
                    }
                }
            }
        }
        None
    }
}

/// Path-level observable state.
#[derive(Clone, Debug, PartialEq)]
pub enum Obs {
    Absent,
    File(Vec<u8>),
    Dir(BTreeSet<String>),
    /// the implementation contradicts itself about this path
    Confused(String),
}

impl Obs {
    pub fn short(&self) -> String {
        match self {
            Obs::Absent => "absent".into(),
            Obs::File(c) => format!(
                "file[{}]\"{}\"",
                c.len(),
                c.iter()
                    .take(24)
                    .map(|b| if (32..127).contains(b) {
                        *b as char
                    } else if *b == 0 {
                        '0'
                    } else {
                        '?'
                    })
                    .collect::<String>()
            ),
            Obs::Dir(s) => format!("dir{:?}", s),
            Obs::Confused(s) => format!("confused({s})"),
        }
    }
}
