//! `fsmodel repro`: standalone minimal reproductions of every defect found by
//! C07 / C10 on the unchanged tree, written against the real API only (no
//! reference model involved). Each prints what POSIX / the property expects
//! and what the implementation returns. Fixed defects show "ok" after their
//! fix commit; known findings keep showing "DEFECT".

use std::io::Write as _;
use std::os::unix::fs::FileExt;
use std::sync::{Arc, Mutex};
use std::time::Duration;
use turmoil::fs::shim::std::fs::{self as sfs, OpenOptions};
use turmoil::fs::{Fs, FsConfig};

fn with_fs<R>(f: impl FnOnce(&Arc<Mutex<Fs>>) -> R) -> R {
    let fs = Arc::new(Mutex::new(Fs::new(FsConfig::default(), 1)));
    let _g = turmoil::fs::enter(
        &fs,
        turmoil::fs::EnterCtx {
            now: Duration::from_millis(1),
            on_corruption: None,
        },
    );
    f(&fs)
}

fn show(name: &str, expected: &str, got: String) -> bool {
    let ok = expected == got;
    println!(
        "{:<44} {}  expected {expected:?}, got {got:?}",
        name,
        if ok { "ok    " } else { "DEFECT" }
    );
    ok
}

fn s(b: std::io::Result<Vec<u8>>) -> String {
    match b {
        Ok(v) => String::from_utf8_lossy(&v).replace('\0', "\\0"),
        Err(e) => format!("Err({:?})", e.kind()),
    }
}

pub fn main() -> ! {
    let mut defects = 0;
    let mut t = |ok: bool| {
        if !ok {
            defects += 1
        }
    };
    println!("--- fixed by `fix:` commits in /repo");
    // truncation ordering
    t(with_fs(|_| {
        let f = OpenOptions::new().read(true).write(true).create(true).open("/a").unwrap();
        f.write_all_at(b"AAAA", 0).unwrap();
        f.set_len(0).unwrap();
        f.write_all_at(b"B", 2).unwrap();
        show("write AAAA; set_len 0; write B@2; read", "\\0\\0B", s(sfs::read("/a")))
    }));
    // rename onto itself
    t(with_fs(|_| {
        sfs::write("/a", b"x").unwrap();
        sfs::rename("/a", "/a").unwrap();
        show("rename(/a,/a) keeps /a", "true", sfs::exists("/a").to_string())
    }));
    // directory into itself
    t(with_fs(|_| {
        sfs::create_dir("/d").unwrap();
        show(
            "rename(/d,/d/x) is refused",
            "true",
            sfs::rename("/d", "/d/x").is_err().to_string(),
        )
    }));
    // open(create) on a directory
    t(with_fs(|_| {
        sfs::create_dir("/d").unwrap();
        let r = OpenOptions::new().write(true).create(true).open("/d");
        show(
            "open(create) on a directory",
            "Err(IsADirectory)",
            match r {
                Ok(_) => "Ok(file on top of the directory)".into(),
                Err(e) => format!("Err({:?})", e.kind()),
            },
        )
    }));
    t(with_fs(|_| {
        sfs::write("/a", b"x").unwrap();
        show(
            "create_dir_all over a regular file",
            "Err(AlreadyExists)",
            match sfs::create_dir_all("/a") {
                Ok(()) => "Ok(())".into(),
                Err(e) => format!("Err({:?})", e.kind()),
            },
        )
    }));
    t(with_fs(|_| {
        sfs::write("/a", b"x").unwrap();
        show(
            "remove_dir on a regular file",
            "not a directory",
            match sfs::remove_dir("/a") {
                Ok(()) => "Ok(())".into(),
                Err(e) => e.to_string().to_lowercase(),
            },
        )
    }));
    // remove_dir with a child that arrived by rename
    t(with_fs(|_| {
        sfs::create_dir("/d").unwrap();
        sfs::write("/a", b"x").unwrap();
        sfs::rename("/a", "/d/a").unwrap();
        show(
            "remove_dir(/d) with renamed-in child",
            "true",
            sfs::remove_dir("/d").is_err().to_string(),
        )
    }));

    // cross-directory rename, both directories synced, crash
    t(with_fs(|fs| {
        sfs::write("/a", b"AAAA").unwrap();
        OpenOptions::new().write(true).open("/a").unwrap().sync_all().unwrap();
        sfs::sync_dir("/").unwrap();
        sfs::create_dir("/d").unwrap();
        sfs::rename("/a", "/d/a").unwrap();
        sfs::sync_dir("/").unwrap();
        sfs::sync_dir("/d").unwrap();
        fs.lock().unwrap().crash();
        show(
            "rename a->d/a; sync_dir(/); sync_dir(/d); crash",
            "AAAA",
            s(sfs::read("/d/a")),
        )
    }));

    // cross-dir rename of a new file
    t(with_fs(|_| {
        sfs::create_dir("/d").unwrap();
        OpenOptions::new().write(true).create(true).open("/a").unwrap();
        sfs::rename("/a", "/d/a").unwrap();
        sfs::sync_dir("/d").unwrap();
        show(
            "new file renamed into /d; sync_dir(/d)",
            "old=false new=true",
            format!("old={} new={}", sfs::exists("/a"), sfs::exists("/d/a")),
        )
    }));

    println!("--- known findings (inode state keyed by path; no small fix)");
    // F10a
    t(with_fs(|_| {
        sfs::write("/a", b"AAAA").unwrap();
        sfs::remove_file("/a").unwrap();
        let mut f = OpenOptions::new().write(true).create(true).open("/a").unwrap();
        f.write_all(b"B").unwrap();
        show("write AAAA; remove; create; write B", "B", s(sfs::read("/a")))
    }));
    // F10b
    t(with_fs(|_| {
        sfs::create_dir("/d").unwrap();
        sfs::write("/d/a", b"xy").unwrap();
        sfs::rename("/d", "/e").unwrap();
        let got = format!(
            "old exists={} new is_dir={} child={}",
            sfs::exists("/d"),
            sfs::metadata("/e").map(|m| m.is_dir()).unwrap_or(false),
            s(sfs::read("/e/a"))
        );
        show(
            "rename of a directory with a child",
            "old exists=false new is_dir=true child=xy",
            got,
        )
    }));
    // write after rename
    t(with_fs(|_| {
        sfs::write("/a", b"AAAA").unwrap();
        OpenOptions::new().write(true).open("/a").unwrap().sync_all().unwrap();
        sfs::sync_dir("/").unwrap();
        sfs::rename("/a", "/b").unwrap();
        OpenOptions::new().write(true).open("/b").unwrap().write_all_at(b"ZZ", 0).unwrap();
        show("synced AAAA; rename a->b; write ZZ via b", "ZZAA", s(sfs::read("/b")))
    }));
    // rename with pending data + sync_dir
    t(with_fs(|_| {
        sfs::write("/a", b"AAAA").unwrap();
        sfs::sync_dir("/").unwrap();
        sfs::rename("/a", "/b").unwrap();
        sfs::sync_dir("/").unwrap();
        show("unsynced AAAA; rename a->b; sync_dir", "AAAA", s(sfs::read("/b")))
    }));
    // F11
    t(with_fs(|fs| {
        sfs::write("/f", b"AAAA").unwrap();
        OpenOptions::new().write(true).open("/f").unwrap().sync_all().unwrap();
        sfs::sync_dir("/").unwrap();
        sfs::rename("/f", "/g").unwrap();
        let g = OpenOptions::new().write(true).open("/g").unwrap();
        g.write_all_at(b"ZZ", 0).unwrap();
        g.sync_all().unwrap();
        drop(g);
        fs.lock().unwrap().crash();
        show(
            "F11: durable f; rename; write+sync via g; crash",
            "ZZAA",
            s(sfs::read("/f")),
        )
    }));
    // resurrected children
    t(with_fs(|fs| {
        sfs::create_dir("/d").unwrap();
        sfs::write("/d/a", b"x").unwrap();
        sfs::sync_dir("/d").unwrap();
        sfs::remove_dir_all("/d").unwrap();
        sfs::sync_dir("/").unwrap();
        sfs::create_dir("/d").unwrap();
        sfs::sync_dir("/").unwrap();
        fs.lock().unwrap().crash();
        show(
            "rm -r d (synced); mkdir d (synced); crash",
            "false",
            sfs::exists("/d/a").to_string(),
        )
    }));
    println!("{defects} reproduction(s) still show a defect");
    std::process::exit(0)
}
