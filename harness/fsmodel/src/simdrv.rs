//! Execution of `Op`s inside a running `turmoil::Sim` (host software side).

use crate::model::{Errc, Obs, Ret, Val};
use crate::ops::{payload, Fe, Flags, Op};
use crate::real::{classify, classify_errno, exec_std, exec_tokio, observe_entered, Cfg, Lat};
use std::os::fd::{AsRawFd, RawFd};
use std::time::Duration;
use turmoil::fs::shim::std::fs as sfs;
use turmoil::io_uring::{opcode, types, AsyncFd, IoUring};

pub struct RingFd(pub RawFd);
impl AsRawFd for RingFd {
    fn as_raw_fd(&self) -> RawFd {
        self.0
    }
}

pub fn builder_for(cfg: &Cfg, seed: u64, tick: Duration) -> turmoil::Builder {
    let mut b = turmoil::Builder::new();
    b.tick_duration(tick)
        .simulation_duration(Duration::from_secs(3600))
        .rng_seed(seed);
    {
        let f = b.fs();
        if cfg.sync_prob > 0.0 {
            f.sync_probability(cfg.sync_prob);
        }
        if let Some(bs) = cfg.block {
            f.block_size(bs);
        }
        match cfg.lat {
            Lat::None => {}
            l => {
                f.io_latency().min_latency(l.min()).max_latency(l.max());
            }
        }
        if cfg.page_cache {
            f.page_cache();
        }
        if let Some(cap) = cfg.capacity {
            f.capacity(cap);
        }
        if let Some(a) = cfg.dio_align {
            f.direct_io_alignment(a);
        }
    }
    b
}

pub fn sweep_entered(paths: &[String]) -> Vec<Obs> {
    paths.iter().map(|p| observe_entered(p)).collect()
}

/// One read / write / fsync through a fresh ring, waiting with
/// `AsyncFd::readable`.
async fn exec_uring_sim(op: &Op, ud: u64) -> Ret {
    enum K {
        Read(u64, u32),
        Write(u64, Vec<u8>),
        Fsync,
    }
    let (p, fl, k) = match op {
        Op::WriteAt { p, off, n, key, .. } => (p, "w", K::Write(*off, payload(*key, *n))),
        Op::ReadAt { p, off, n, .. } => (p, "r", K::Read(*off, *n)),
        Op::SyncAll { p, .. } | Op::SyncData { p, .. } => (p, "w", K::Fsync),
        Op::Handle { p, .. } if op.is_ro_sync() => (p, "r", K::Fsync),
        _ => return exec_std(op),
    };
    let f = {
        let fl = Flags::parse(fl);
        let mut o = sfs::OpenOptions::new();
        o.read(fl.read).write(fl.write);
        match o.open(p) {
            Ok(f) => f,
            Err(e) => return Ret::Err(classify(&e)),
        }
    };
    let mut ring = match IoUring::new(2) {
        Ok(r) => r,
        Err(e) => return Ret::Err(Errc::Other(format!("ring: {e}"))),
    };
    let fd = types::Fd(f.as_raw_fd());
    let mut rbuf: Vec<u8> = vec![];
    let sqe = match &k {
        K::Read(off, n) => {
            rbuf = vec![0xEEu8; *n as usize];
            opcode::Read::new(fd, rbuf.as_mut_ptr(), *n).offset(*off).build()
        }
        K::Write(off, data) => {
            opcode::Write::new(fd, data.as_ptr(), data.len() as u32).offset(*off).build()
        }
        K::Fsync => opcode::Fsync::new(fd).build(),
    }
    .user_data(ud);
    if unsafe { ring.submission().push(&sqe) }.is_err() {
        return Ret::Err(Errc::Other("uring: push failed".into()));
    }
    match ring.submit() {
        Ok(1) => {}
        other => return Ret::Err(Errc::Other(format!("uring: submit returned {other:?}"))),
    }
    let afd = match AsyncFd::new(RingFd(ring.as_raw_fd())) {
        Ok(a) => a,
        Err(e) => return Ret::Err(Errc::Other(format!("asyncfd: {e}"))),
    };
    let mut got: Vec<(u64, i32)> = vec![];
    for _ in 0..10_000 {
        {
            let mut cq = ring.completion();
            cq.sync();
            for e in &mut cq {
                got.push((e.user_data(), e.result()));
            }
        }
        if !got.is_empty() {
            break;
        }
        if afd.readable().await.is_err() {
            return Ret::Err(Errc::Other("uring: readable() failed".into()));
        }
    }
    drop(afd);
    drop(ring);
    drop(f);
    drop(k);
    if got.len() != 1 || got[0].0 != ud {
        return Ret::Err(Errc::Other(format!(
            "uring: expected exactly one CQE for ud {ud}, got {got:?}"
        )));
    }
    let res = got[0].1;
    if res < 0 {
        return Ret::Err(classify_errno(res));
    }
    match op {
        Op::WriteAt { .. } => Ret::Ok(Val::Count(res as u64)),
        Op::ReadAt { .. } => {
            let k = (res as usize).min(rbuf.len());
            if rbuf[k..].iter().any(|b| *b != 0xEE) {
                return Ret::Err(Errc::Other("uring: read wrote past its result count".into()));
            }
            rbuf.truncate(k);
            Ret::Ok(Val::Bytes(rbuf))
        }
        Op::Handle { .. } => Ret::Ok(Val::Steps(vec![Ret::Ok(Val::Unit)])),
        _ => Ret::Ok(Val::Unit),
    }
}

pub async fn exec_in_sim(op: &Op, ud: u64) -> Ret {
    match op {
        Op::Advance { us } => {
            tokio::time::sleep(Duration::from_micros(*us)).await;
            Ret::Ok(Val::Unit)
        }
        Op::Crash => Ret::Ok(Val::Unit),
        _ => match op.fe().unwrap_or(Fe::Std) {
            Fe::Std => exec_std(op),
            Fe::Tokio => exec_tokio(op).await,
            Fe::Uring => exec_uring_sim(op, ud).await,
        },
    }
}
