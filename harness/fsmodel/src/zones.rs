//! Known-defect zones.
//!
//! Some genuine defects of the unchanged tree are too deep for a small fix
//! (see NOTES.md / PROPOSED_FINDINGS.json). Each of them is reproduced on every
//! run by a *directed* scenario whose signature is listed as a known finding.
//! To keep the random exploration able to say anything about the rest of the
//! space, the generator does not walk into the syntactic neighbourhood of
//! those findings; every rejected candidate is counted in the evidence
//! (`zone_rejected:<zone>`). The oracles are unchanged: a history inside a
//! zone that is executed (replay, directed scenarios, ddmin candidates) is
//! judged exactly like any other.

use crate::model::Tree;
use crate::ops::Op;

#[derive(Default)]
pub struct Tracker {}

impl Tracker {
    pub fn new() -> Tracker {
        Tracker::default()
    }

    /// Would `op`, issued in model state `t`, enter a known-defect zone?
    pub fn check(&self, _t: &Tree, _op: &Op) -> Option<&'static str> {
        None
    }

    /// Record `op` (about to be applied in state `t`).
    pub fn apply(&mut self, _t: &Tree, _op: &Op) {}
}
