//! Known-defect zones.
//!
//! Some genuine defects of the unchanged tree are too deep for a small fix
//! (inode state is keyed by path: see NOTES.md / PROPOSED_FINDINGS.json). Each
//! of them is reproduced on every run by a *directed* scenario whose
//! signature is listed as a known finding. To keep the random exploration
//! able to say anything about the rest of the space, the generator does not
//! walk into the syntactic neighbourhood of those findings; every rejected
//! candidate is counted in the evidence (`zone_rejected:<zone>`). The oracles
//! are unchanged: a history inside a zone that is executed (replay, directed
//! scenarios) is judged exactly like any other.
//!
//! Zones (all defined on the reference model's view of the history, never on
//! implementation state):
//!
//! * `rename-dir`            — any rename whose source is a directory
//! * `rename-pending-data`   — rename of a regular file that has data
//!                             operations (write / set_len / truncate) not yet
//!                             followed by a sync_all/sync_data/fsync of it,
//!                             or onto an existing file in that state
//! * `write-after-rename`    — data operation or file sync on a file whose
//!                             rename has not been followed by a sync_dir of
//!                             the source or destination directory
//! * `rename-onto-unflushed-rename` — rename onto a name that is itself the
//!                             destination of a rename not yet flushed by a
//!                             sync_dir
//! * `recreate`              — creating a file (or renaming onto a name) where
//!                             a regular file existed earlier in the history
//!                             and whose removal / pending data has not been
//!                             flushed (sync_dir of the parent after the
//!                             removal of a file without unsynced data)

use crate::model::{Node, Tree};
use crate::ops::{parent_of, Op, Step};
use std::collections::{BTreeMap, BTreeSet};

#[derive(Default, Clone)]
pub struct Tracker {
    /// files with unsynced data operations
    dirty: BTreeSet<String>,
    /// rename destinations not yet flushed: dest -> source parent
    renamed: BTreeMap<String, String>,
    /// names at which an object died: path -> had unsynced data
    dead: BTreeMap<String, bool>,
    /// files whose creation has not been followed by a sync_dir of the parent
    entry_unsynced: BTreeSet<String>,
}

fn is_file(t: &Tree, p: &str) -> bool {
    matches!(t.lookup(p).ok().map(|i| &t.nodes[&i]), Some(Node::File(_)))
}
fn is_dir(t: &Tree, p: &str) -> bool {
    matches!(t.lookup(p).ok().map(|i| &t.nodes[&i]), Some(Node::Dir(_)))
}

/// Does this op (if it succeeds) create an object at a missing path?
fn creates(t: &Tree, op: &Op) -> Option<String> {
    let (p, can) = match op {
        Op::WriteAll { p, .. } => (p, true),
        Op::CreateDir { p, .. } => (p, true),
        Op::Open { p, fl, .. } | Op::Handle { p, fl, .. } => {
            (p, (fl.create || fl.create_new) && (fl.write || fl.append))
        }
        _ => return None,
    };
    if can && t.lookup(p).is_err() {
        Some(p.clone())
    } else {
        None
    }
}

/// Data operations of an op on an existing file; returns (path, dirty_after)
/// where dirty_after tells whether unsynced data remains after the op.
fn data_effect(t: &Tree, op: &Op) -> Option<(String, bool, Option<bool>)> {
    // (path, touches_data_or_syncs, dirty_after)
    match op {
        Op::WriteAt { p, n, .. } => Some((p.clone(), true, if *n > 0 { Some(true) } else { None })),
        Op::Append { p, .. } => Some((p.clone(), true, Some(true))),
        Op::SetLen { p, .. } => Some((p.clone(), true, Some(true))),
        Op::WriteAll { p, .. } => Some((p.clone(), true, Some(true))),
        Op::SyncAll { p, .. } | Op::SyncData { p, .. } => Some((p.clone(), true, Some(false))),
        Op::Open { p, fl, .. } => {
            if fl.truncate && fl.write {
                Some((p.clone(), true, Some(true)))
            } else {
                None
            }
        }
        Op::Handle { p, fl, steps, .. } => {
            let mut touched = fl.truncate && fl.write;
            let mut dirty: Option<bool> = if touched { Some(true) } else { None };
            for s in steps {
                match s {
                    Step::Write { n, .. } | Step::WriteAt { n, .. } => {
                        if fl.write || fl.append {
                            touched = true;
                            if *n > 0 {
                                dirty = Some(true);
                            }
                        }
                    }
                    Step::SetLen { .. } => {
                        if fl.write || fl.append {
                            touched = true;
                            dirty = Some(true);
                        }
                    }
                    Step::SyncAll | Step::SyncData => {
                        touched = true;
                        dirty = Some(false);
                    }
                    _ => {}
                }
            }
            let _ = t;
            if touched {
                Some((p.clone(), true, dirty))
            } else {
                None
            }
        }
        _ => None,
    }
}

impl Tracker {
    pub fn new() -> Tracker {
        Tracker::default()
    }

    /// Would `op`, issued in model state `t`, enter a known-defect zone?
    pub fn check(&self, t: &Tree, op: &Op) -> Option<&'static str> {
        if let Op::CreateDirAll { p, .. } = op {
            // every missing prefix is created
            let cs = crate::ops::comps(p);
            let mut cur = String::new();
            for c in cs {
                cur.push('/');
                cur.push_str(c);
                if t.lookup(&cur).is_err() && self.dead.contains_key(&cur) {
                    return Some("recreate");
                }
            }
            return None;
        }
        if let Op::Rename { a, b, .. } = op {
            if is_dir(t, a) {
                return Some("rename-dir");
            }
            if is_file(t, a) && a != b {
                if self.dirty.contains(a) {
                    return Some("rename-pending-data");
                }
                if is_file(t, b) && self.dirty.contains(b) {
                    return Some("rename-pending-data");
                }
                if is_file(t, b) && self.renamed.contains_key(b) {
                    return Some("rename-onto-unflushed-rename");
                }
                if self.renamed.contains_key(a) {
                    return Some("write-after-rename");
                }
                if self.dead.contains_key(b) {
                    return Some("recreate");
                }
            }
            return None;
        }
        if let Some(p) = creates(t, op) {
            if self.dead.contains_key(&p) {
                return Some("recreate");
            }
        }
        if let Some((p, touched, _)) = data_effect(t, op) {
            if touched && is_file(t, &p) && self.renamed.contains_key(&p) {
                return Some("write-after-rename");
            }
        }
        None
    }

    fn kill_file(&mut self, p: &str) {
        self.entry_unsynced.remove(p);
        let stale = self.dirty.remove(p);
        self.renamed.remove(p);
        self.dead.insert(p.to_string(), stale);
    }

    /// Record `op` (about to be applied in model state `t`).
    pub fn apply(&mut self, t: &Tree, op: &Op) {
        match op {
            Op::Crash => {
                *self = Tracker::default();
                return;
            }
            Op::Rename { a, b, .. } => {
                if is_file(t, a) && a != b {
                    // would the model accept it?
                    let mut probe = t.clone();
                    if matches!(probe.apply(op), crate::model::Expect::Ok(_)) {
                        if is_file(t, b) {
                            self.dirty.remove(b);
                            self.renamed.remove(b);
                        }
                        // the destination entry is new until its directory is synced
                        self.entry_unsynced.remove(a);
                        self.entry_unsynced.insert(b.clone());
                        let was_dirty = self.dirty.remove(a);
                        self.renamed.remove(a);
                        self.dead.insert(a.clone(), was_dirty);
                        self.dead.remove(b);
                        if was_dirty {
                            self.dirty.insert(b.clone());
                        }
                        self.renamed.insert(b.clone(), parent_of(a));
                    }
                }
                return;
            }
            Op::RemoveFile { p, .. } => {
                if is_file(t, p) {
                    self.kill_file(p);
                }
                return;
            }
            Op::RemoveDirAll { p, .. } => {
                if is_dir(t, p) {
                    let prefix = format!("{p}/");
                    let victims: Vec<String> = crate::ops::universe()
                        .into_iter()
                        .filter(|q| q.starts_with(&prefix) && t.lookup(q).is_ok())
                        .collect();
                    for v in victims {
                        self.kill_file(&v);
                    }
                    self.kill_file(p);
                    // a removed directory's name is never reused: removals of
                    // its former entries may still be pending (known finding
                    // `resurrected-children`)
                    self.dead.insert(p.clone(), true);
                }
                return;
            }
            Op::RemoveDir { p, .. } => {
                if is_dir(t, p) && t.lookup(p).map(|i| t.dir(i).is_empty()).unwrap_or(false) {
                    self.kill_file(p);
                    self.dead.insert(p.clone(), true);
                }
                return;
            }
            Op::SyncDir { p, .. } => {
                if is_dir(t, p) {
                    self.renamed
                        .retain(|dst, srcpar| !(parent_of(dst) == *p || srcpar == p));
                    self.dead
                        .retain(|path, stale| *stale || parent_of(path) != *p);
                    self.entry_unsynced.retain(|path| parent_of(path) != *p);
                }
                return;
            }
            _ => {}
        }
        // creation / data effects
        let mut probe = t.clone();
        let ok = !matches!(probe.apply(op), crate::model::Expect::Err(_));
        if !ok {
            return;
        }
        if let Some(p) = creates(t, op) {
            self.dead.remove(&p);
            if is_file(&probe, &p) {
                self.entry_unsynced.insert(p);
            }
        }
        if let Op::CreateDirAll { p, .. } = op {
            let mut cur = String::new();
            for c in crate::ops::comps(p) {
                cur.push('/');
                cur.push_str(c);
                self.dead.remove(&cur);
            }
        }
        if let Some((p, _, dirty_after)) = data_effect(t, op) {
            if is_file(&probe, &p) {
                match dirty_after {
                    Some(true) => {
                        self.dirty.insert(p);
                    }
                    Some(false) => {
                        self.dirty.remove(&p);
                    }
                    None => {}
                }
            }
        }
    }
}

/// Does the history enter any known-defect zone? (Same tree evolution as the
/// generator: crashes are followed with the pessimistic durable image.)
pub fn in_zone(h: &[Op]) -> Option<&'static str> {
    let mut dm = crate::durable::Durable::new(false, None);
    let mut zt = Tracker::new();
    for op in h {
        if let Some(z) = zt.check(&dm.v, op) {
            return Some(z);
        }
        zt.apply(&dm.v, op);
        if matches!(op, Op::Crash) {
            dm.crash_assume();
        } else {
            dm.v.apply(op);
            dm.absorb();
        }
    }
    None
}
