//! History alphabet for the fs checks (C10 / C07): operations, their JSON
//! form (witness / replay), canonicalisation for signatures, payload bytes.
//!
//! Every `Op` is self-contained (opens its own handle, uses it, closes it) so
//! that delta debugging can drop any subset of a history and the rest still
//! makes sense.

use serde_json::{json, Value};

/// Front-end through which an operation is issued.
#[derive(Clone, Copy, Debug, PartialEq, Eq, PartialOrd, Ord)]
pub enum Fe {
    Std,
    Tokio,
    Uring,
}

impl Fe {
    pub fn as_str(&self) -> &'static str {
        match self {
            Fe::Std => "std",
            Fe::Tokio => "tokio",
            Fe::Uring => "uring",
        }
    }
    pub fn parse(s: &str) -> Fe {
        match s {
            "tokio" => Fe::Tokio,
            "uring" => Fe::Uring,
            _ => Fe::Std,
        }
    }
}

#[derive(Clone, Copy, Debug, PartialEq, Eq, Default)]
pub struct Flags {
    pub read: bool,
    pub write: bool,
    pub append: bool,
    pub truncate: bool,
    pub create: bool,
    pub create_new: bool,
}

impl Flags {
    pub fn code(&self) -> String {
        let mut s = String::new();
        for (b, c) in [
            (self.read, 'r'),
            (self.write, 'w'),
            (self.append, 'a'),
            (self.truncate, 't'),
            (self.create, 'c'),
            (self.create_new, 'x'),
        ] {
            if b {
                s.push(c);
            }
        }
        s
    }
    pub fn parse(s: &str) -> Flags {
        Flags {
            read: s.contains('r'),
            write: s.contains('w'),
            append: s.contains('a'),
            truncate: s.contains('t'),
            create: s.contains('c'),
            create_new: s.contains('x'),
        }
    }
}

/// One step on an open handle (cursor based and positional).
#[derive(Clone, Debug, PartialEq)]
pub enum Step {
    /// whence: 0 = Start, 1 = Current, 2 = End
    Seek { whence: u8, off: i64 },
    Read { n: u32 },
    Write { n: u32, key: u8 },
    ReadAt { off: u64, n: u32 },
    WriteAt { off: u64, n: u32, key: u8 },
    SetLen { len: u64 },
    SyncAll,
    SyncData,
    Len,
    /// namespace operation while the handle stays open (directed scenarios
    /// only: handle-follows-inode)
    Rename { a: String, b: String },
}

#[derive(Clone, Debug, PartialEq)]
pub enum Op {
    /// open with flags, then close
    Open { p: String, fl: Flags, fe: Fe },
    /// open(write) ; write_at ; close
    WriteAt { p: String, off: u64, n: u32, key: u8, fe: Fe },
    /// open(append) ; write ; close
    Append { p: String, n: u32, key: u8, fe: Fe },
    /// open(read) ; read_at ; close
    ReadAt { p: String, off: u64, n: u32, fe: Fe },
    /// fs::read
    ReadAll { p: String, fe: Fe },
    /// fs::write (create + truncate + write)
    WriteAll { p: String, n: u32, key: u8, fe: Fe },
    /// open with flags, run steps on the one handle, close
    Handle { p: String, fl: Flags, steps: Vec<Step>, fe: Fe },
    /// open(write) ; set_len ; close
    SetLen { p: String, len: u64, fe: Fe },
    /// open(write) ; sync_all ; close    (uring: IORING_OP_FSYNC)
    SyncAll { p: String, fe: Fe },
    SyncData { p: String, fe: Fe },
    SyncDir { p: String, fe: Fe },
    Rename { a: String, b: String, fe: Fe },
    RemoveFile { p: String, fe: Fe },
    CreateDir { p: String, fe: Fe },
    CreateDirAll { p: String, fe: Fe },
    RemoveDir { p: String, fe: Fe },
    RemoveDirAll { p: String, fe: Fe },
    ReadDir { p: String, fe: Fe },
    Metadata { p: String, fe: Fe },
    /// passage of virtual time (micro seconds)
    Advance { us: u64 },
    /// crash the host (C07 only)
    Crash,
}

/// Payload byte `i` of the write with key `key`: printable, never zero, and
/// varying along the write so shifted / misplaced data is visible.
pub fn payload(key: u8, n: u32) -> Vec<u8> {
    (0..n as usize)
        .map(|i| b'A' + ((key as usize + i) % 26) as u8)
        .collect()
}

fn step_json(s: &Step) -> Value {
    match s {
        Step::Seek { whence, off } => json!({"s":"seek","whence":whence,"off":off}),
        Step::Read { n } => json!({"s":"read","n":n}),
        Step::Write { n, key } => json!({"s":"write","n":n,"key":key}),
        Step::ReadAt { off, n } => json!({"s":"read_at","off":off,"n":n}),
        Step::WriteAt { off, n, key } => json!({"s":"write_at","off":off,"n":n,"key":key}),
        Step::SetLen { len } => json!({"s":"set_len","len":len}),
        Step::SyncAll => json!({"s":"sync_all"}),
        Step::SyncData => json!({"s":"sync_data"}),
        Step::Len => json!({"s":"len"}),
        Step::Rename { a, b } => json!({"s":"rename","a":a,"b":b}),
    }
}

fn step_parse(v: &Value) -> Option<Step> {
    let u = |k: &str| v[k].as_u64().unwrap_or(0);
    Some(match v["s"].as_str()? {
        "seek" => Step::Seek {
            whence: u("whence") as u8,
            off: v["off"].as_i64().unwrap_or(0),
        },
        "read" => Step::Read { n: u("n") as u32 },
        "write" => Step::Write {
            n: u("n") as u32,
            key: u("key") as u8,
        },
        "read_at" => Step::ReadAt {
            off: u("off"),
            n: u("n") as u32,
        },
        "write_at" => Step::WriteAt {
            off: u("off"),
            n: u("n") as u32,
            key: u("key") as u8,
        },
        "set_len" => Step::SetLen { len: u("len") },
        "sync_all" => Step::SyncAll,
        "sync_data" => Step::SyncData,
        "len" => Step::Len,
        "rename" => Step::Rename {
            a: v["a"].as_str().unwrap_or("/").to_string(),
            b: v["b"].as_str().unwrap_or("/").to_string(),
        },
        _ => return None,
    })
}

impl Op {
    pub fn kind(&self) -> &'static str {
        match self {
            Op::Open { .. } => "open",
            Op::WriteAt { .. } => "write_at",
            Op::Append { .. } => "append",
            Op::ReadAt { .. } => "read_at",
            Op::ReadAll { .. } => "read",
            Op::WriteAll { .. } => "write",
            Op::Handle { .. } => "handle",
            Op::SetLen { .. } => "set_len",
            Op::SyncAll { .. } => "sync_all",
            Op::SyncData { .. } => "sync_data",
            Op::SyncDir { .. } => "sync_dir",
            Op::Rename { .. } => "rename",
            Op::RemoveFile { .. } => "remove_file",
            Op::CreateDir { .. } => "create_dir",
            Op::CreateDirAll { .. } => "create_dir_all",
            Op::RemoveDir { .. } => "remove_dir",
            Op::RemoveDirAll { .. } => "remove_dir_all",
            Op::ReadDir { .. } => "read_dir",
            Op::Metadata { .. } => "metadata",
            Op::Advance { .. } => "advance",
            Op::Crash => "crash",
        }
    }

    pub fn fe(&self) -> Option<Fe> {
        match self {
            Op::Open { fe, .. }
            | Op::WriteAt { fe, .. }
            | Op::Append { fe, .. }
            | Op::ReadAt { fe, .. }
            | Op::ReadAll { fe, .. }
            | Op::WriteAll { fe, .. }
            | Op::Handle { fe, .. }
            | Op::SetLen { fe, .. }
            | Op::SyncAll { fe, .. }
            | Op::SyncData { fe, .. }
            | Op::SyncDir { fe, .. }
            | Op::Rename { fe, .. }
            | Op::RemoveFile { fe, .. }
            | Op::CreateDir { fe, .. }
            | Op::CreateDirAll { fe, .. }
            | Op::RemoveDir { fe, .. }
            | Op::RemoveDirAll { fe, .. }
            | Op::ReadDir { fe, .. }
            | Op::Metadata { fe, .. } => Some(*fe),
            Op::Advance { .. } | Op::Crash => None,
        }
    }

    pub fn set_fe(&mut self, new: Fe) {
        match self {
            Op::Open { fe, .. }
            | Op::WriteAt { fe, .. }
            | Op::Append { fe, .. }
            | Op::ReadAt { fe, .. }
            | Op::ReadAll { fe, .. }
            | Op::WriteAll { fe, .. }
            | Op::Handle { fe, .. }
            | Op::SetLen { fe, .. }
            | Op::SyncAll { fe, .. }
            | Op::SyncData { fe, .. }
            | Op::SyncDir { fe, .. }
            | Op::Rename { fe, .. }
            | Op::RemoveFile { fe, .. }
            | Op::CreateDir { fe, .. }
            | Op::CreateDirAll { fe, .. }
            | Op::RemoveDir { fe, .. }
            | Op::RemoveDirAll { fe, .. }
            | Op::ReadDir { fe, .. }
            | Op::Metadata { fe, .. } => *fe = new,
            Op::Advance { .. } | Op::Crash => {}
        }
    }

    /// `open(read-only); sync_all | sync_data; close` — a data sync through a
    /// descriptor that cannot itself have written anything.
    pub fn is_ro_sync(&self) -> bool {
        match self {
            Op::Handle { fl, steps, .. } => {
                fl.read
                    && !fl.write
                    && !fl.append
                    && steps.len() == 1
                    && matches!(steps[0], Step::SyncAll | Step::SyncData)
            }
            _ => false,
        }
    }

    /// Operations that can be carried by an io_uring SQE.
    pub fn uring_capable(&self) -> bool {
        matches!(
            self,
            Op::WriteAt { .. } | Op::ReadAt { .. } | Op::SyncAll { .. } | Op::SyncData { .. }
        ) || self.is_ro_sync()
    }

    /// Is this a pure observation (no effect on a correct tree)?
    pub fn is_sync(&self) -> bool {
        matches!(
            self,
            Op::SyncAll { .. } | Op::SyncData { .. } | Op::SyncDir { .. }
        )
    }

    pub fn to_json(&self) -> Value {
        let k = self.kind();
        match self {
            Op::Open { p, fl, fe } => json!({"op":k,"p":p,"fl":fl.code(),"fe":fe.as_str()}),
            Op::WriteAt { p, off, n, key, fe } => {
                json!({"op":k,"p":p,"off":off,"n":n,"key":key,"fe":fe.as_str()})
            }
            Op::Append { p, n, key, fe } => json!({"op":k,"p":p,"n":n,"key":key,"fe":fe.as_str()}),
            Op::ReadAt { p, off, n, fe } => json!({"op":k,"p":p,"off":off,"n":n,"fe":fe.as_str()}),
            Op::ReadAll { p, fe } => json!({"op":k,"p":p,"fe":fe.as_str()}),
            Op::WriteAll { p, n, key, fe } => {
                json!({"op":k,"p":p,"n":n,"key":key,"fe":fe.as_str()})
            }
            Op::Handle { p, fl, steps, fe } => json!({
                "op":k,"p":p,"fl":fl.code(),"fe":fe.as_str(),
                "steps": steps.iter().map(step_json).collect::<Vec<_>>()
            }),
            Op::SetLen { p, len, fe } => json!({"op":k,"p":p,"len":len,"fe":fe.as_str()}),
            Op::SyncAll { p, fe }
            | Op::SyncData { p, fe }
            | Op::SyncDir { p, fe }
            | Op::RemoveFile { p, fe }
            | Op::CreateDir { p, fe }
            | Op::CreateDirAll { p, fe }
            | Op::RemoveDir { p, fe }
            | Op::RemoveDirAll { p, fe }
            | Op::ReadDir { p, fe }
            | Op::Metadata { p, fe } => json!({"op":k,"p":p,"fe":fe.as_str()}),
            Op::Rename { a, b, fe } => json!({"op":k,"a":a,"b":b,"fe":fe.as_str()}),
            Op::Advance { us } => json!({"op":k,"us":us}),
            Op::Crash => json!({"op":k}),
        }
    }

    pub fn from_json(v: &Value) -> Option<Op> {
        let p = || v["p"].as_str().unwrap_or("/").to_string();
        let fe = Fe::parse(v["fe"].as_str().unwrap_or("std"));
        let u = |k: &str| v[k].as_u64().unwrap_or(0);
        Some(match v["op"].as_str()? {
            "open" => Op::Open {
                p: p(),
                fl: Flags::parse(v["fl"].as_str().unwrap_or("")),
                fe,
            },
            "write_at" => Op::WriteAt {
                p: p(),
                off: u("off"),
                n: u("n") as u32,
                key: u("key") as u8,
                fe,
            },
            "append" => Op::Append {
                p: p(),
                n: u("n") as u32,
                key: u("key") as u8,
                fe,
            },
            "read_at" => Op::ReadAt {
                p: p(),
                off: u("off"),
                n: u("n") as u32,
                fe,
            },
            "read" => Op::ReadAll { p: p(), fe },
            "write" => Op::WriteAll {
                p: p(),
                n: u("n") as u32,
                key: u("key") as u8,
                fe,
            },
            "handle" => Op::Handle {
                p: p(),
                fl: Flags::parse(v["fl"].as_str().unwrap_or("")),
                steps: v["steps"]
                    .as_array()
                    .map(|a| a.iter().filter_map(step_parse).collect())
                    .unwrap_or_default(),
                fe,
            },
            "set_len" => Op::SetLen {
                p: p(),
                len: u("len"),
                fe,
            },
            "sync_all" => Op::SyncAll { p: p(), fe },
            "sync_data" => Op::SyncData { p: p(), fe },
            "sync_dir" => Op::SyncDir { p: p(), fe },
            "rename" => Op::Rename {
                a: v["a"].as_str().unwrap_or("/").to_string(),
                b: v["b"].as_str().unwrap_or("/").to_string(),
                fe,
            },
            "remove_file" => Op::RemoveFile { p: p(), fe },
            "create_dir" => Op::CreateDir { p: p(), fe },
            "create_dir_all" => Op::CreateDirAll { p: p(), fe },
            "remove_dir" => Op::RemoveDir { p: p(), fe },
            "remove_dir_all" => Op::RemoveDirAll { p: p(), fe },
            "read_dir" => Op::ReadDir { p: p(), fe },
            "metadata" => Op::Metadata { p: p(), fe },
            "advance" => Op::Advance { us: u("us") },
            "crash" => Op::Crash,
            _ => return None,
        })
    }
}

pub fn hist_json(h: &[Op]) -> Value {
    Value::Array(h.iter().map(|o| o.to_json()).collect())
}

pub fn hist_parse(v: &Value) -> Vec<Op> {
    v.as_array()
        .map(|a| a.iter().filter_map(Op::from_json).collect())
        .unwrap_or_default()
}

/// Path components used by the generators.
pub const COMPONENTS: [&str; 3] = ["a", "b", "d"];

/// All paths of depth 1..=3 over the component alphabet (39 paths).
pub fn universe() -> Vec<String> {
    let mut out = vec![];
    for a in COMPONENTS {
        out.push(format!("/{a}"));
    }
    for a in COMPONENTS {
        for b in COMPONENTS {
            out.push(format!("/{a}/{b}"));
        }
    }
    for a in COMPONENTS {
        for b in COMPONENTS {
            for c in COMPONENTS {
                out.push(format!("/{a}/{b}/{c}"));
            }
        }
    }
    out
}

pub fn parent_of(p: &str) -> String {
    match p.rfind('/') {
        Some(0) | None => "/".to_string(),
        Some(i) => p[..i].to_string(),
    }
}

pub fn comps(p: &str) -> Vec<&str> {
    p.split('/').filter(|c| !c.is_empty()).collect()
}

/// Size bucket used in canonical signatures.
fn bucket(n: u64) -> &'static str {
    match n {
        0 => "0",
        1 => "1",
        2..=7 => "s",
        8..=63 => "m",
        _ => "l",
    }
}

/// Canonical text of a history: path components renamed in order of first
/// use (c0, c1, ...), sizes / offsets bucketed, payload keys dropped,
/// front-end kept only where it is not `std`.
pub fn canonical(h: &[Op]) -> String {
    let mut names: Vec<String> = vec![];
    let mut canon_path = |p: &str| -> String {
        let mut out = String::new();
        for c in comps(p) {
            let idx = match names.iter().position(|n| n == c) {
                Some(i) => i,
                None => {
                    names.push(c.to_string());
                    names.len() - 1
                }
            };
            out.push_str(&format!("/c{idx}"));
        }
        if out.is_empty() {
            out.push('/');
        }
        out
    };
    let fe_s = |fe: &Fe| match fe {
        Fe::Std => String::new(),
        f => format!("@{}", f.as_str()),
    };
    let mut parts = vec![];
    for op in h {
        let s = match op {
            Op::Open { p, fl, fe } => format!("open({},{}){}", canon_path(p), fl.code(), fe_s(fe)),
            Op::WriteAt { p, off, n, fe, .. } => format!(
                "write_at({},{},{}){}",
                canon_path(p),
                bucket(*off),
                bucket(*n as u64),
                fe_s(fe)
            ),
            Op::Append { p, n, fe, .. } => {
                format!("append({},{}){}", canon_path(p), bucket(*n as u64), fe_s(fe))
            }
            Op::ReadAt { p, off, n, fe } => format!(
                "read_at({},{},{}){}",
                canon_path(p),
                bucket(*off),
                bucket(*n as u64),
                fe_s(fe)
            ),
            Op::ReadAll { p, fe } => format!("read({}){}", canon_path(p), fe_s(fe)),
            Op::WriteAll { p, n, fe, .. } => {
                format!("write({},{}){}", canon_path(p), bucket(*n as u64), fe_s(fe))
            }
            Op::Handle { p, fl, steps, fe } => {
                let st: Vec<String> = steps
                    .iter()
                    .map(|s| match s {
                        Step::Seek { whence, off } => format!(
                            "seek{}{}{}",
                            whence,
                            if *off < 0 { "-" } else { "+" },
                            bucket(off.unsigned_abs())
                        ),
                        Step::Read { n } => format!("rd{}", bucket(*n as u64)),
                        Step::Write { n, .. } => format!("wr{}", bucket(*n as u64)),
                        Step::ReadAt { off, n } => {
                            format!("rdat{}:{}", bucket(*off), bucket(*n as u64))
                        }
                        Step::WriteAt { off, n, .. } => {
                            format!("wrat{}:{}", bucket(*off), bucket(*n as u64))
                        }
                        Step::SetLen { len } => format!("len={}", bucket(*len)),
                        Step::SyncAll => "fsync".into(),
                        Step::SyncData => "fdsync".into(),
                        Step::Len => "len?".into(),
                        Step::Rename { .. } => "rename-while-open".into(),
                    })
                    .collect();
                format!(
                    "handle({},{},[{}]){}",
                    canon_path(p),
                    fl.code(),
                    st.join(","),
                    fe_s(fe)
                )
            }
            Op::SetLen { p, len, fe } => {
                format!("set_len({},{}){}", canon_path(p), bucket(*len), fe_s(fe))
            }
            Op::Rename { a, b, fe } => {
                let ca = canon_path(a);
                let cb = canon_path(b);
                format!("rename({ca},{cb}){}", fe_s(fe))
            }
            Op::SyncAll { p, fe }
            | Op::SyncData { p, fe }
            | Op::SyncDir { p, fe }
            | Op::RemoveFile { p, fe }
            | Op::CreateDir { p, fe }
            | Op::CreateDirAll { p, fe }
            | Op::RemoveDir { p, fe }
            | Op::RemoveDirAll { p, fe }
            | Op::ReadDir { p, fe }
            | Op::Metadata { p, fe } => format!("{}({}){}", op.kind(), canon_path(p), fe_s(fe)),
            Op::Advance { .. } => "advance".to_string(),
            Op::Crash => "crash".to_string(),
        };
        parts.push(s);
    }
    parts.join(";")
}
