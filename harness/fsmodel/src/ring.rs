//! io_uring ring scripts (C18): action alphabet, JSON form, canonical text,
//! generator, and the reference model of rings (exactly-once, latency
//! window, cancel semantics, results/effects equal to the sync file API).
//!
//! The model is written from the property text: an entry exists from its
//! submission until its CQE is yielded; its file-system effect happens at the
//! moment the CQE is yielded and is computed on the POSIX reference tree.

use crate::durable::Durable;
use crate::model::Node;
use crate::ops::payload;
use crate::real::{Cfg, Lat};
use serde_json::{json, Value};
use std::collections::{BTreeMap, BTreeSet, VecDeque};
use vcore::Rng;

pub const ECANCELED: i32 = -125;
pub const ENOENT: i32 = -2;
pub const EINVAL: i32 = -22;
pub const EBADF: i32 = -9;

/// Bit of `RAct::Push::flag`: the SQE goes through the file's second,
/// O_DIRECT handle (the low four bits select the IOSQE flag).
pub const DIRECT: u8 = 16;

/// zero-length operation submitted with a NULL buffer pointer (directed,
/// child-process scenarios only)
pub const NULLPTR: u8 = 32;
/// through a handle opened read-only / write-only
pub const RDONLY: u8 = 64;
pub const WRONLY: u8 = 128;

pub fn is_direct(flag: u8) -> bool {
    flag & DIRECT != 0
}

pub fn sqe_flag(flag: u8) -> u8 {
    flag & 15
}

#[derive(Clone, Debug, PartialEq)]
pub enum SqKind {
    Read { file: usize, off: u64, n: u32 },
    Write { file: usize, off: u64, n: u32, key: u8 },
    Fsync { file: usize },
    Cancel { target: u64 },
}

#[derive(Clone, Debug, PartialEq)]
pub enum RAct {
    /// flag: 0 = none, 1 = ASYNC (accepted), 2.. = an unsupported IOSQE flag
    Push { ring: usize, ud: u64, kind: SqKind, flag: u8 },
    Submit { ring: usize },
    Advance { ns: u64 },
    /// cq.sync(); iterate at most `max` entries (None = until exhausted)
    Drain { ring: usize, max: Option<u32> },
    CloseFile { file: usize },
    ReopenFile { file: usize },
    /// write through the synchronous std shim (ordering of effects)
    StdWrite { file: usize, off: u64, n: u32, key: u8 },
    /// host crash (Fs::crash + IoUringHostState::crash), then "bounce":
    /// files reopened, fresh rings; the old ring objects keep being drained
    Crash,
}

#[derive(Clone, Debug, PartialEq)]
pub struct Script {
    pub cfg: Cfg,
    pub depths: Vec<u32>,
    pub nfiles: usize,
    pub acts: Vec<RAct>,
}

pub fn file_path(i: usize) -> String {
    format!("/f{i}")
}

pub fn initial_content(i: usize) -> Vec<u8> {
    payload(10 + i as u8 * 3, 6 + 3 * i as u32)
}

fn kind_json(k: &SqKind) -> Value {
    match k {
        SqKind::Read { file, off, n } => json!({"k":"read","file":file,"off":off,"n":n}),
        SqKind::Write { file, off, n, key } => {
            json!({"k":"write","file":file,"off":off,"n":n,"key":key})
        }
        SqKind::Fsync { file } => json!({"k":"fsync","file":file}),
        SqKind::Cancel { target } => json!({"k":"cancel","target":target}),
    }
}

fn kind_parse(v: &Value) -> Option<SqKind> {
    let u = |k: &str| v[k].as_u64().unwrap_or(0);
    Some(match v["k"].as_str()? {
        "read" => SqKind::Read {
            file: u("file") as usize,
            off: u("off"),
            n: u("n") as u32,
        },
        "write" => SqKind::Write {
            file: u("file") as usize,
            off: u("off"),
            n: u("n") as u32,
            key: u("key") as u8,
        },
        "fsync" => SqKind::Fsync {
            file: u("file") as usize,
        },
        "cancel" => SqKind::Cancel { target: u("target") },
        _ => return None,
    })
}

impl RAct {
    pub fn to_json(&self) -> Value {
        match self {
            RAct::Push { ring, ud, kind, flag } => {
                json!({"a":"push","ring":ring,"ud":ud,"sqe":kind_json(kind),"flag":flag})
            }
            RAct::Submit { ring } => json!({"a":"submit","ring":ring}),
            RAct::Advance { ns } => json!({"a":"advance","ns":ns}),
            RAct::Drain { ring, max } => json!({"a":"drain","ring":ring,"max":max}),
            RAct::CloseFile { file } => json!({"a":"close","file":file}),
            RAct::ReopenFile { file } => json!({"a":"reopen","file":file}),
            RAct::StdWrite { file, off, n, key } => {
                json!({"a":"std_write","file":file,"off":off,"n":n,"key":key})
            }
            RAct::Crash => json!({"a":"crash"}),
        }
    }
    pub fn from_json(v: &Value) -> Option<RAct> {
        let u = |k: &str| v[k].as_u64().unwrap_or(0);
        Some(match v["a"].as_str()? {
            "push" => RAct::Push {
                ring: u("ring") as usize,
                ud: u("ud"),
                kind: kind_parse(&v["sqe"])?,
                flag: u("flag") as u8,
            },
            "submit" => RAct::Submit {
                ring: u("ring") as usize,
            },
            "advance" => RAct::Advance { ns: u("ns") },
            "drain" => RAct::Drain {
                ring: u("ring") as usize,
                max: v["max"].as_u64().map(|m| m as u32),
            },
            "close" => RAct::CloseFile {
                file: u("file") as usize,
            },
            "reopen" => RAct::ReopenFile {
                file: u("file") as usize,
            },
            "std_write" => RAct::StdWrite {
                file: u("file") as usize,
                off: u("off"),
                n: u("n") as u32,
                key: u("key") as u8,
            },
            "crash" => RAct::Crash,
            _ => return None,
        })
    }
}

impl Script {
    pub fn to_json(&self) -> Value {
        json!({
            "cfg": self.cfg.to_json(),
            "depths": self.depths,
            "nfiles": self.nfiles,
            "acts": self.acts.iter().map(|a| a.to_json()).collect::<Vec<_>>(),
        })
    }
    pub fn from_json(v: &Value) -> Script {
        Script {
            cfg: Cfg::from_json(&v["cfg"]),
            depths: v["depths"]
                .as_array()
                .map(|a| a.iter().map(|d| d.as_u64().unwrap_or(1) as u32).collect())
                .unwrap_or_else(|| vec![4]),
            nfiles: v["nfiles"].as_u64().unwrap_or(1) as usize,
            acts: v["acts"]
                .as_array()
                .map(|a| a.iter().filter_map(RAct::from_json).collect())
                .unwrap_or_default(),
        }
    }

    /// Canonical text: user_data renamed in order of first use, sizes and
    /// durations bucketed relative to the configured latency.
    pub fn canonical(&self) -> String {
        let mut uds: Vec<u64> = vec![];
        let mut ud = |u: u64| -> String {
            let i = match uds.iter().position(|x| *x == u) {
                Some(i) => i,
                None => {
                    uds.push(u);
                    uds.len() - 1
                }
            };
            format!("u{i}")
        };
        let b = |n: u64| match n {
            0 => "0",
            1 => "1",
            2..=7 => "s",
            8..=63 => "m",
            _ => "l",
        };
        let (lmin, lmax) = (
            self.cfg.lat.min().as_nanos() as u64,
            self.cfg.lat.max().as_nanos() as u64,
        );
        let tb = |ns: u64| {
            if ns == 0 {
                "0"
            } else if ns < lmin {
                "<min"
            } else if ns < lmax {
                "<max"
            } else {
                ">=max"
            }
        };
        let mut parts = vec![];
        for a in &self.acts {
            parts.push(match a {
                RAct::Push { ring, ud: u, kind, flag } => {
                    let k = match kind {
                        SqKind::Read { file, off, n } => {
                            format!("read(f{file},{},{})", b(*off), b(*n as u64))
                        }
                        SqKind::Write { file, off, n, .. } => {
                            format!("write(f{file},{},{})", b(*off), b(*n as u64))
                        }
                        SqKind::Fsync { file } => format!("fsync(f{file})"),
                        SqKind::Cancel { target } => format!("cancel({})", ud(*target)),
                    };
                    let fl = match sqe_flag(*flag) {
                        0 => "",
                        1 => "+async",
                        _ => "+badflag",
                    };
                    let d = format!(
                        "{}{}{}{}",
                        if is_direct(*flag) { "+direct" } else { "" },
                        if flag & NULLPTR != 0 { "+nullptr" } else { "" },
                        if flag & RDONLY != 0 { "+rdonly" } else { "" },
                        if flag & WRONLY != 0 { "+wronly" } else { "" }
                    );
                    format!("push(r{ring},{},{k}{fl}{d})", ud(*u))
                }
                RAct::Submit { ring } => format!("submit(r{ring})"),
                RAct::Advance { ns } => format!("adv({})", tb(*ns)),
                RAct::Drain { ring, max } => match max {
                    None => format!("drain(r{ring})"),
                    Some(m) => format!("drain(r{ring},{m})"),
                },
                RAct::CloseFile { file } => format!("close(f{file})"),
                RAct::ReopenFile { file } => format!("reopen(f{file})"),
                RAct::StdWrite { file, off, n, .. } => {
                    format!("std_write(f{file},{},{})", b(*off), b(*n as u64))
                }
                RAct::Crash => "crash".into(),
            });
        }
        let lat = match self.cfg.lat {
            Lat::None => "lat0",
            Lat::Fixed(_) => "latF",
            Lat::Range(..) => "latR",
        };
        format!(
            "{lat}{}{}{}|d{:?}|{}",
            if self.cfg.page_cache { "+pc" } else { "" },
            if self.cfg.capacity.is_some() { "+cap" } else { "" },
            if self.cfg.dio_align.is_some() { "+dio" } else { "" },
            self.depths,
            parts.join(";")
        )
    }
}

// ---------------------------------------------------------------------------
// generator

pub fn gen_script(rng: &mut Rng, max_acts: usize, crashes: bool) -> Script {
    let lat = *rng.pick(&[
        Lat::None,
        Lat::Fixed(300),
        Lat::Fixed(2000),
        Lat::Range(100, 900),
        Lat::Range(50, 5000),
    ]);
    let mut cfg = Cfg {
        sync_prob: 0.0,
        block: None,
        lat,
        page_cache: rng.chance(0.35),
        fs_seed: rng.next_u64(),
        capacity: None,
        dio_align: None,
        rw_modes: false,
        io_err: 0.0,
    };
    let nrings = rng.range(1, 3) as usize;
    let depths: Vec<u32> = (0..nrings).map(|_| *rng.pick(&[1u32, 2, 4, 8])).collect();
    let nfiles = rng.range(1, 3) as usize;
    if rng.chance(0.3) {
        // a nearly full disk: the initial files plus a little slack, so that
        // ring writes (in particular writes past EOF) run into ENOSPC
        let used: u64 = (0..nfiles).map(|i| initial_content(i).len() as u64).sum();
        cfg.capacity = Some(used + *rng.pick(&[2u64, 6, 12, 24, 48]));
    }
    // every file also gets an O_DIRECT handle (small alignment so that the
    // small files of these scripts can be addressed block-wise)
    if rng.chance(0.4) {
        cfg.dio_align = Some(8);
    }
    let dio = cfg.dio_align;
    // every file also gets a read-only and a write-only handle
    if rng.chance(0.4) {
        cfg.rw_modes = true;
    }
    let modes = cfg.rw_modes;
    let n = rng.range(6, max_acts as u64) as usize;
    let (lmin, lmax) = (lat.min().as_nanos() as u64, lat.max().as_nanos() as u64);
    let mut acts = vec![];
    let mut next_ud = 1u64;
    // what the generator believes is where (only to pick plausible targets)
    let mut known: Vec<u64> = vec![];
    let mut sq_len: Vec<u32> = vec![0; nrings];
    let mut burst: Option<(usize, u32)> = None;
    while acts.len() < n {
        if let Some((ring, left)) = burst {
            // full-queue burst: keep pushing on one ring
            burst = if left > 1 { Some((ring, left - 1)) } else { None };
            let ud = next_ud;
            next_ud += 1;
            known.push(ud);
            sq_len[ring] = (sq_len[ring] + 1).min(depths[ring]);
            acts.push(RAct::Push {
                ring,
                ud,
                kind: gen_kind(rng, nfiles, &known),
                flag: 0,
            });
            if let Some(RAct::Push { kind, flag, .. }) = acts.last_mut() {
                directify(rng, dio, kind, flag);
                modeify(rng, modes, kind, flag);
            }
            continue;
        }
        let ring = rng.usize_below(nrings);
        let full = sq_len[ring] >= depths[ring];
        let roll = if full && rng.chance(0.8) {
            // queue full: mostly submit, sometimes push anyway (PushError path)
            50
        } else {
            rng.below(100)
        };
        match roll {
            0..=41 => {
                let ud = next_ud;
                next_ud += 1;
                let kind = gen_kind(rng, nfiles, &known);
                if !full {
                    known.push(ud);
                    sq_len[ring] += 1;
                }
                let mut flag = match rng.below(25) {
                    0 => 1,
                    1 => *rng.pick(&[2u8, 3, 4, 5, 6]),
                    _ => 0,
                };
                let mut kind = kind;
                directify(rng, dio, &mut kind, &mut flag);
                modeify(rng, modes, &kind, &mut flag);
                acts.push(RAct::Push { ring, ud, kind, flag });
            }
            42..=43 => {
                burst = Some((ring, depths[ring] + rng.range(0, 2) as u32));
            }
            44..=62 => {
                sq_len[ring] = 0;
                acts.push(RAct::Submit { ring });
            }
            63..=76 => {
                let ns = match rng.below(6) {
                    0 => 0,
                    1 => lmin / 2,
                    2 => lmin.saturating_sub(1),
                    3 => lmin,
                    4 => lmax,
                    _ => lmax * 2 + 1000,
                };
                acts.push(RAct::Advance { ns });
            }
            77..=93 => {
                let max = if rng.chance(0.6) {
                    None
                } else {
                    Some(rng.range(0, 3) as u32)
                };
                acts.push(RAct::Drain { ring, max });
            }
            94 => acts.push(RAct::CloseFile {
                file: rng.usize_below(nfiles),
            }),
            95 => acts.push(RAct::ReopenFile {
                file: rng.usize_below(nfiles),
            }),
            96..=98 => acts.push(RAct::StdWrite {
                file: rng.usize_below(nfiles),
                off: rng.below(12),
                n: rng.range(1, 8) as u32,
                key: rng.below(26) as u8,
            }),
            _ => {
                if crashes && rng.chance(0.7) {
                    acts.push(RAct::Crash);
                    sq_len.iter_mut().for_each(|x| *x = 0);
                }
            }
        }
    }
    Script {
        cfg,
        depths,
        nfiles,
        acts,
    }
}

/// With O_DIRECT handles configured: send some reads / writes / fsyncs
/// through the direct handle, mostly block aligned (sometimes not: -EINVAL).
fn directify(rng: &mut Rng, dio: Option<u64>, kind: &mut SqKind, flag: &mut u8) {
    let Some(a) = dio else { return };
    if matches!(kind, SqKind::Cancel { .. }) || !rng.chance(0.35) {
        return;
    }
    *flag |= DIRECT;
    if rng.chance(0.85) {
        match kind {
            SqKind::Read { off, n, .. } | SqKind::Write { off, n, .. } => {
                *off = a * rng.below(3);
                *n = (a * rng.range(1, 2)) as u32;
            }
            _ => {}
        }
    }
}

/// With access-mode handles configured: send some SQEs through the read-only
/// or the write-only handle of the file (both matching and mismatching the op).
fn modeify(rng: &mut Rng, modes: bool, kind: &SqKind, flag: &mut u8) {
    if !modes || is_direct(*flag) || matches!(kind, SqKind::Cancel { .. }) || !rng.chance(0.3) {
        return;
    }
    *flag |= if rng.coin() { RDONLY } else { WRONLY };
}

fn gen_kind(rng: &mut Rng, nfiles: usize, known: &[u64]) -> SqKind {
    let file = rng.usize_below(nfiles);
    match rng.below(100) {
        0..=34 => SqKind::Read {
            file,
            off: *rng.pick(&[0u64, 0, 1, 3, 5, 9, 30]),
            n: *rng.pick(&[0u32, 1, 4, 8, 16, 40]),
        },
        35..=69 => SqKind::Write {
            file,
            off: *rng.pick(&[0u64, 0, 2, 4, 7, 12, 20]),
            n: *rng.pick(&[0u32, 1, 2, 5, 8, 16]),
            key: rng.below(26) as u8,
        },
        70..=79 => SqKind::Fsync { file },
        _ => SqKind::Cancel {
            target: if !known.is_empty() && rng.chance(0.9) {
                // mostly recent entries
                let k = known.len();
                known[k - 1 - rng.usize_below(k.min(4))]
            } else {
                9_000 + rng.below(5)
            },
        },
    }
}

// ---------------------------------------------------------------------------
// ring model

#[derive(Clone, Debug)]
pub struct Entry {
    pub ud: u64,
    pub kind: SqKind,
    pub flag: u8,
    /// fd the SQE carries (generation of the file handle at push time)
    pub fd_gen: Option<u64>,
}

#[derive(Clone, Debug)]
pub struct Inflight {
    pub e: Entry,
    pub submit_ns: u64,
    /// earliest / latest instant at which the CQE may / must be visible
    pub min_ready: u64,
    pub max_ready: u64,
    pub cancelled: bool,
    /// result fixed at submit time (cancel entries, bad flags)
    pub fixed: Option<i32>,
}

#[derive(Clone, Debug, Default)]
pub struct RingM {
    pub depth: u32,
    pub sq: VecDeque<Entry>,
    pub inflight: BTreeMap<u64, Inflight>,
}

pub struct Model {
    pub fs: Durable,
    pub rings: Vec<RingM>,
    /// current generation of each file handle (None = closed)
    pub open_gen: Vec<Option<u64>>,
    /// generation of each file's O_DIRECT handle (None = not open)
    pub direct_gen: Vec<Option<u64>>,
    pub dio_align: Option<u64>,
    /// generation of each file's read-only / write-only handle pair
    pub mode_gen: Vec<Option<u64>>,
    pub next_gen: u64,
    /// user_data lost in a crash: must never complete
    pub dead: BTreeSet<u64>,
    pub now: u64,
    pub lat: Lat,
    pub page_cache: bool,
}

/// What the model expects of a yielded CQE.
pub struct CqeExpect {
    /// acceptable results
    pub results: Vec<i32>,
    /// for reads: expected bytes for the normal result
    pub data: Option<Vec<u8>>,
    pub undetermined_closed: bool,
    /// misaligned O_DIRECT operation: -EINVAL, no effect
    pub misaligned_direct: bool,
    /// refused by the descriptor's access mode
    pub mode_denied: bool,
}

impl Model {
    pub fn new(s: &Script) -> Model {
        Model {
            fs: Durable::new(false, None),
            rings: s
                .depths
                .iter()
                .map(|d| RingM {
                    depth: d.next_power_of_two().max(1),
                    ..Default::default()
                })
                .collect(),
            open_gen: vec![None; s.nfiles],
            direct_gen: vec![None; s.nfiles],
            dio_align: s.cfg.dio_align,
            mode_gen: vec![None; s.nfiles],
            next_gen: 1,
            dead: BTreeSet::new(),
            now: 0,
            lat: s.cfg.lat,
            page_cache: s.cfg.page_cache,
        }
    }

    pub fn open_file(&mut self, i: usize) {
        self.open_gen[i] = Some(self.next_gen);
        self.next_gen += 1;
    }

    pub fn open_direct(&mut self, i: usize) {
        self.direct_gen[i] = Some(self.next_gen);
        self.next_gen += 1;
    }

    pub fn open_modes(&mut self, i: usize) {
        self.mode_gen[i] = Some(self.next_gen);
        self.next_gen += 1;
    }

    pub fn file_content(&self, i: usize) -> Option<Vec<u8>> {
        let ino = self.fs.v.lookup(&file_path(i)).ok()?;
        match &self.fs.v.nodes[&ino] {
            Node::File(c) => Some(c.clone()),
            _ => None,
        }
    }

    /// push: Ok(()) or Err(()) when the queue is full
    pub fn push(&mut self, ring: usize, ud: u64, kind: &SqKind, flag: u8) -> Result<(), ()> {
        let r = &mut self.rings[ring];
        if r.sq.len() as u32 >= r.depth {
            return Err(());
        }
        let fd_gen = match kind {
            SqKind::Read { file, .. } | SqKind::Write { file, .. } | SqKind::Fsync { file } => {
                if is_direct(flag) {
                    self.direct_gen[*file]
                } else if flag & (RDONLY | WRONLY) != 0 {
                    self.mode_gen[*file]
                } else {
                    self.open_gen[*file]
                }
            }
            SqKind::Cancel { .. } => None,
        };
        r.sq.push_back(Entry {
            ud,
            kind: kind.clone(),
            flag,
            fd_gen,
        });
        Ok(())
    }

    /// submit: number of entries accepted
    pub fn submit(&mut self, ring: usize) -> usize {
        let now = self.now;
        let (lmin, lmax) = (
            self.lat.min().as_nanos() as u64,
            self.lat.max().as_nanos() as u64,
        );
        let pc = self.page_cache;
        let r = &mut self.rings[ring];
        let entries: Vec<Entry> = r.sq.drain(..).collect();
        let n = entries.len();
        for e in entries {
            let mut inf = Inflight {
                submit_ns: now,
                min_ready: now + lmin,
                max_ready: now + lmax,
                cancelled: false,
                fixed: None,
                e: e.clone(),
            };
            if sqe_flag(e.flag) >= 2 {
                inf.fixed = Some(EINVAL);
                inf.min_ready = now;
                inf.max_ready = now;
            } else {
                match &e.kind {
                    SqKind::Cancel { target } => {
                        inf.min_ready = now;
                        inf.max_ready = now;
                        if *target != e.ud {
                            if let Some(t) = r.inflight.get_mut(target) {
                                t.cancelled = true;
                                t.min_ready = t.min_ready.min(now);
                                t.max_ready = now;
                                inf.fixed = Some(0);
                            } else {
                                inf.fixed = Some(ENOENT);
                            }
                        } else {
                            inf.fixed = Some(ENOENT);
                        }
                    }
                    SqKind::Read { .. } if pc && !is_direct(e.flag) => {
                        // a buffered read may hit the page cache (100 ns);
                        // an O_DIRECT read bypasses the cache and always
                        // pays the configured latency
                        inf.min_ready = now + lmin.min(100);
                        inf.max_ready = now + lmax.max(100);
                    }
                    _ => {}
                }
            }
            r.inflight.insert(e.ud, inf);
        }
        n
    }

    /// The CQE for `ud` on `ring` is being yielded now: what must it carry?
    /// Applies the effect to the reference tree.
    pub fn complete(&mut self, ring: usize, ud: u64) -> Option<(Inflight, CqeExpect)> {
        let inf = self.rings[ring].inflight.remove(&ud)?;
        let mut exp = CqeExpect {
            results: vec![],
            data: None,
            undetermined_closed: false,
            misaligned_direct: false,
            mode_denied: false,
        };
        if inf.cancelled {
            exp.results = vec![ECANCELED];
            return Some((inf, exp));
        }
        if let Some(f) = inf.fixed {
            exp.results = vec![f];
            return Some((inf, exp));
        }
        let (file, fd_gen) = match &inf.e.kind {
            SqKind::Read { file, .. } | SqKind::Write { file, .. } | SqKind::Fsync { file } => {
                (*file, inf.e.fd_gen)
            }
            SqKind::Cancel { .. } => unreachable!(),
        };
        // the SQE carried a descriptor that was never valid
        let Some(g) = fd_gen else {
            exp.results = vec![EBADF];
            return Some((inf, exp));
        };
        let current = if is_direct(inf.e.flag) {
            self.direct_gen[file]
        } else if inf.e.flag & (RDONLY | WRONLY) != 0 {
            self.mode_gen[file]
        } else {
            self.open_gen[file]
        };
        if current != Some(g) {
            // descriptor closed between push and completion: Linux keeps the
            // open file description alive, the simulation documents EBADF;
            // the property text does not decide — both accepted, the model
            // follows the result (the caller tells us via `apply_closed`)
            exp.undetermined_closed = true;
        }
        let path = file_path(file);
        // access mode of the descriptor: a write through a read-only
        // descriptor / a read through a write-only one fails with EBADF and
        // has no effect (the sync API refuses them too)
        let denied = match &inf.e.kind {
            SqKind::Write { .. } => inf.e.flag & RDONLY != 0,
            SqKind::Read { .. } => inf.e.flag & WRONLY != 0,
            _ => false,
        };
        if denied {
            exp.results = vec![EBADF];
            exp.misaligned_direct = true; // = "error, no effect, not for the twin"
            exp.mode_denied = true;
            return Some((inf, exp));
        }
        if is_direct(inf.e.flag) {
            // O_DIRECT: offset and length must be multiples of the alignment
            // (the harness always supplies an aligned buffer), else EINVAL
            // and no effect — as through the synchronous API
            let a = self.dio_align.unwrap_or(512);
            let misaligned = match &inf.e.kind {
                SqKind::Read { off, n, .. } | SqKind::Write { off, n, .. } => {
                    off % a != 0 || (*n as u64) % a != 0
                }
                _ => false,
            };
            if misaligned {
                exp.results = vec![EINVAL];
                exp.misaligned_direct = true;
                if exp.undetermined_closed {
                    exp.results.push(EBADF);
                }
                return Some((inf, exp));
            }
        }
        match &inf.e.kind {
            SqKind::Read { off, n, .. } => {
                let c = self.file_content(file).unwrap_or_default();
                let start = (*off as usize).min(c.len());
                let end = (start + *n as usize).min(c.len());
                exp.data = Some(c[start..end].to_vec());
                exp.results = vec![(end - start) as i32];
            }
            SqKind::Write { n, .. } => {
                exp.results = vec![*n as i32];
            }
            SqKind::Fsync { .. } => {
                exp.results = vec![0];
            }
            SqKind::Cancel { .. } => unreachable!(),
        }
        if exp.undetermined_closed {
            exp.results.push(EBADF);
        }
        let _ = path;
        Some((inf, exp))
    }

    /// Apply the effect of a normally completed write / fsync.
    pub fn apply_effect(&mut self, inf: &Inflight) {
        match &inf.e.kind {
            SqKind::Write { file, off, n, key } => {
                let op = crate::ops::Op::WriteAt {
                    p: file_path(*file),
                    off: *off,
                    n: *n,
                    key: *key,
                    fe: crate::ops::Fe::Std,
                };
                self.fs.v.apply(&op);
                self.fs.absorb();
            }
            SqKind::Fsync { file } => {
                let op = crate::ops::Op::SyncAll {
                    p: file_path(*file),
                    fe: crate::ops::Fe::Std,
                };
                self.fs.v.apply(&op);
                self.fs.absorb();
            }
            _ => {}
        }
    }

    /// Entries that must be visible at `now` (their latest instant passed).
    pub fn must_be_visible(&self, ring: usize) -> usize {
        self.rings[ring]
            .inflight
            .values()
            .filter(|i| i.max_ready <= self.now)
            .count()
    }

    pub fn crash_rings(&mut self) {
        for r in &mut self.rings {
            for ud in r.inflight.keys() {
                self.dead.insert(*ud);
            }
            for e in &r.sq {
                self.dead.insert(e.ud);
            }
            r.inflight.clear();
            r.sq.clear();
        }
        for g in &mut self.open_gen {
            *g = None;
        }
        for g in &mut self.direct_gen {
            *g = None;
        }
        for g in &mut self.mode_gen {
            *g = None;
        }
    }
}

/// Dense cancel / crash script for the sanitizer phase (buffer discipline).
pub fn gen_san_script(rng: &mut Rng) -> Script {
    let lat = *rng.pick(&[Lat::Fixed(1000), Lat::Range(200, 1500), Lat::None]);
    let cfg = Cfg {
        sync_prob: 0.0,
        block: None,
        lat,
        page_cache: rng.chance(0.3),
        fs_seed: rng.next_u64(),
        capacity: None,
        dio_align: None,
        rw_modes: false,
        io_err: 0.0,
    };
    let nfiles = rng.range(1, 2) as usize;
    let depth = *rng.pick(&[4u32, 8]);
    let lmax = lat.max().as_nanos() as u64;
    let mut acts = vec![];
    let mut ud = 1u64;
    let rounds = rng.range(2, 3);
    for round in 0..=rounds {
        let k = rng.range(2, depth.min(4) as u64);
        let mut batch = vec![];
        for _ in 0..k {
            let file = rng.usize_below(nfiles);
            let kind = if rng.coin() {
                SqKind::Read {
                    file,
                    off: rng.below(6),
                    n: *rng.pick(&[4u32, 8, 16]),
                }
            } else {
                SqKind::Write {
                    file,
                    off: rng.below(8),
                    n: *rng.pick(&[2u32, 5, 8]),
                    key: rng.below(26) as u8,
                }
            };
            acts.push(RAct::Push {
                ring: 0,
                ud,
                kind,
                flag: 0,
            });
            batch.push(ud);
            ud += 1;
        }
        acts.push(RAct::Submit { ring: 0 });
        if round == rounds {
            // crash with the batch in flight, keep draining the dead ring
            acts.push(RAct::Crash);
            acts.push(RAct::Advance { ns: lmax + 1_000_000 });
            acts.push(RAct::Drain { ring: 0, max: None });
            acts.push(RAct::Push {
                ring: 0,
                ud,
                kind: SqKind::Read {
                    file: 0,
                    off: 0,
                    n: 16,
                },
                flag: 0,
            });
            acts.push(RAct::Submit { ring: 0 });
            acts.push(RAct::Advance { ns: lmax + 1 });
            acts.push(RAct::Drain { ring: 0, max: None });
            break;
        }
        // cancel one or two of them
        for _ in 0..rng.range(1, 2) {
            acts.push(RAct::Push {
                ring: 0,
                ud,
                kind: SqKind::Cancel {
                    target: *rng.pick(&batch),
                },
                flag: 0,
            });
            ud += 1;
        }
        acts.push(RAct::Submit { ring: 0 });
        // observe the cancel CQEs first (partial drain), free, keep draining
        acts.push(RAct::Drain {
            ring: 0,
            max: Some(rng.range(1, 2) as u32),
        });
        acts.push(RAct::Advance { ns: lmax / 2 });
        acts.push(RAct::Drain { ring: 0, max: Some(1) });
        acts.push(RAct::Advance { ns: lmax + 1 });
        acts.push(RAct::Drain { ring: 0, max: None });
    }
    Script {
        cfg,
        depths: vec![depth],
        nfiles,
        acts,
    }
}
