//! C07 — after a crash the file system holds exactly what was made durable.
//!
//! Oracle: `durable::Durable` (durable directory entries per directory inode,
//! per-file content as of the last data sync, admissible sets for
//! sync_probability / block_size). A crash is injected after EVERY prefix of
//! every history; histories themselves contain crashes (crash - continue -
//! crash cycles). Two drivers: directly entered `Fs` and `Sim::crash` /
//! `Sim::bounce` with two hosts.

use crate::diff::{self, minimise, signature, Complaint, Stats};
use crate::durable::{CrashStats, Durable};
use crate::gen::{gen_history, GenCfg};
use crate::model::{matches, Obs, Ret};
use crate::ops::{hist_json, hist_parse, universe, Fe, Op};
use crate::real::{Cfg, Direct, Lat};
use crate::simdrv;
use serde_json::{json, Value};
use std::sync::{Arc, Mutex};
use std::time::Duration;
use vcore::{Ctx, Finish, Rng, RunOpts, ScenarioOut};

#[derive(Default)]
pub struct Outcome {
    pub complaint: Option<Complaint>,
    pub discarded: Option<String>,
    pub cs: CrashStats,
    pub crashes: u64,
    pub nontrivial_crashes: u64,
    /// crashes preceded by a data sync through a read-only descriptor of a
    /// file that had unsynced data
    pub ro_sync_crashes: u64,
}

fn add_cs(a: &mut CrashStats, b: &CrashStats) {
    a.asserted_paths += b.asserted_paths;
    a.files_checked += b.files_checked;
    a.durable_files += b.durable_files;
    a.durable_dirs += b.durable_dirs;
    a.rolled_back += b.rolled_back;
    a.maybe_entries += b.maybe_entries;
    a.undetermined += b.undetermined;
    a.admissible_set_sizes += b.admissible_set_sizes;
    a.admissible_sets += b.admissible_sets;
    a.admissible_max = a.admissible_max.max(b.admissible_max);
    a.too_many_candidates += b.too_many_candidates;
    a.adopted_non_base += b.adopted_non_base;
    a.synced_extensions += b.synced_extensions;
}

/// Run one history (with its embedded Crash ops) on a directly driven Fs.
pub fn run_direct(cfg: &Cfg, h: &[Op], st: &mut Stats, sweep_precrash: bool) -> Outcome {
    let uni = universe();
    let mut real = Direct::new(cfg);
    let mut model = Durable::new(cfg.sync_prob > 0.0, cfg.block);
    let mut out = Outcome::default();
    let mut removed = Default::default();
    let mut diverged_at_sync = false;
    let mut ro_sync_dirty = false;
    for (i, op) in h.iter().enumerate() {
        if matches!(op, Op::Crash) {
            diverged_at_sync = false;
            if std::mem::take(&mut ro_sync_dirty) {
                out.ro_sync_crashes += 1;
            }
            real.crash();
            let mut cs = CrashStats::default();
            let mut obs = |p: &str| real.observe(p);
            let c = model.crash(&mut obs, &mut cs);
            out.crashes += 1;
            st.inc("op:crash");
            // non-trivial: something durable beyond the root AND something rolled back
            if cs.durable_files + cs.durable_dirs > 1 && cs.rolled_back > 0 {
                out.nontrivial_crashes += 1;
            }
            add_cs(&mut out.cs, &cs);
            if let Some(c) = c {
                out.complaint = Some(Complaint {
                    class: c.class,
                    at: i,
                    what: format!("crash at #{i}: {}", c.what),
                });
                return out;
            }
            if cs.stop {
                out.discarded = Some("undetermined-entry".into());
                return out;
            }
            continue;
        }
        diff::note_semantics(st, &model.v, op, &mut removed);
        if op.is_ro_sync() {
            if let Op::Handle { p, .. } = op {
                if let Ok(i) = model.v.lookup(p) {
                    if model.files.get(&i).map(|f| !f.log.is_empty()).unwrap_or(false) {
                        ro_sync_dirty = true;
                    }
                }
            }
        }
        let exp = model.v.apply(op);
        model.absorb();
        let ret = real.exec(op);
        if !matches(&exp, &ret) {
            out.discarded = Some(format!("volatile-divergence:ret:{}", op.kind()));
            return out;
        }
        if sweep_precrash && !diverged_at_sync {
            let ms = diff::model_sweep(&model.v, &uni);
            let rs = real.sweep(&uni);
            if diff::sweep_diff(&uni, &ms, &rs).is_some() {
                if synclike(op) {
                    // A data / directory sync changed what is observable: what it
                    // wrote to the durable side is exactly what C07 is about, so
                    // the history is NOT handed to C10 — the next crash judges it
                    // (sweeps are off until then; a return-value mismatch still
                    // discards).
                    diverged_at_sync = true;
                    st.inc("precrash_divergence_at_sync_kept");
                } else {
                    out.discarded = Some("volatile-divergence:state".into());
                    return out;
                }
            }
        }
    }
    st.add("uring_ops", real.uring_ops);
    out
}

/// Operations whose only job is to move state to the durable side.
fn synclike(op: &Op) -> bool {
    op.is_sync()
        || op.is_ro_sync()
        || matches!(op, Op::Handle { steps, .. } if steps.iter().any(|s| matches!(s, crate::ops::Step::SyncAll | crate::ops::Step::SyncData)))
}

fn outcome_class(o: &Outcome) -> Option<&str> {
    o.complaint.as_ref().map(|c| c.class.as_str())
}

fn fails<'a>(cfg: &'a Cfg, class: &str) -> impl FnMut(&[Op]) -> bool + 'a {
    let class = class.to_string();
    move |h: &[Op]| {
        if !matches!(h.last(), Some(Op::Crash)) {
            return false;
        }
        if crate::zones::in_zone(h).is_some() {
            return false;
        }
        let mut st = Stats::default();
        let o = run_direct(cfg, h, &mut st, true);
        outcome_class(&o) == Some(class.as_str())
    }
}

fn report(out: &mut ScenarioOut, cfg: &Cfg, h: &[Op], c: &Complaint, kind: &str) {
    let mut f = fails(cfg, &c.class);
    let start: Vec<Op> = h.to_vec();
    let min = if f(&start) {
        minimise(start, &mut f, 500)
    } else {
        h.to_vec()
    };
    let mut st = Stats::default();
    let what = run_direct(cfg, &min, &mut st, true)
        .complaint
        .map(|c| c.what)
        .unwrap_or_else(|| c.what.clone());
    let cfg_tag = format!(
        "p{}b{}",
        if cfg.sync_prob > 0.0 { "+" } else { "0" },
        cfg.block.map(|b| b.to_string()).unwrap_or("-".into())
    );
    out.violate(
        &c.class,
        format!("{}|{cfg_tag}", signature(&c.class, &min)),
        what,
        json!({"kind":"direct","found_by":kind,"cfg":cfg.to_json(),"history":hist_json(&min),
               "original_len":h.len()}),
    );
}

fn c07_cfg(rng: &mut Rng) -> Cfg {
    let (p, b) = match rng.below(4) {
        0 => (0.0, None),
        1 => (*rng.pick(&[0.15, 0.4, 0.8]), None),
        2 => (0.0, Some(*rng.pick(&[2u64, 4, 8]))),
        _ => (0.3, Some(4)),
    };
    Cfg {
        sync_prob: p,
        block: b,
        lat: *rng.pick(&[Lat::None, Lat::None, Lat::Fixed(200)]),
        page_cache: false,
        fs_seed: rng.next_u64(),
        capacity: None,
        dio_align: None,
        rw_modes: false,
        io_err: 0.0,
    }
}

fn c07_gen(ctx: &Ctx, rng: &mut Rng) -> GenCfg {
    GenCfg {
        len: rng.range(4, ctx.pick(12, 25)) as usize,
        fe_w: *rng.pick(&[[1, 0, 0], [2, 1, 1], [1, 1, 1]]),
        crashes: true,
        sync_heavy: true,
        sync_everywhere: rng.chance(0.3),
        max_write: 16,
        avoid_zones: true,
    }
}

fn absorb_outcome(out: &mut ScenarioOut, o: &Outcome) {
    out.count("crash_points", o.crashes);
    out.count("crash_points_nontrivial", o.nontrivial_crashes);
    out.count("asserted_paths", o.cs.asserted_paths);
    out.count("durable_files_checked", o.cs.durable_files);
    out.count("durable_dirs_checked", o.cs.durable_dirs);
    out.count("mutations_rolled_back", o.cs.rolled_back);
    out.count("maybe_entries_adopted", o.cs.maybe_entries);
    out.count("skipped_undetermined_entries", o.cs.undetermined);
    out.count("admissible_sets", o.cs.admissible_sets);
    out.count("admissible_set_size_total", o.cs.admissible_set_sizes);
    out.count("skipped_too_many_candidates", o.cs.too_many_candidates);
    out.count("adopted_non_base_content", o.cs.adopted_non_base);
    out.count("crash_after_synced_extending_set_len", o.cs.synced_extensions);
    out.count("fsync_through_readonly_fd_then_crash", o.ro_sync_crashes);
    if let Some(d) = &o.discarded {
        out.count(&format!("discarded:{d}"), 1);
    }
}

/// Enumerate a crash after every prefix of `h` (direct driver).
fn every_prefix(
    out: &mut ScenarioOut,
    cfg: &Cfg,
    h: &[Op],
    st: &mut Stats,
    kind: &str,
) -> (u64, u64, u64) {
    let mut nontrivial = 0;
    let mut crashes = 0;
    let mut max_adm = 0;
    for k in 1..=h.len() {
        if matches!(h[k - 1], Op::Crash) {
            continue;
        }
        let mut hp: Vec<Op> = h[..k].to_vec();
        hp.push(Op::Crash);
        let mut st2 = Stats::default();
        let o = run_direct(cfg, &hp, if k == h.len() { st } else { &mut st2 }, true);
        absorb_outcome(out, &o);
        out.count("prefix_runs", 1);
        nontrivial += o.nontrivial_crashes;
        crashes += o.crashes;
        max_adm = max_adm.max(o.cs.admissible_max);
        if let Some(c) = &o.complaint {
            report(out, cfg, &hp, c, kind);
            break;
        }
        if let Some(d) = &o.discarded {
            if std::env::var("FSMODEL_DEBUG").is_ok() && d.starts_with("volatile") {
                eprintln!("DISCARD {d} {} {}", cfg.to_json(), hist_json(&hp));
            }
            // later prefixes share the diverging prefix
            break;
        }
    }
    (crashes, nontrivial, max_adm)
}

fn scenario_direct(ctx: &Ctx, idx: u64) -> ScenarioOut {
    let mut rng = Rng::new(ctx.scenario_seed("direct", idx));
    let gc = c07_gen(ctx, &mut rng);
    let cfg = c07_cfg(&mut rng);
    let (h, rejected) = gen_history(&mut rng, &gc);
    let mut out = ScenarioOut::default();
    crate::gen::count_rejected(&mut out, &rejected);
    let mut st = Stats::default();
    out.count("histories_direct", 1);
    out.count(
        &format!(
            "cfg:sync_prob={},block={}",
            if cfg.sync_prob > 0.0 { "p" } else { "0" },
            if cfg.block.is_some() { "b" } else { "none" }
        ),
        1,
    );
    let (crashes, nontrivial, max_adm) = every_prefix(&mut out, &cfg, &h, &mut st, "direct");
    for (k, v) in &st.c {
        out.count(k, *v);
    }
    out.saw("admissible_set_max", format!("{max_adm}"));
    out.nontrivial = nontrivial > 0;
    out.digest = vcore::digest_str(&format!(
        "{}|{}|{:?}",
        crate::ops::canonical(&h),
        cfg.sync_prob > 0.0,
        cfg.block
    ));
    out.sample = Some(json!({"kind":"direct","cfg":cfg.to_json(),"history":hist_json(&h[..h.len().min(14)]),
        "len":h.len(),"crash_points":crashes,"nontrivial_crash_points":nontrivial}));
    out
}

/// Structured "stage and publish" histories: a file is created in a staging
/// directory, written, data-synced, renamed (within the directory or into
/// another one, onto nothing or onto an existing file) while its OWN directory
/// entry may never have been made durable, then the destination and / or the
/// source directory are synced in either order. Together with the crash after
/// every prefix this pins down "a file is present iff its directory entry was
/// made durable by syncing its parent directory" for renamed entries.
fn gen_publish(rng: &mut Rng) -> (Vec<Op>, Vec<&'static str>) {
    let fe = |rng: &mut Rng| *rng.pick(&[Fe::Std, Fe::Std, Fe::Tokio]);
    let mut tags = vec![];
    let src_dir = *rng.pick(&["/a", "/d", "/"]);
    let cross = rng.chance(0.65);
    let dst_dir = if cross {
        *rng.pick(&["/b", "/a", "/d", "/"].iter().filter(|d| **d != src_dir).copied().collect::<Vec<_>>())
    } else {
        src_dir
    };
    tags.push(if cross { "publish:cross_dir" } else { "publish:same_dir" });
    let join = |d: &str, n: &str| if d == "/" { format!("/{n}") } else { format!("{d}/{n}") };
    let src = join(src_dir, "a");
    let dst = join(dst_dir, "b");
    let mut h = vec![];
    for d in [src_dir, dst_dir] {
        if d != "/" && !h.iter().any(|o| matches!(o, Op::CreateDir { p, .. } if p == d)) {
            h.push(Op::CreateDir { p: d.into(), fe: Fe::Std });
        }
    }
    h.push(Op::SyncDir { p: "/".into(), fe: Fe::Std });
    if rng.chance(0.6) {
        for d in [src_dir, dst_dir] {
            h.push(Op::SyncDir { p: d.into(), fe: Fe::Std });
        }
    }
    // an existing file under the destination name (replaced by the rename)
    if rng.chance(0.4) {
        tags.push("publish:onto_existing");
        h.push(Op::WriteAll { p: dst.clone(), n: rng.range(1, 9) as u32, key: rng.below(26) as u8, fe: fe(rng) });
        h.push(Op::SyncAll { p: dst.clone(), fe: fe(rng) });
        if rng.chance(0.7) {
            h.push(Op::SyncDir { p: dst_dir.into(), fe: Fe::Std });
        } else {
            tags.push("publish:existing_entry_not_durable");
        }
    }
    // stage
    h.push(Op::WriteAll { p: src.clone(), n: rng.range(1, 12) as u32, key: rng.below(26) as u8, fe: fe(rng) });
    if rng.chance(0.4) {
        h.push(Op::WriteAt { p: src.clone(), off: rng.below(6), n: rng.range(1, 6) as u32, key: rng.below(26) as u8, fe: fe(rng) });
    }
    h.push(match rng.below(3) {
        0 => Op::SyncData { p: src.clone(), fe: fe(rng) },
        1 => Op::SyncAll { p: src.clone(), fe: Fe::Uring },
        _ => Op::SyncAll { p: src.clone(), fe: fe(rng) },
    });
    if rng.chance(0.3) {
        tags.push("publish:source_entry_durable");
        h.push(Op::SyncDir { p: src_dir.into(), fe: Fe::Std });
    } else {
        tags.push("publish:source_entry_never_durable");
    }
    // publish
    h.push(Op::Rename { a: src.clone(), b: dst.clone(), fe: fe(rng) });
    let order = rng.below(5);
    let (first, second): (Option<&str>, Option<&str>) = match order {
        0 => (Some(dst_dir), None),
        1 => (Some(dst_dir), Some(src_dir)),
        2 => (Some(src_dir), Some(dst_dir)),
        3 => (Some(src_dir), None),
        _ => (Some(dst_dir), Some(dst_dir)),
    };
    tags.push(match order {
        0 => "publish:sync_dst_only",
        1 => "publish:sync_dst_then_src",
        2 => "publish:sync_src_then_dst",
        3 => "publish:sync_src_only",
        _ => "publish:sync_dst_twice",
    });
    if let Some(d) = first {
        h.push(Op::SyncDir { p: d.into(), fe: Fe::Std });
    }
    if rng.chance(0.3) {
        // keep using the published file once its rename has been flushed
        h.push(Op::WriteAt { p: dst.clone(), off: rng.below(4), n: rng.range(1, 5) as u32, key: rng.below(26) as u8, fe: fe(rng) });
        if rng.coin() {
            h.push(Op::SyncAll { p: dst.clone(), fe: fe(rng) });
        }
    }
    if let Some(d) = second {
        h.push(Op::SyncDir { p: d.into(), fe: Fe::Std });
    }
    if rng.chance(0.3) {
        // crash - continue - crash: stage a second generation
        h.push(Op::Crash);
        h.push(Op::WriteAll { p: src.clone(), n: rng.range(1, 8) as u32, key: rng.below(26) as u8, fe: fe(rng) });
        h.push(Op::SyncAll { p: src.clone(), fe: fe(rng) });
        h.push(Op::Rename { a: src, b: dst, fe: fe(rng) });
        h.push(Op::SyncDir { p: dst_dir.into(), fe: Fe::Std });
    }
    (h, tags)
}

/// Structured "preallocate / sync through another descriptor" histories: a
/// file is extended by set_len (Op::SetLen or a set_len step on a handle,
/// directly or shrink-then-grow) without a write reaching the new end, and / or
/// written through one handle, then data-synced through sync_all, sync_data,
/// an io_uring fsync or a READ-ONLY descriptor (std / tokio / ring), its entry
/// is made durable, and the crash after every prefix follows; a second
/// generation after a crash repeats it on the survivor.
fn gen_extend(rng: &mut Rng) -> Vec<Op> {
    use crate::ops::{Flags, Step};
    let fe = |rng: &mut Rng| *rng.pick(&[Fe::Std, Fe::Std, Fe::Tokio]);
    let p: String = (*rng.pick(&["/a", "/b", "/d/a"])).into();
    let mut h = vec![];
    if p.starts_with("/d/") {
        h.push(Op::CreateDir { p: "/d".into(), fe: Fe::Std });
        h.push(Op::SyncDir { p: "/".into(), fe: Fe::Std });
    }
    let parent = crate::ops::parent_of(&p);
    let rounds = if rng.chance(0.35) { 2 } else { 1 };
    for round in 0..rounds {
        if round == 0 {
            h.push(Op::WriteAll { p: p.clone(), n: rng.range(0, 9) as u32, key: rng.below(26) as u8, fe: fe(rng) });
            if rng.coin() {
                h.push(Op::SyncDir { p: parent.clone(), fe: Fe::Std });
            }
        }
        // data ops
        if rng.chance(0.5) {
            h.push(Op::WriteAt { p: p.clone(), off: rng.below(6), n: rng.range(1, 6) as u32, key: rng.below(26) as u8, fe: *rng.pick(&[Fe::Std, Fe::Tokio, Fe::Uring]) });
        }
        let grow = *rng.pick(&[5u64, 8, 13, 21]);
        match rng.below(4) {
            0 => h.push(Op::SetLen { p: p.clone(), len: grow, fe: fe(rng) }),
            1 => h.push(Op::Handle { p: p.clone(), fl: Flags::parse("rw"), steps: vec![Step::SetLen { len: grow }], fe: fe(rng) }),
            2 => {
                // shrink, then grow past the old end
                h.push(Op::SetLen { p: p.clone(), len: rng.below(3), fe: fe(rng) });
                h.push(Op::SetLen { p: p.clone(), len: grow, fe: fe(rng) });
            }
            _ => {} // no extension: plain write + sync through the chosen descriptor
        }
        // data sync
        h.push(match rng.below(6) {
            0 => Op::SyncAll { p: p.clone(), fe: fe(rng) },
            1 => Op::SyncData { p: p.clone(), fe: fe(rng) },
            2 => Op::SyncAll { p: p.clone(), fe: Fe::Uring },
            3 => Op::Handle { p: p.clone(), fl: Flags::parse("r"), steps: vec![Step::SyncAll], fe: Fe::Uring },
            4 => Op::Handle { p: p.clone(), fl: Flags::parse("r"), steps: vec![Step::SyncData], fe: fe(rng) },
            _ => Op::Handle { p: p.clone(), fl: Flags::parse("r"), steps: vec![Step::SyncAll], fe: fe(rng) },
        });
        if rng.chance(0.8) {
            h.push(Op::SyncDir { p: parent.clone(), fe: Fe::Std });
        }
        if rng.chance(0.3) {
            // unsynced tail that the crash must roll back
            h.push(Op::WriteAt { p: p.clone(), off: 0, n: 2, key: rng.below(26) as u8, fe: Fe::Std });
        }
        if round + 1 < rounds {
            h.push(Op::Crash);
        }
    }
    h
}

fn scenario_extend(ctx: &Ctx, idx: u64) -> ScenarioOut {
    let mut rng = Rng::new(ctx.scenario_seed("extend", idx));
    let cfg = c07_cfg(&mut rng);
    let h = gen_extend(&mut rng);
    let mut out = ScenarioOut::default();
    let mut st = Stats::default();
    out.count("histories_extend", 1);
    if let Some(z) = crate::zones::in_zone(&h) {
        out.count(&format!("zone_rejected:{z}"), 1);
        out.discarded = Some("zone".into());
        return out;
    }
    let (crashes, nontrivial, _max) = every_prefix(&mut out, &cfg, &h, &mut st, "extend");
    for (k, v) in &st.c {
        out.count(k, *v);
    }
    out.nontrivial = nontrivial > 0;
    out.digest = vcore::digest_str(&format!(
        "extend|{}|{}|{:?}",
        crate::ops::canonical(&h),
        cfg.sync_prob > 0.0,
        cfg.block
    ));
    out.sample = Some(json!({"kind":"extend","cfg":cfg.to_json(),"history":hist_json(&h),
        "crash_points":crashes,"nontrivial_crash_points":nontrivial}));
    out
}

fn scenario_publish(ctx: &Ctx, idx: u64) -> ScenarioOut {
    let mut rng = Rng::new(ctx.scenario_seed("publish", idx));
    let cfg = c07_cfg(&mut rng);
    let (h, tags) = gen_publish(&mut rng);
    let mut out = ScenarioOut::default();
    let mut st = Stats::default();
    out.count("histories_publish", 1);
    for t in &tags {
        out.count(t, 1);
    }
    if let Some(z) = crate::zones::in_zone(&h) {
        // stays a counted exclusion, never silently dropped
        out.count(&format!("zone_rejected:{z}"), 1);
        out.discarded = Some("zone".into());
        return out;
    }
    let (crashes, nontrivial, _max) = every_prefix(&mut out, &cfg, &h, &mut st, "publish");
    for (k, v) in &st.c {
        out.count(k, *v);
    }
    out.nontrivial = nontrivial > 0;
    out.digest = vcore::digest_str(&format!(
        "publish|{}|{}|{:?}",
        crate::ops::canonical(&h),
        cfg.sync_prob > 0.0,
        cfg.block
    ));
    out.sample = Some(json!({"kind":"publish","cfg":cfg.to_json(),"tags":tags,"history":hist_json(&h),
        "crash_points":crashes,"nontrivial_crash_points":nontrivial}));
    out
}

/// Reduced alphabet for the exhaustive small-scope enumeration.
fn alphabet() -> Vec<Op> {
    let s = Fe::Std;
    vec![
        Op::WriteAll { p: "/a".into(), n: 3, key: 0, fe: s },
        Op::WriteAt { p: "/a".into(), off: 1, n: 5, key: 7, fe: s },
        Op::SetLen { p: "/a".into(), len: 1, fe: s },
        Op::SyncAll { p: "/a".into(), fe: s },
        Op::SyncDir { p: "/".into(), fe: s },
        Op::RemoveFile { p: "/a".into(), fe: s },
        Op::CreateDir { p: "/d".into(), fe: s },
        Op::WriteAll { p: "/d/a".into(), n: 2, key: 3, fe: s },
        Op::SyncData { p: "/d/a".into(), fe: s },
        Op::SyncDir { p: "/d".into(), fe: s },
        Op::RemoveDir { p: "/d".into(), fe: s },
        Op::Rename { a: "/a".into(), b: "/b".into(), fe: s },
        Op::Crash,
    ]
}

fn scenario_exhaustive(ctx: &Ctx, idx: u64, len: usize) -> ScenarioOut {
    let al = alphabet();
    let mut out = ScenarioOut::default();
    let mut h = vec![];
    let mut x = idx as usize;
    for _ in 0..len {
        h.push(al[x % al.len()].clone());
        x /= al.len();
    }
    out.count("histories_exhaustive", 1);
    if let Some(z) = crate::zones::in_zone(&h) {
        out.count(&format!("zone_rejected:{z}"), 1);
        out.discarded = Some("zone".into());
        return out;
    }
    let mut st = Stats::default();
    let mut nontrivial = 0;
    for cfg in [
        Cfg::default(),
        Cfg {
            block: Some(2),
            fs_seed: ctx.scenario_seed("exh", idx),
            ..Cfg::default()
        },
    ] {
        let (_c, n, _m) = every_prefix(&mut out, &cfg, &h, &mut st, "exhaustive");
        nontrivial += n;
    }
    for (k, v) in &st.c {
        out.count(k, *v);
    }
    out.nontrivial = nontrivial > 0;
    out.digest = vcore::digest_str(&format!("exh|{}", crate::ops::canonical(&h)));
    out.sample = Some(json!({"kind":"exhaustive","history":hist_json(&h)}));
    out
}

// ---------------------------------------------------------------------------
// in-Sim driver

#[derive(Clone, Debug)]
enum Rec {
    Op(Ret, Vec<Obs>),
    Post(Vec<Obs>),
}

struct Shared {
    phase: usize,
    recs: Vec<Rec>,
    done: Vec<bool>,
}

fn segments(h: &[Op]) -> Vec<Vec<Op>> {
    let mut segs = vec![vec![]];
    for op in h {
        if matches!(op, Op::Crash) {
            segs.push(vec![]);
        } else {
            segs.last_mut().unwrap().push(op.clone());
        }
    }
    segs
}

/// Evaluate the recorded observations of one host against the durable model.
fn judge(cfg: &Cfg, h: &[Op], recs: &[Rec], st: &mut Stats, who: &str) -> Outcome {
    let uni = universe();
    let mut model = Durable::new(cfg.sync_prob > 0.0, cfg.block);
    let mut out = Outcome::default();
    let mut it = recs.iter();
    let mut removed = Default::default();
    let mut diverged_at_sync = false;
    let mut ro_sync_dirty = false;
    for (i, op) in h.iter().enumerate() {
        if matches!(op, Op::Crash) {
            diverged_at_sync = false;
            if std::mem::take(&mut ro_sync_dirty) {
                out.ro_sync_crashes += 1;
            }
            let Some(Rec::Post(sw)) = it.next() else {
                out.discarded = Some("sim-incomplete".into());
                return out;
            };
            let mut cs = CrashStats::default();
            let mut obs = |p: &str| match uni.iter().position(|u| u == p) {
                Some(k) => sw[k + 1].clone(),
                None => sw[0].clone(), // "/"
            };
            let c = model.crash(&mut obs, &mut cs);
            out.crashes += 1;
            st.inc("op:crash");
            st.inc("sim_crashes");
            if cs.durable_files + cs.durable_dirs > 1 && cs.rolled_back > 0 {
                out.nontrivial_crashes += 1;
            }
            add_cs(&mut out.cs, &cs);
            if let Some(c) = c {
                out.complaint = Some(Complaint {
                    class: c.class,
                    at: i,
                    what: format!("in-sim {who} crash at #{i}: {}", c.what),
                });
                return out;
            }
            if cs.stop {
                out.discarded = Some("undetermined-entry".into());
                return out;
            }
            continue;
        }
        let Some(Rec::Op(ret, sw)) = it.next() else {
            out.discarded = Some("sim-incomplete".into());
            return out;
        };
        diff::note_semantics(st, &model.v, op, &mut removed);
        if op.is_ro_sync() {
            if let Op::Handle { p, .. } = op {
                if let Ok(i) = model.v.lookup(p) {
                    if model.files.get(&i).map(|f| !f.log.is_empty()).unwrap_or(false) {
                        ro_sync_dirty = true;
                    }
                }
            }
        }
        st.inc("sim_ops");
        let exp = model.v.apply(op);
        model.absorb();
        if !matches(&exp, ret) {
            out.discarded = Some(format!("volatile-divergence:ret:{}", op.kind()));
            return out;
        }
        let ms = diff::model_sweep(&model.v, &uni);
        if !diverged_at_sync && diff::sweep_diff(&uni, &ms, &sw[1..]).is_some() {
            if synclike(op) {
                diverged_at_sync = true;
                st.inc("precrash_divergence_at_sync_kept");
            } else {
                out.discarded = Some("volatile-divergence:state".into());
                return out;
            }
        }
    }
    out
}

/// Two hosts in one Sim; each history must end with `Crash`. Host 0 is
/// crashed + bounced at each of its Crash ops while host 1 keeps running;
/// host 1 is crashed once at the very end.
///
/// `finish[w]`: host w's software *returns* `Ok(())` at the end of each
/// segment (the runtime consumes its join handle before the crash) instead of
/// parking forever: a host whose program has exited still owns a file system
/// with unsynced state, and `Sim::crash` must roll that back too.
pub fn run_sim(
    cfg: &Cfg,
    seed: u64,
    hs: [&[Op]; 2],
    finish: [bool; 2],
    st: &mut Stats,
) -> [Outcome; 2] {
    let uni: Arc<Vec<String>> = Arc::new({
        let mut u = vec!["/".to_string()];
        u.extend(universe());
        u
    });
    let mut sim = simdrv::builder_for(cfg, seed, Duration::from_millis(1)).build();
    let shared: [Arc<Mutex<Shared>>; 2] = [0, 1].map(|w| {
        Arc::new(Mutex::new(Shared {
            phase: 0,
            recs: vec![],
            done: vec![false; segments(hs[w]).len()],
        }))
    });
    for w in 0..2 {
        let segs = Arc::new(segments(hs[w]));
        let sh = shared[w].clone();
        let uni = uni.clone();
        sim.host(format!("h{w}"), move || {
            let segs = segs.clone();
            let sh = sh.clone();
            let uni = uni.clone();
            async move {
                let phase = sh.lock().unwrap().phase;
                if phase > 0 {
                    let sw = simdrv::sweep_entered(&uni);
                    sh.lock().unwrap().recs.push(Rec::Post(sw));
                }
                let mut ud = 1000 * (phase as u64 + 1);
                for op in &segs[phase] {
                    let r = simdrv::exec_in_sim(op, ud).await;
                    ud += 1;
                    let sw = simdrv::sweep_entered(&uni);
                    sh.lock().unwrap().recs.push(Rec::Op(r, sw));
                    tokio::time::sleep(Duration::from_millis(1)).await;
                }
                sh.lock().unwrap().done[phase] = true;
                if !finish[w] {
                    std::future::pending::<()>().await;
                }
                Ok(())
            }
        });
    }
    let nseg = [segments(hs[0]).len(), segments(hs[1]).len()];
    let mut steps = 0u64;
    let mut err: Option<String> = None;
    let run_until = |sim: &mut turmoil::Sim, f: &dyn Fn() -> bool, steps: &mut u64| {
        let mut guard = 0;
        while !f() {
            guard += 1;
            *steps += 1;
            if guard > 20_000 {
                return Err("no progress in 20000 steps".to_string());
            }
            if let Err(e) = sim.step() {
                return Err(format!("Sim::step failed: {e}"));
            }
        }
        Ok(())
    };
    // host 0: crash at each segment boundary
    for phase in 0..nseg[0] {
        let sh0 = shared[0].clone();
        if let Err(e) = run_until(&mut sim, &move || sh0.lock().unwrap().done[phase], &mut steps) {
            err = Some(e);
            break;
        }
        if phase + 1 < nseg[0] {
            if finish[0] {
                // let the runtime notice that the software has returned
                for _ in 0..3 {
                    steps += 1;
                    if let Err(e) = sim.step() {
                        err = Some(format!("Sim::step failed: {e}"));
                    }
                }
                if !sim.is_host_running("h0") {
                    st.inc("sim_crash_of_finished_host");
                }
            }
            sim.crash("h0");
            shared[0].lock().unwrap().phase = phase + 1;
            sim.bounce("h0");
            st.inc("sim_bounces");
        }
    }
    // host 1: run to the end of its first segment(s), crash once per Crash op
    if err.is_none() {
        for phase in 0..nseg[1] {
            let sh1 = shared[1].clone();
            if let Err(e) =
                run_until(&mut sim, &move || sh1.lock().unwrap().done[phase], &mut steps)
            {
                err = Some(e);
                break;
            }
            if phase + 1 < nseg[1] {
                if finish[1] {
                    for _ in 0..3 {
                        steps += 1;
                        if let Err(e) = sim.step() {
                            err = Some(format!("Sim::step failed: {e}"));
                        }
                    }
                    if !sim.is_host_running("h1") {
                        st.inc("sim_crash_of_finished_host");
                    }
                }
                sim.crash("h1");
                shared[1].lock().unwrap().phase = phase + 1;
                sim.bounce("h1");
                st.inc("sim_bounces");
            }
        }
    }
    st.add("sim_steps", steps);
    if let Some(e) = err {
        let mk = || Outcome {
            discarded: Some(format!("sim-error:{e}")),
            ..Default::default()
        };
        return [mk(), mk()];
    }
    let r0 = shared[0].lock().unwrap().recs.clone();
    let r1 = shared[1].lock().unwrap().recs.clone();
    [
        judge(cfg, hs[0], &r0, st, "host 0"),
        judge(cfg, hs[1], &r1, st, "host 1"),
    ]
}

fn scenario_sim(ctx: &Ctx, idx: u64) -> ScenarioOut {
    let mut rng = Rng::new(ctx.scenario_seed("sim", idx));
    let mut gc = c07_gen(ctx, &mut rng);
    gc.len = rng.range(3, 9) as usize;
    gc.fe_w = [1, 1, 1];
    let mut cfg = c07_cfg(&mut rng);
    cfg.lat = Lat::None;
    let seed = rng.next_u64();
    let mut out_tag = "";
    let (mut h0, r0) = gen_history(&mut rng, &gc);
    let structured = rng.chance(0.3);
    if structured {
        // Sim::crash / bounce on the preallocate / read-only-fsync family
        h0 = gen_extend(&mut rng);
        out_tag = "sim_extend_histories";
    }
    gc.crashes = false;
    let (mut h1, r1) = gen_history(&mut rng, &gc);
    // crash point for host 0: a random prefix, then the final crash
    let k = if structured {
        h0.len()
    } else {
        rng.range(1, h0.len() as u64) as usize
    };
    h0.truncate(k);
    if !matches!(h0.last(), Some(Op::Crash)) {
        h0.push(Op::Crash);
    }
    h1.push(Op::Crash);
    let mut out = ScenarioOut::default();
    crate::gen::count_rejected(&mut out, &r0);
    crate::gen::count_rejected(&mut out, &r1);
    out.count("histories_sim", 1);
    if !out_tag.is_empty() {
        out.count(out_tag, 1);
    }
    let mut st = Stats::default();
    let finish = [rng.coin(), rng.coin()];
    let os = run_sim(&cfg, seed, [&h0, &h1], finish, &mut st);
    let mut nontrivial = 0;
    for (w, o) in os.iter().enumerate() {
        absorb_outcome(&mut out, o);
        nontrivial += o.nontrivial_crashes;
        if let Some(c) = &o.complaint {
            // try to reproduce on the direct driver for a minimal witness
            let h = if w == 0 { &h0 } else { &h1 };
            let mut s2 = Stats::default();
            let d = run_direct(&cfg, h, &mut s2, true);
            if let Some(cd) = &d.complaint {
                report(&mut out, &cfg, h, cd, "sim");
            } else {
                out.violate(
                    &c.class,
                    format!("{}|sim|{}", c.class, crate::ops::canonical(h)),
                    c.what.clone(),
                    json!({"kind":"sim","cfg":cfg.to_json(),"seed":seed,"finish":finish,"h0":hist_json(&h0),"h1":hist_json(&h1)}),
                );
            }
        }
    }
    for (k, v) in &st.c {
        out.count(k, *v);
    }
    out.nontrivial = nontrivial > 0;
    out.digest = vcore::digest_str(&format!(
        "sim|{}|{}",
        crate::ops::canonical(&h0),
        crate::ops::canonical(&h1)
    ));
    out.sample = Some(json!({"kind":"sim","cfg":cfg.to_json(),"software_returns_before_crash":finish,"h0":hist_json(&h0),"h1":hist_json(&h1[..h1.len().min(6)])}));
    out
}

fn scenario_directed(_ctx: &Ctx, idx: u64) -> ScenarioOut {
    let all = crate::directed::c07();
    let (name, cfg, h) = &all[idx as usize];
    let mut out = ScenarioOut::default();
    let mut st = Stats::default();
    out.count("directed", 1);
    let o = run_direct(cfg, h, &mut st, false);
    absorb_outcome(&mut out, &o);
    if let Some(c) = &o.complaint {
        let cfg_tag = format!(
            "p{}b{}",
            if cfg.sync_prob > 0.0 { "+" } else { "0" },
            cfg.block.map(|b| b.to_string()).unwrap_or("-".into())
        );
        out.violate(
            &c.class,
            format!("{}|{cfg_tag}", signature(&c.class, h)),
            c.what.clone(),
            json!({"kind":"direct","directed":name,"cfg":cfg.to_json(),"history":hist_json(h)}),
        );
    }
    out.nontrivial = o.nontrivial_crashes > 0;
    out.digest = vcore::digest_str(&format!("directed:{name}"));
    out.sample = Some(json!({"kind":"directed","name":name,"history":hist_json(h),
        "verdict": if o.complaint.is_some() {"complaint"} else if o.discarded.is_some() {"discarded"} else {"conforms"}}));
    out
}

fn replay(w: Value) -> ScenarioOut {
    let mut out = ScenarioOut::default();
    let mut st = Stats::default();
    let cfg = Cfg::from_json(&w["cfg"]);
    if w["kind"].as_str() == Some("sim") {
        let h0 = hist_parse(&w["h0"]);
        let h1 = hist_parse(&w["h1"]);
        let fin = [
            w["finish"][0].as_bool().unwrap_or(false),
            w["finish"][1].as_bool().unwrap_or(false),
        ];
        let os = run_sim(&cfg, w["seed"].as_u64().unwrap_or(0), [&h0, &h1], fin, &mut st);
        for o in os {
            if let Some(c) = o.complaint {
                out.violate(&c.class, format!("{}|sim", c.class), c.what, w.clone());
            }
        }
    } else {
        let h = hist_parse(&w["history"]);
        let o = run_direct(&cfg, &h, &mut st, false);
        if let Some(c) = o.complaint {
            let cfg_tag = format!(
                "p{}b{}",
                if cfg.sync_prob > 0.0 { "+" } else { "0" },
                cfg.block.map(|b| b.to_string()).unwrap_or("-".into())
            );
            out.violate(
                &c.class,
                format!("{}|{cfg_tag}", signature(&c.class, &h)),
                c.what,
                w.clone(),
            );
        }
    }
    out.nontrivial = true;
    out.digest = 1;
    out
}

pub fn finish_spec(ctx: &Ctx) -> Finish<'static> {
    Finish {
        level: "fault_enumeration",
        rule: "op histories (create, create_new, open trunc/append, write_at, append, set_len, sync_all, \
               sync_data, sync_dir, rename, remove_file, create_dir, remove_dir; std / tokio / io_uring \
               front-ends; embedded crashes = crash-continue-crash cycles) with a crash injected after EVERY \
               prefix; after each crash every path whose ancestors are durable is compared (existence, \
               kind, read_dir set, length, full content) with an inode-based durable-image model; with \
               sync_probability>0 / block_size the observed content must be a member of the enumerated \
               admissible set. Drivers: directly entered Fs (Fs::crash) and two hosts in a Sim \
               (Sim::crash/bounce); thorough adds the exhaustive enumeration of all length<=4 histories \
               over a 13-op alphabet. A scenario is non-trivial when at least one of its crash points had \
               >=1 durable object besides the root and >=1 rolled-back mutation; distinct = distinct \
               canonical history x configuration class."
            .into(),
        assumptions: vec![
            "a directory made durable only by sync_dir of itself (parent not synced) and the source name of a cross-directory rename whose destination directory alone was synced may or may not survive: the model adopts what the implementation shows (counted as maybe_entries_adopted)".into(),
            "torn writes: a pending write survives as a prefix of whole blocks counted from the start of the write (FsConfig::block_size documentation)".into(),
            "histories whose volatile behaviour already diverges from the POSIX tree are discarded here (they belong to C10) and counted under discarded:*".into(),
            "histories inside known-defect zones (zones.rs) are not generated; each zone has a directed scenario whose complaint is a known finding".into(),
            "symlinks, hard links, permissions, timestamps are never generated; dangling subtrees are not asserted".into(),
        ],
        min_distinct: ctx.pick(4_000, 20_000),
        required_counters: vec![
            "crash_points",
            "crash_points_nontrivial",
            "durable_files_checked",
            "mutations_rolled_back",
            "admissible_sets",
            "adopted_non_base_content",
            "sim_crashes",
            "sim_bounces",
            "sim_crash_of_finished_host",
            "histories_extend",
            "crash_after_synced_extending_set_len",
            "fsync_through_readonly_fd_then_crash",
            "histories_publish",
            "publish:cross_dir",
            "publish:same_dir",
            "publish:source_entry_never_durable",
            "publish:sync_dst_only",
            "publish:sync_dst_then_src",
            "publish:sync_src_then_dst",
            "publish:onto_existing",
            "fe:std",
            "fe:tokio",
            "fe:uring",
            "cfg:sync_prob=p,block=none",
            "cfg:sync_prob=0,block=b",
            "cfg:sync_prob=p,block=b",
            "op:rename",
            "op:remove_file",
            "op:set_len",
            "op:sync_dir",
            "op:sync_data",
        ],
    }
}

pub fn run(ctx: &Ctx) -> ! {
    let fin = finish_spec(ctx);
    if ctx.replay.is_some() {
        let Some(w) = vcore::read_replay(ctx) else {
            println!("INCONCLUSIVE property=C07 cannot read replay file");
            std::process::exit(2);
        };
        let rep = vcore::run_single(ctx, move |_| replay(w.clone()));
        vcore::finish(ctx, rep, fin);
    }
    let n_dir = crate::directed::c07().len() as u64;
    let c2 = ctx.clone();
    let mut rep = vcore::run_parallel(ctx, n_dir, RunOpts::default(), move |i| {
        scenario_directed(&c2, i)
    });
    let budget = ctx.pick(45.0, 420.0);
    let n_sim = ctx.pick(400u64, 3000);
    let c2 = ctx.clone();
    rep.merge(vcore::run_parallel(
        ctx,
        n_sim,
        RunOpts {
            budget_s: budget * 0.25,
            scenario_timeout_s: 120.0,
        },
        move |i| scenario_sim(&c2, i),
    ));
    // exhaustive small scope: quick = all length-3 histories, thorough = length 4
    let len = ctx.pick(3usize, 4);
    let n_exh = (alphabet().len() as u64).pow(len as u32);
    let c2 = ctx.clone();
    let r = vcore::run_parallel(
        ctx,
        n_exh,
        RunOpts {
            budget_s: budget * 0.25,
            scenario_timeout_s: 120.0,
        },
        move |i| scenario_exhaustive(&c2, i, len),
    );
    let exh_done = !r.budget_exhausted;
    rep.merge(r);
    rep.extra
        .insert("exhaustive_small_scope".into(), json!({"length": len, "alphabet": alphabet().len(), "histories": n_exh, "completed": exh_done}));
    let n_ext = ctx.pick(4_000u64, 40_000);
    let c2 = ctx.clone();
    rep.merge(vcore::run_parallel(
        ctx,
        n_ext,
        RunOpts {
            budget_s: budget * 0.1,
            scenario_timeout_s: 120.0,
        },
        move |i| scenario_extend(&c2, i),
    ));
    let n_pub = ctx.pick(6_000u64, 60_000);
    let c2 = ctx.clone();
    rep.merge(vcore::run_parallel(
        ctx,
        n_pub,
        RunOpts {
            budget_s: budget * 0.15,
            scenario_timeout_s: 120.0,
        },
        move |i| scenario_publish(&c2, i),
    ));
    let n_direct = ctx.pick(45_000u64, 400_000);
    let c2 = ctx.clone();
    rep.merge(vcore::run_parallel(
        ctx,
        n_direct,
        RunOpts {
            budget_s: budget * 0.5,
            scenario_timeout_s: 120.0,
        },
        move |i| scenario_direct(&c2, i),
    ));
    if ctx.tier == vcore::Tier::Thorough {
        crate::san::fold(ctx, &mut rep, "C07");
    }
    vcore::finish(ctx, rep, fin);
}
