#!/usr/bin/env python3
"""Mutation self-test for fsmodel (C07 / C10 / C18).

Copies /repo and /verif/harness into a temp dir outside both, applies one
realistic regression at a time to the copy, rebuilds the harness copy against it
and requires the property's quick check to exit 1. The temp dir (sources and
build output) is removed at the end.

usage: selftest_mutants.py [name-substring ...]
"""
import subprocess, sys, os, shutil, time, json, tempfile

ROOT = tempfile.mkdtemp(prefix='fsmodel-mut-')
REPO = ROOT + '/repo'
H = ROOT + '/harness'
FS = REPO + '/crates/turmoil-fs/src/lib.rs'
SIM = REPO + '/crates/turmoil-io-uring/src/sim.rs'
CQ = REPO + '/crates/turmoil-io-uring/src/cqueue.rs'
HOST = REPO + '/crates/turmoil-io-uring/src/host.rs'
SHIM = REPO + '/crates/turmoil-fs/src/shim/std/fs/mod.rs'

M = [
 # (name, property, file, old, new)
 ('c07-crash-keeps-pending-writes', 'C07', FS,
  "        self.pending.clear();\n\n        // Remove orphaned",
  "        self.pending.retain(|op| matches!(op, PendingOp::Write { .. }));\n\n        // Remove orphaned"),
 ('c07-crash-keeps-pending-removes', 'C07', FS,
  "        self.pending.clear();\n\n        // Remove orphaned",
  "        self.pending.retain(|op| matches!(op, PendingOp::RemoveFile { .. }));\n\n        // Remove orphaned"),
 ('c07-sync-file-skips-setlen', 'C07', FS,
  """    pub fn sync_file(&mut self, path: &Path) -> Result<(), &'static str> {
        if !self.file_exists(path) {
            return Err("No such file or directory");
        }

        // Flush pending ops that affect this file's DATA only
        // CreateFile is a directory entry op, handled by sync_dir
        let (to_flush, to_keep): (Vec<_>, Vec<_>) =
            self.pending.drain(..).partition(|op| match op {
                PendingOp::Write { path: p, .. } => p == path,
                PendingOp::SetLen { path: p, .. } => p == path,
                _ => false,
            });""",
  """    pub fn sync_file(&mut self, path: &Path) -> Result<(), &'static str> {
        if !self.file_exists(path) {
            return Err("No such file or directory");
        }

        // Flush pending ops that affect this file's DATA only
        // CreateFile is a directory entry op, handled by sync_dir
        let (to_flush, to_keep): (Vec<_>, Vec<_>) =
            self.pending.drain(..).partition(|op| match op {
                PendingOp::Write { path: p, .. } => p == path,
                _ => false,
            });"""),
 ('c07-sync-dir-skips-rename', 'C07', FS,
  """                // Renames affecting this directory
                PendingOp::Rename { from, to } => {
                    from.parent() == Some(path) || to.parent() == Some(path)
                }
                _ => false,""",
  """                // Renames affecting this directory
                PendingOp::Rename { .. } => false,
                _ => false,"""),
 ('c07-sync-dir-skips-remove', 'C07', FS,
  "                PendingOp::RemoveFile { path: p } => p.parent() == Some(path),\n                PendingOp::RemoveDir { path: p } => p.parent() == Some(path),\n                // Renames",
  "                PendingOp::RemoveFile { .. } => false,\n                PendingOp::RemoveDir { path: p } => p.parent() == Some(path),\n                // Renames"),
 ('c07-rename-flush-one-sided', 'C07', FS,
  "                    dir_modified = true;\n                    self.synced_entries.swap_remove(from);\n                    self.synced_entries.insert(to.clone());",
  "                    if from.parent() == Some(path) {\n                        dir_modified = true;\n                        self.synced_entries.swap_remove(from);\n                    }\n                    if to.parent() == Some(path) {\n                        dir_modified = true;\n                        self.synced_entries.insert(to.clone());\n                    }"),
 ('c07-torn-write-ignores-offset', 'C07', FS,
  "                let end = offset as usize + data.len();\n                if end > file_data.content.len() {\n                    file_data.content.resize(end, 0);\n                }\n                file_data.content[offset as usize..end].copy_from_slice(&data);\n                file_data.mtime = time;",
  "                let offset = 0u64;\n                let end = offset as usize + data.len();\n                if end > file_data.content.len() {\n                    file_data.content.resize(end, 0);\n                }\n                file_data.content[offset as usize..end].copy_from_slice(&data);\n                file_data.mtime = time;"),
 ('c10-read-no-zero-fill', 'C10', FS,
  "        // Start with zeros\n        buf[..to_read].fill(0);\n",
  "        // Start with zeros\n"),
 ('c10-file-len-truncate-ignored', 'C10', FS,
  "                    if (p == &content_path || self.path_renamed_to(p, &content_path)) => {\n                        len = *new_len;\n                    }",
  "                    if (p == &content_path || self.path_renamed_to(p, &content_path)) => {\n                        len = len.max(*new_len);\n                    }"),
 ('c10-rename-onto-existing-keeps-target', 'C10', FS,
  "            // Can't rename file onto directory\n            if self.dir_exists(to) {\n                return Err(\"Is a directory\");\n            }\n            self.pending.push(PendingOp::Rename {",
  "            // Can't rename file onto directory\n            if self.dir_exists(to) {\n                return Err(\"Is a directory\");\n            }\n            if self.file_exists(to) {\n                self.pending.push(PendingOp::RemoveFile { path: from.to_path_buf() });\n                return Ok(());\n            }\n            self.pending.push(PendingOp::Rename {"),
 ('c10-read-overlay-ignores-src-offset', 'C10', FS,
  "                            let src_offset = (overlap_start - write_off) as usize;\n                            let dst_offset",
  "                            let src_offset = 0usize;\n                            let dst_offset"),
 ('c10-remove-dir-ignores-children', 'C10', FS,
  "        // Check directory is empty\n        if self.dir_has_children(path) {\n            return Err(\"Directory not empty\");\n        }\n\n        self.pending.push(PendingOp::RemoveDir {",
  "        self.pending.push(PendingOp::RemoveDir {"),
 ('c18-cancel-leaves-op-inflight', 'C18', SIM,
  "        if let Some(idx) = self.inflight.iter().position(|s| s.user_data == target_ud) {\n            self.inflight.swap_remove(idx);\n            found = true;",
  "        if self.inflight.iter().any(|s| s.user_data == target_ud) {\n            found = true;"),
 ('c18-cancel-ignores-ready-pool', 'C18', SIM,
  "        } else if let Some(idx) = self.ready.iter().position(|s| s.user_data == target_ud) {\n            self.ready.remove(idx);\n            found = true;\n        }",
  "        }"),
 ('c18-cqe-visible-before-deadline', 'C18', SIM,
  "        self.ready.len() + self.inflight.iter().filter(|s| s.when <= now).count()",
  "        { let _ = now; self.ready.len() + self.inflight.len() }"),
 ('c18-cqe-visible-before-deadline-2', 'C18', SIM,
  "            if self.inflight[i].when <= now {\n                matured.push(self.inflight.swap_remove(i));",
  "            if self.inflight[i].when <= now + Duration::from_micros(200) {\n                matured.push(self.inflight.swap_remove(i));"),
 ('c18-duplicate-cqe-on-partial-drain', 'C18', CQ,
  "            let scheduled = iou.rings.get_mut(&ring_fd)?.pop_ready(now, rng)?;\n            let result = scheduled.apply.execute(fs, rng, now);\n            Some(Entry {\n                user_data: scheduled.user_data,\n                result,\n                flags: 0,\n            })",
  "            let ring = iou.rings.get_mut(&ring_fd)?;\n            let scheduled = ring.pop_ready(now, rng)?;\n            let ud = scheduled.user_data;\n            let result = scheduled.apply.execute(fs, rng, now);\n            if ring.ready_cq_count(now) > 0 && result >= 0 {\n                // partial drain: the entry is re-posted\n                ring.post_immediate_error(ud, result, now);\n            }\n            Some(Entry {\n                user_data: ud,\n                result,\n                flags: 0,\n            })"),
 ('c18-crash-keeps-rings', 'C18', HOST,
  "        self.rings.clear();\n    }",
  "    }"),
 ('c18-read-offset-ignored', 'C18', SIM,
  "    let mut n = fs.read_file(&path, buf, offset);",
  "    let mut n = fs.read_file(&path, buf, offset.saturating_sub(1));"),
 ('c18-full-queue-push-drops-oldest', 'C18', REPO + '/crates/turmoil-io-uring/src/squeue.rs',
  "            if ring.sq.len() >= ring.depth as usize {\n                return Err(PushError);\n            }",
  "            if ring.sq.len() >= ring.depth as usize {\n                ring.sq.pop_front();\n                return Err(PushError);\n            }"),
 ('hunt-c10-errno-kinds-reverted', 'C10', SHIM,
  "    Error::new(kind, msg)\n}",
  "    let _ = kind;\n    Error::other(msg)\n}"),
 ('hunt-c10-own-removedir-not-flushed', 'C10', FS,
  "                PendingOp::RemoveDir { path: p } if p == path => true,\n",
  ""),
 ('hunt-c18-null-zero-length-write', 'C18', SIM,
  "    // Zero-length write: nothing to transfer, the pointer may be NULL.\n    if len == 0 {\n        return 0;\n    }\n",
  ""),
 ('hunt-c18-fsync-samples-io-error', 'C18', SIM,
  "    let _ = rng;\n    match fs.sync_file(&path) {",
  "    if sample_prob(rng, fs.io_error_probability) {\n        return -EIO;\n    }\n    match fs.sync_file(&path) {"),
 ('hunt-c18-ring-ignores-access-mode', 'C18', SIM,
  "    if fs.unwritable_fds.contains(&fd) {\n        return -EBADF;\n    }\n",
  ""),
]

# independently seeded changes (patch files), see NOTES.md (e)
P = [
 ('seeded-C07-1-rename-entry-only-if-source-durable', 'C07', '/verif/seeded/C07-1/patch.diff'),
 ('seeded-C07-2-crash-skips-finished-hosts', 'C07', '/verif/seeded/C07-2/patch.diff'),
 ('seeded-C18-2-ring-write-hole-not-charged', 'C18', '/verif/seeded/C18-2/patch.diff'),
 ('seeded-C18-3-direct-read-gets-cache-hit-latency', 'C18', '/verif/seeded/C18-3/patch.diff'),
]

def sh(cmd, **kw):
    return subprocess.run(cmd, shell=True, capture_output=True, text=True, **kw)

def build():
    r = sh(f'cd {H} && cargo build --release --offline -p fsmodel --target-dir {ROOT}/target 2>&1 | tail -5')
    return r

def run(prop, seed=0):
    os.makedirs(ROOT + '/vd', exist_ok=True)
    shutil.rmtree(ROOT + '/vd/replays', ignore_errors=True)
    kf = '/verif/harness/fsmodel/PROPOSED_FINDINGS.json'
    if os.path.exists(kf):
        shutil.copy(kf, ROOT + '/vd/known_findings.json')
    else:
        open(ROOT + '/vd/known_findings.json', 'w').write('{"findings":[]}')
    t = time.time()
    r = sh(f'VERIF_SEED={seed} VERIF_DIR={ROOT}/vd {ROOT}/target/release/fsmodel {prop} --tier quick')
    return r.returncode, time.time() - t, r.stdout

def main():
    only = sys.argv[1:]
    sh(f"rsync -a --exclude target --exclude .git /repo/ {REPO}/")
    sh(f"rsync -a --exclude 'target*' /verif/harness/ {H}/ && sed -i 's#/repo/crates#{REPO}/crates#g' {H}/*/Cargo.toml")
    results = []
    for (name, prop, f, old, new) in M:
        if only and not any(o in name for o in only):
            continue
        src = open(f).read()
        if src.count(old) != 1:
            print(f'{name}: PATCH DOES NOT APPLY ({src.count(old)} matches)')
            results.append((name, prop, 'noapply'))
            continue
        open(f, 'w').write(src.replace(old, new))
        try:
            b = build()
            if 'error' in b.stdout:
                print(f'{name}: BUILD FAILED\n{b.stdout}')
                results.append((name, prop, 'nobuild'))
                continue
            code, dt, out = run(prop)
            lines = [l for l in out.splitlines() if l.startswith('#')][:2]
            verdict = {0: 'MISSED', 1: 'caught', 2: 'inconclusive'}.get(code, str(code))
            print(f'{name}: {verdict} ({dt:.0f}s) ' + ' | '.join(l[:200] for l in lines))
            results.append((name, prop, verdict))
        finally:
            open(f, 'w').write(src)
    for (name, prop, pf) in P:
        if only and not any(o in name for o in only):
            continue
        if not os.path.exists(pf):
            print(f'{name}: patch file missing')
            continue
        r = sh(f'cd {REPO} && patch -p1 -s < {pf}')
        if r.returncode != 0:
            print(f'{name}: PATCH DOES NOT APPLY')
            results.append((name, prop, 'noapply'))
            continue
        try:
            b = build()
            if 'error' in b.stdout:
                print(f'{name}: BUILD FAILED\n{b.stdout}')
                results.append((name, prop, 'nobuild'))
                continue
            code, dt, out = run(prop)
            lines = [l for l in out.splitlines() if l.startswith('#')][:2]
            verdict = {0: 'MISSED', 1: 'caught', 2: 'inconclusive'}.get(code, str(code))
            print(f'{name}: {verdict} ({dt:.0f}s) ' + ' | '.join(l[:200] for l in lines))
            results.append((name, prop, verdict))
        finally:
            sh(f'cd {REPO} && patch -R -p1 -s < {pf}')
    print(json.dumps(results))

if __name__ == '__main__':
    try:
        main()
    finally:
        shutil.rmtree(ROOT, ignore_errors=True)
