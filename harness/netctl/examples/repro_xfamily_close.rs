//! Standalone repro (public API + built-in fixture only): closing the IPv4
//! wildcard listener on port P resets the still-handshaking children of the
//! live IPv6 listener on the same port number (tcp::on_close matches
//! half-open children by port and "listener is wildcard", never by family):
//! the IPv6 connect is refused although its listener is alive and untouched.
//!
//! Run: cargo run --release --offline -p netctl --example repro_xfamily_close
//! Exit 0 = defect absent, exit 1 = defect present.

use std::net::IpAddr;
use std::time::Duration;

use turmoil_net::fixture::ClientServer;
use turmoil_net::shim::tokio::net::{TcpListener, TcpStream};
use turmoil_net::{rule, Packet, Transport, Verdict};

fn main() {
    let s4: IpAddr = "10.0.0.1".parse().unwrap();
    let s6: IpAddr = "fd00::1".parse().unwrap();
    let c6: IpAddr = "fd00::2".parse().unwrap();
    let r = ClientServer::new()
        .server([s4, s6], async move {
            let l6 = TcpListener::bind("[::]:9000").await.unwrap();
            let l4 = TcpListener::bind("0.0.0.0:9000").await.unwrap();
            tokio::time::sleep(Duration::from_millis(3)).await; // SYN has arrived, SYN-ACK is delayed
            drop(l4); // unrelated listener of the other family
            let _ = l6.accept().await;
            std::future::pending::<()>().await;
        })
        .run([c6], async move {
            // hold every SYN-ACK back for 6 ms so the child stays SynReceived
            rule(|p: &Packet| match &p.payload {
                Transport::Tcp(s) if s.flags.syn && s.flags.ack => Verdict::Deliver(Duration::from_millis(6)),
                _ => Verdict::Pass,
            })
            .forget();
            TcpStream::connect("[fd00::1]:9000").await.map(|_| ()).map_err(|e| e.kind())
        });
    println!("connect to the IPv6 listener while the IPv4 wildcard listener on the same port is closed: {r:?}");
    if r.is_err() {
        println!("defect present");
        std::process::exit(1);
    }
    println!("no defect observed");
}
