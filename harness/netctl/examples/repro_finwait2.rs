//! Standalone repro (public API + built-in fixture only): an orphaned
//! FIN_WAIT2 socket is never reclaimed when the peer vanished and its single
//! RST was lost.
//!
//! Client connects, the server never accepts; the client drops its stream
//! (FIN is ACKed by the queued child -> client FIN_WAIT2, application gone);
//! the server drops the listener (queued child is reset + removed) and that
//! one RST is dropped by a rule. Nothing is in flight any more, so the client
//! kernel keeps the socket, its binding and its 4-tuple forever.
//!
//! Run: cargo run --release --offline -p netctl --example repro_finwait2
//! Exit 0 = defect absent, exit 1 = defect present.

use std::time::Duration;

use turmoil_net::fixture::ClientServer;
use turmoil_net::shim::tokio::net::{TcpListener, TcpStream};
use turmoil_net::{netstat, rule, Packet, Transport, Verdict};

fn main() {
    let leaked = ClientServer::new()
        .server("server", async move {
            let l = TcpListener::bind("0.0.0.0:9000").await.unwrap();
            tokio::time::sleep(Duration::from_millis(20)).await;
            drop(l); // queued, never accepted child gets RST
            std::future::pending::<()>().await;
        })
        .run("client", async move {
            // lose every RST (there is exactly one)
            rule(|p: &Packet| match &p.payload {
                Transport::Tcp(s) if s.flags.rst => Verdict::Drop,
                _ => Verdict::Pass,
            })
            .forget();
            let c = TcpStream::connect("server:9000").await.unwrap();
            tokio::time::sleep(Duration::from_millis(5)).await;
            drop(c);
            // far longer than any retransmit budget (3 * (5 + 1) ticks)
            tokio::time::sleep(Duration::from_millis(500)).await;
            let ns = netstat("client");
            println!("client netstat 500 ms after both sides dropped the connection:\n{ns}");
            !ns.entries.is_empty()
        });
    if leaked {
        println!("defect present: orphaned socket still in the client's table");
        std::process::exit(1);
    }
    println!("no defect observed");
}
