//! Standalone repro (public API + built-in fixture only) for finding F8:
//! a connect cancelled while the server child is SynReceived leaves the child
//! in the server's socket table for good (reset, never reaped, hidden from
//! netstat); after the listener is dropped the port cannot be bound again.
//!
//! Run: cargo run --release --offline -p netctl --example repro_f8
//! Exit 0 = defect absent, exit 1 = defect present.

use std::future::{poll_fn, Future};
use std::task::Poll;
use std::time::Duration;

use turmoil_net::fixture::ClientServer;
use turmoil_net::shim::tokio::net::{TcpListener, TcpStream};
use turmoil_net::{rule, Packet, Transport, Verdict};

fn main() {
    let r = ClientServer::new()
        .server("server", async move {
            let l = TcpListener::bind("0.0.0.0:9000").await.unwrap();
            // the client cancels its connect during this time
            tokio::time::sleep(Duration::from_millis(100)).await;
            drop(l);
            tokio::time::sleep(Duration::from_millis(5)).await;
            let again = TcpListener::bind("0.0.0.0:9000").await;
            println!("server: re-bind of :9000 after the listener was dropped -> {:?}", again.as_ref().map(|_| ()));
            println!("server netstat:\n{}", turmoil_net::netstat("server"));
            if again.is_err() {
                std::process::exit(1);
            }
            std::future::pending::<()>().await;
        })
        .run("client", async move {
            // hold back every SYN-ACK for 5 ms so the child sits in SynReceived
            let g = rule(|p: &Packet| match &p.payload {
                Transport::Tcp(s) if s.flags.syn && s.flags.ack => Verdict::Deliver(Duration::from_millis(5)),
                _ => Verdict::Pass,
            });
            let mut fut: std::pin::Pin<Box<dyn Future<Output = _>>> = Box::pin(TcpStream::connect("server:9000"));
            poll_fn(|cx| {
                assert!(fut.as_mut().poll(cx).is_pending());
                Poll::Ready(())
            })
            .await;
            // SYN leaves, child is created, SYN-ACK is in flight
            tokio::time::sleep(Duration::from_millis(2)).await;
            drop(fut); // cancel
            drop(g);
            tokio::time::sleep(Duration::from_millis(200)).await;
        });
    let _ = r;
    println!("no defect observed");
}
