//! "The harness is the wire" driver for turmoil-net (C13 / C17 / C19).
//!
//! A paused current-thread tokio runtime runs client/server tasks on one
//! `LocalSet`; every poll (and every drop) of a task is scoped to its host of
//! the installed `Net`. One *round* = run tasks to quiescence -> `egress_all`
//! -> per-packet fate (deliver now / hold k rounds / drop) -> deliver due
//! packets. Sockets owned by the controller are wrapped in [`Scoped`] so that
//! method calls and `Drop` always hit the right kernel.

use std::future::Future;
use std::net::{IpAddr, SocketAddr};
use std::pin::Pin;
use std::task::{Context, Poll, Waker};
use std::time::Duration;

use tokio::task::{JoinHandle, LocalSet};
use turmoil_net::{EnterGuard, HostId, KernelConfig, Net, Packet, Transport};

pub const TICK: Duration = Duration::from_millis(1);

pub fn net_installed() -> bool {
    turmoil_net::lookup_host("127.0.0.1").is_some()
}

/// Future wrapper: pins the current host before every poll and before the
/// inner future is dropped (sockets close themselves against the *current*
/// host's kernel).
pub struct HostScoped<F> {
    id: HostId,
    inner: Option<Pin<Box<F>>>,
}

impl<F: Future> Future for HostScoped<F> {
    type Output = F::Output;
    fn poll(mut self: Pin<&mut Self>, cx: &mut Context<'_>) -> Poll<Self::Output> {
        turmoil_net::set_current(self.id);
        let r = self.inner.as_mut().expect("polled after completion").as_mut().poll(cx);
        if r.is_ready() {
            // drop the finished future (and whatever it still owns) in scope
            self.inner = None;
        }
        r
    }
}

impl<F> Drop for HostScoped<F> {
    fn drop(&mut self) {
        if self.inner.is_some() {
            if net_installed() {
                turmoil_net::set_current(self.id);
            } else {
                // Net already gone (unwinding): sockets cannot close
                // themselves any more; leak instead of panicking in drop.
                std::mem::forget(self.inner.take());
            }
        }
        self.inner = None;
    }
}

/// A socket (or anything whose methods / Drop talk to the kernel) pinned to a
/// host.
pub struct Scoped<T> {
    host: HostId,
    inner: Option<T>,
}

impl<T> Scoped<T> {
    pub fn new(host: HostId, t: T) -> Self {
        Scoped { host, inner: Some(t) }
    }
    /// Pin the host and borrow.
    pub fn on(&self) -> &T {
        turmoil_net::set_current(self.host);
        self.inner.as_ref().unwrap()
    }
    pub fn on_mut(&mut self) -> &mut T {
        turmoil_net::set_current(self.host);
        self.inner.as_mut().unwrap()
    }
    /// Borrow without pinning (for use inside a HostScoped task).
    pub fn get(&self) -> &T {
        self.inner.as_ref().unwrap()
    }
}

impl<T> Drop for Scoped<T> {
    fn drop(&mut self) {
        if self.inner.is_some() {
            if net_installed() {
                turmoil_net::set_current(self.host);
            } else {
                std::mem::forget(self.inner.take());
            }
        }
        self.inner = None;
    }
}

pub fn noop_cx() -> Context<'static> {
    Context::from_waker(Waker::noop())
}

/// Poll a future that must complete immediately (bind, shutdown, ...).
pub fn now<F: Future>(f: F) -> F::Output {
    let mut f = std::pin::pin!(f);
    match f.as_mut().poll(&mut noop_cx()) {
        Poll::Ready(v) => v,
        Poll::Pending => panic!("harness: future expected to be immediately ready was Pending"),
    }
}

#[derive(Clone, Copy, Debug, PartialEq, Eq)]
pub enum Fate {
    Deliver,
    Hold(u32),
    Drop,
}

impl Fate {
    pub fn code(&self) -> char {
        match self {
            Fate::Deliver => 'D',
            Fate::Hold(k) => char::from_digit(*k, 10).unwrap_or('9'),
            Fate::Drop => 'X',
        }
    }
    pub fn from_code(c: char) -> Option<Fate> {
        match c {
            'D' => Some(Fate::Deliver),
            'X' => Some(Fate::Drop),
            d if d.is_ascii_digit() => Some(Fate::Hold(d.to_digit(10).unwrap())),
            _ => None,
        }
    }
}

struct Held {
    due: u64,
    seq: u64,
    pkt: Packet,
}

#[derive(Clone)]
pub struct HostInfo {
    pub id: HostId,
    pub addrs: Vec<IpAddr>,
}

#[derive(Default)]
pub struct RoundReport {
    /// packets that left a host this round with the fate they got
    pub emitted: Vec<(Packet, Fate)>,
    /// packets handed to `deliver` this round, in delivery order
    pub delivered: Vec<Packet>,
}

pub struct World {
    // field order = drop order: tasks first (their sockets close against the
    // still-installed Net), the EnterGuard last.
    local: LocalSet,
    rt: tokio::runtime::Runtime,
    tasks: Vec<JoinHandle<()>>,
    pub hosts: Vec<HostInfo>,
    pub round: u64,
    held: Vec<Held>,
    seq: u64,
    guard: EnterGuard,
}

impl World {
    /// `hosts[i]` = addresses of host i (non-loopback). `setup` may install
    /// permanent rules on the `Net` before it is entered.
    pub fn new(cfg: KernelConfig, hosts: &[Vec<IpAddr>], setup: impl FnOnce(&mut Net)) -> World {
        let rt = tokio::runtime::Builder::new_current_thread()
            .enable_time()
            .start_paused(true)
            .build()
            .expect("runtime");
        let mut net = Net::with_config(cfg);
        let mut infos = vec![];
        for a in hosts {
            let id = net.add_host(a.clone());
            infos.push(HostInfo { id, addrs: a.clone() });
        }
        setup(&mut net);
        let guard = net.enter();
        World {
            local: LocalSet::new(),
            rt,
            tasks: vec![],
            hosts: infos,
            round: 0,
            held: vec![],
            seq: 0,
            guard,
        }
    }

    pub fn guard(&self) -> &EnterGuard {
        &self.guard
    }

    pub fn id(&self, h: usize) -> HostId {
        self.hosts[h].id
    }

    /// Pin host `h` for direct syscalls by the controller.
    pub fn cur(&self, h: usize) {
        self.guard.set_current(self.hosts[h].id);
    }

    pub fn scoped<T>(&self, h: usize, t: T) -> Scoped<T> {
        Scoped::new(self.hosts[h].id, t)
    }

    pub fn host_of(&self, ip: IpAddr) -> Option<usize> {
        self.hosts.iter().position(|h| h.addrs.contains(&ip))
    }

    pub fn spawn<F: Future<Output = ()> + 'static>(&mut self, h: usize, f: F) {
        let id = self.hosts[h].id;
        let jh = self.local.spawn_local(HostScoped {
            id,
            inner: Some(Box::pin(f)),
        });
        self.tasks.push(jh);
    }

    /// Run all tasks until every one is parked (the paused clock only
    /// auto-advances when the runtime is idle). A task that panicked is
    /// re-raised here with the original message/location.
    pub fn settle(&mut self) {
        let local = &self.local;
        self.rt.block_on(async { local.run_until(tokio::time::sleep(TICK)).await });
        let mut i = 0;
        while i < self.tasks.len() {
            if self.tasks[i].is_finished() {
                let jh = self.tasks.swap_remove(i);
                let r = self.rt.block_on(local.run_until(jh));
                if let Err(e) = r {
                    if e.is_panic() {
                        let info = vcore::take_last_panic()
                            .unwrap_or_else(|| vcore::panic_message(&*e.into_panic()));
                        panic!("TASKPANIC {info}");
                    }
                }
            } else {
                i += 1;
            }
        }
    }

    pub fn egress(&mut self) -> Vec<Packet> {
        let mut out = vec![];
        self.guard.egress_all(&mut out);
        out
    }

    pub fn deliver(&self, p: Packet) {
        self.guard.deliver(p);
    }

    /// One round: settle -> egress_all -> fates -> deliver due (older held
    /// packets first, in (due, emission) order, then this round's packets in
    /// emission order).
    pub fn round_with(&mut self, mut fate: impl FnMut(&Packet) -> Fate) -> RoundReport {
        self.settle();
        let pkts = self.egress();
        self.round += 1;
        let mut rep = RoundReport::default();
        let mut due: Vec<Held> = vec![];
        let mut rest: Vec<Held> = vec![];
        for h in self.held.drain(..) {
            if h.due <= self.round {
                due.push(h)
            } else {
                rest.push(h)
            }
        }
        self.held = rest;
        due.sort_by_key(|h| (h.due, h.seq));
        let mut fresh = vec![];
        for p in pkts {
            let f = fate(&p);
            rep.emitted.push((p.clone(), f));
            match f {
                Fate::Deliver => fresh.push(p),
                Fate::Hold(k) => {
                    self.seq += 1;
                    self.held.push(Held {
                        due: self.round + k.max(1) as u64,
                        seq: self.seq,
                        pkt: p,
                    });
                }
                Fate::Drop => {}
            }
        }
        for h in due {
            rep.delivered.push(h.pkt.clone());
            self.guard.deliver(h.pkt);
        }
        for p in fresh {
            rep.delivered.push(p.clone());
            self.guard.deliver(p);
        }
        rep
    }

    pub fn clean_round(&mut self) -> RoundReport {
        self.round_with(|_| Fate::Deliver)
    }

    pub fn clean_rounds(&mut self, n: u32) {
        for _ in 0..n {
            self.clean_round();
        }
    }
}

pub fn kind(p: &Packet) -> &'static str {
    match &p.payload {
        Transport::Udp(_) => "UDP",
        Transport::Tcp(s) => {
            let f = s.flags;
            if f.rst {
                "RST"
            } else if f.syn && f.ack {
                "SYNACK"
            } else if f.syn {
                "SYN"
            } else if f.fin {
                "FIN"
            } else if !s.payload.is_empty() {
                "DATA"
            } else {
                "ACK"
            }
        }
    }
}

pub fn endpoints(p: &Packet) -> (SocketAddr, SocketAddr) {
    match &p.payload {
        Transport::Udp(d) => (
            SocketAddr::new(p.src, d.src_port),
            SocketAddr::new(p.dst, d.dst_port),
        ),
        Transport::Tcp(s) => (
            SocketAddr::new(p.src, s.src_port),
            SocketAddr::new(p.dst, s.dst_port),
        ),
    }
}

/// Run `f`, converting a panic raised inside the code under test
/// (location in turmoil-net) into `Err(message)`. Any other panic is a
/// harness error and is re-raised.
pub fn guarded<R>(f: impl FnOnce() -> R) -> Result<R, String> {
    match std::panic::catch_unwind(std::panic::AssertUnwindSafe(f)) {
        Ok(r) => Ok(r),
        Err(p) => {
            let msg = vcore::take_last_panic().unwrap_or_else(|| vcore::panic_message(&*p));
            if msg.contains("turmoil-net/src") {
                Err(msg)
            } else {
                // put it back for the runner
                std::panic::resume_unwind(Box::new(msg));
            }
        }
    }
}

pub fn ip(s: &str) -> IpAddr {
    s.parse().unwrap()
}

/// Like [`guarded`] for code that runs entirely inside a turmoil-net fixture
/// (`fixture::lo`, `ClientServer::run`): a panic that does not originate in
/// the harness's own sources happened in the code under test, even when its
/// reported location is inside `core` (e.g. `Duration` arithmetic).
pub fn guarded_fixture<R>(f: impl FnOnce() -> R) -> Result<R, String> {
    match std::panic::catch_unwind(std::panic::AssertUnwindSafe(f)) {
        Ok(r) => Ok(r),
        Err(p) => {
            let msg = vcore::take_last_panic().unwrap_or_else(|| vcore::panic_message(&*p));
            if msg.contains("netctl/src") || msg.contains("vcore/src") {
                std::panic::resume_unwind(Box::new(msg));
            }
            Err(msg)
        }
    }
}
