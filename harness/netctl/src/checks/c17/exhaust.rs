//! C17 ephemeral range: exhaustion, exactly-one-free, wrap-around.

use std::collections::BTreeSet;
use std::io::ErrorKind;
use std::net::{IpAddr, SocketAddr};

use serde_json::{json, Value};
use turmoil_net::shim::tokio::net::{TcpListener, UdpSocket};
use turmoil_net::KernelConfig;
use vcore::{Rng, ScenarioOut};

use crate::engine::{self, ip, now, Scoped, World};

#[derive(Clone, Debug)]
pub struct Exhaust {
    pub tcp: bool,
    pub v4: bool,
    pub prebound: usize,
    pub seed: u64,
}

impl Exhaust {
    pub fn to_json(&self) -> Value {
        json!({"kind":"exhaust","tcp":self.tcp,"v4":self.v4,"prebound":self.prebound,"seed":self.seed})
    }
    pub fn from_json(v: &Value) -> Exhaust {
        Exhaust {
            tcp: v["tcp"].as_bool().unwrap_or(false),
            v4: v["v4"].as_bool().unwrap_or(true),
            prebound: v["prebound"].as_u64().unwrap_or(0) as usize,
            seed: v["seed"].as_u64().unwrap_or(0),
        }
    }
    fn canon(&self) -> String {
        format!("exhaust:{}:{}:pre{}", if self.tcp { "tcp" } else { "udp" }, if self.v4 { "v4" } else { "v6" }, self.prebound.min(1))
    }
}

enum S {
    U(#[allow(dead_code)] Scoped<UdpSocket>),
    T(#[allow(dead_code)] Scoped<TcpListener>),
}

fn bind(w: &World, tcp: bool, sa: SocketAddr) -> std::io::Result<(S, u16)> {
    w.cur(0);
    if tcp {
        now(TcpListener::bind(sa)).map(|s| {
            let p = s.local_addr().unwrap().port();
            (S::T(w.scoped(0, s)), p)
        })
    } else {
        now(UdpSocket::bind(sa)).map(|s| {
            let p = s.local_addr().unwrap().port();
            (S::U(w.scoped(0, s)), p)
        })
    }
}

fn body(e: &Exhaust, cnt: &mut Vec<(String, u64)>) -> Result<(), (String, String)> {
    let mut count = |k: &str, n: u64| {
        if let Some(x) = cnt.iter_mut().find(|(kk, _)| kk == k) {
            x.1 += n
        } else {
            cnt.push((k.to_string(), n))
        }
    };
    let mut rng = Rng::new(e.seed);
    let (a1, a2, any, lo): (IpAddr, IpAddr, IpAddr, IpAddr) = if e.v4 {
        (ip("10.0.0.1"), ip("10.0.0.2"), ip("0.0.0.0"), ip("127.0.0.1"))
    } else {
        (ip("fd00::1"), ip("fd00::2"), ip("::"), ip("::1"))
    };
    let w = World::new(KernelConfig::default(), &[vec![a1, a2]], |_| {});
    let mut used: BTreeSet<u16> = BTreeSet::new();
    let mut socks: Vec<(u16, S)> = vec![];
    // ports squatted at one specific local address inside the range
    let mut pre: Vec<(u16, S)> = vec![];
    for i in 0..e.prebound {
        let p = if i == 0 { 49152 } else { 49152 + rng.below(16384) as u16 };
        if used.contains(&p) {
            continue;
        }
        let (s, _) = bind(&w, e.tcp, SocketAddr::new(a2, p)).map_err(|er| ("bind-rejected".to_string(), format!("pre-bind {a2}:{p} failed {er:?}")))?;
        used.insert(p);
        pre.push((p, s));
    }
    let choices = [a1, any, lo, a1];
    let total = 16384usize;
    let mut n_ok = 0usize;
    // ports in allocation order (most recent last)
    let mut order: Vec<u16> = vec![];
    loop {
        let addr = choices[n_ok % choices.len()];
        match bind(&w, e.tcp, SocketAddr::new(addr, 0)) {
            Ok((s, p)) => {
                if p < 49152 {
                    return Err(("ephemeral-port-out-of-range".into(), format!("port-0 bind at {addr} returned {p}")));
                }
                if !used.insert(p) {
                    return Err((
                        "ephemeral-port-in-use".into(),
                        format!("port-0 bind at {addr} returned {p}, already in use on this host (after {n_ok} allocations, {} pre-bound at {a2})", pre.len()),
                    ));
                }
                socks.push((p, s));
                order.push(p);
                n_ok += 1;
                if n_ok > total {
                    return Err(("ephemeral-range-overrun".into(), format!("{n_ok} port-0 binds succeeded in a 16384 port range")));
                }
                if used.len() == total {
                    // full: the cursor now sits right behind the last port
                    // handed out; no failing attempt has moved it yet
                    break;
                }
            }
            Err(er) => {
                if er.kind() != ErrorKind::AddrInUse {
                    return Err(("exhaustion-wrong-error".into(), format!("exhausted range: port-0 bind failed with {:?}, expected AddrInUse", er.kind())));
                }
                break;
            }
        }
    }
    count("exhaustion_runs", 1);
    count("exhaustion_port0_binds", n_ok as u64);
    if used.len() != total {
        return Err((
            "exhaustion-early".into(),
            format!("port-0 bind failed AddrInUse after {n_ok} allocations although only {} of 16384 ports are in use", used.len()),
        ));
    }
    // Freeing one socket makes exactly its port available again, wherever
    // that port sits relative to the allocator's cursor: the most recently
    // allocated one straight after the fill (no failed attempt in between),
    // then - each time with the range full again - the 1st, 2nd, 3rd most
    // recent, two random ones and one squatted at the other local address;
    // between the checks a port-0 bind on the full range must fail AddrInUse
    // (every other time, so both cursor histories occur).
    #[derive(Clone, Copy, Debug)]
    enum Pick {
        Recent(usize),
        Random,
        Squatted,
    }
    let plan = [Pick::Recent(0), Pick::Recent(0), Pick::Recent(1), Pick::Recent(2), Pick::Random, Pick::Squatted, Pick::Random, Pick::Recent(0)];
    for (round, pick) in plan.iter().enumerate() {
        let p = match pick {
            Pick::Squatted if !pre.is_empty() => {
                let (p, s) = pre.swap_remove(0);
                drop(s);
                p
            }
            Pick::Recent(k) if order.len() > *k => {
                let p = order[order.len() - 1 - k];
                let i = socks.iter().position(|(q, _)| *q == p).unwrap();
                let (_, s) = socks.swap_remove(i);
                drop(s);
                p
            }
            _ => {
                let i = rng.usize_below(socks.len());
                let (p, s) = socks.swap_remove(i);
                drop(s);
                p
            }
        };
        order.retain(|q| *q != p);
        used.remove(&p);
        let addr = choices[round % choices.len()];
        match bind(&w, e.tcp, SocketAddr::new(addr, 0)) {
            Ok((s, q)) => {
                if q != p {
                    return Err(("exhaustion-freed-port".into(), format!("only port {p} is free ({pick:?}) but port-0 bind returned {q}")));
                }
                used.insert(q);
                socks.push((q, s));
                order.push(q);
            }
            Err(er) => {
                return Err((
                    "exhaustion-freed-port".into(),
                    format!("port {p} ({pick:?} of the allocation order) was freed, 16383 ports are in use, but port-0 bind failed with {:?}", er.kind()),
                ))
            }
        }
        if round % 2 == 0 {
            match bind(&w, e.tcp, SocketAddr::new(addr, 0)) {
                Err(er) if er.kind() == ErrorKind::AddrInUse => count("exhaustion_full_range_refusals", 1),
                Err(er) => return Err(("exhaustion-wrong-error".into(), format!("range full, port-0 bind failed with {:?}, expected AddrInUse", er.kind()))),
                Ok((_, q)) => return Err(("ephemeral-range-overrun".into(), format!("range full, port-0 bind still returned {q}"))),
            }
        }
        count("exhaustion_free_one_checks", 1);
    }
    // a TCP connect needs an ephemeral port too: none is left
    if e.tcp {
        w.cur(0);
        let mut fut = Box::pin(turmoil_net::shim::tokio::net::TcpStream::connect(SocketAddr::new(lo, 9)));
        let r = std::future::Future::poll(fut.as_mut(), &mut engine::noop_cx());
        match r {
            std::task::Poll::Ready(Err(er)) if er.kind() == ErrorKind::AddrInUse => count("exhaustion_connect_checks", 1),
            std::task::Poll::Ready(Err(er)) => {
                return Err(("exhaustion-wrong-error".into(), format!("range full: connect failed with {:?}, expected AddrInUse", er.kind())))
            }
            _ => {
                w.cur(0);
                drop(fut);
                return Err(("ephemeral-range-overrun".into(), "range full: a connect still obtained a local port".into()));
            }
        }
        w.cur(0);
        drop(fut);
    }
    // wrap-around: free 200 random, allocate 200: exactly the freed set
    let mut freed = BTreeSet::new();
    for _ in 0..200 {
        let i = rng.usize_below(socks.len());
        let (p, s) = socks.swap_remove(i);
        drop(s);
        used.remove(&p);
        freed.insert(p);
    }
    let mut back = BTreeSet::new();
    for i in 0..200 {
        let addr = choices[i % choices.len()];
        match bind(&w, e.tcp, SocketAddr::new(addr, 0)) {
            Ok((s, q)) => {
                if !freed.contains(&q) || !back.insert(q) {
                    return Err(("ephemeral-port-in-use".into(), format!("wrap-around: port-0 bind returned {q} which is not one of the free ports")));
                }
                socks.push((q, s));
            }
            Err(er) => return Err(("exhaustion-early".into(), format!("wrap-around: port-0 bind failed {:?} with {} ports free", er.kind(), 200 - i))),
        }
    }
    count("wraparound_allocations", 200);
    let c = turmoil_net::verif::host_counts_by_id(w.id(0));
    if c.sockets != total || c.binding_fds != total {
        return Err(("table-count-mismatch".into(), format!("full range: sockets={} binding_fds={} expected {total}", c.sockets, c.binding_fds)));
    }
    socks.clear();
    pre.clear();
    let c = turmoil_net::verif::host_counts_by_id(w.id(0));
    if c.sockets != 0 || c.bindings != 0 {
        return Err(("table-count-mismatch".into(), format!("after closing everything sockets={} bindings={}", c.sockets, c.bindings)));
    }
    Ok(())
}

pub fn run_one(e: &Exhaust) -> ScenarioOut {
    let mut out = ScenarioOut::default();
    let mut cnt = vec![];
    let r = engine::guarded(|| body(e, &mut cnt));
    let r = match r {
        Ok(r) => r,
        Err(msg) => Err(("kernel-panic".to_string(), msg)),
    };
    for (k, v) in cnt {
        out.count(&k, v);
    }
    out.digest = vcore::digest_str(&e.canon());
    out.nontrivial = true;
    out.sample = Some(json!({"space":"exhaust","descriptor": e.to_json()}));
    if let Err((class, detail)) = r {
        out.violate(&class, format!("C17|{class}|{}", e.canon()), format!("{class}: {detail} [{}]", e.canon()), e.to_json());
    }
    out
}
