//! C17 executor: applies a history to the real stack and to the model, then
//! runs the full probe matrix.

use std::cell::RefCell;
use std::collections::{BTreeMap, BTreeSet};
use std::io::ErrorKind;
use std::net::{IpAddr, SocketAddr};
use std::rc::Rc;
use std::task::Poll;

use turmoil_net::shim::tokio::net::{TcpListener, TcpStream, UdpSocket};
use turmoil_net::KernelConfig;

use super::model::*;
use crate::engine::{self, ip, now, Scoped, World};

pub const THR: u32 = 2;
pub const MAX: u32 = 2;
pub const R: u32 = THR * (MAX + 1) + 4;
pub const Q: u32 = THR * (MAX + 2) + 4;

#[derive(Clone, Debug)]
pub struct Complaint {
    pub class: String,
    pub detail: String,
}

#[derive(Default)]
pub struct Out {
    pub complaint: Option<Complaint>,
    pub counters: BTreeMap<String, u64>,
    pub trace: Vec<String>,
}

impl Out {
    pub fn count(&mut self, k: &str, n: u64) {
        *self.counters.entry(k.to_string()).or_default() += n;
    }
}

enum Real {
    Udp(Scoped<UdpSocket>),
    Listener(Scoped<TcpListener>),
    Stream(Scoped<TcpStream>),
}

#[derive(Default)]
struct ConnSlot {
    done: Option<Result<(), ErrorKind>>,
    stream: Option<TcpStream>,
    local: Option<SocketAddr>,
}

type Res<T = ()> = Result<T, Complaint>;

fn cp(class: &str, detail: String) -> Complaint {
    Complaint {
        class: class.to_string(),
        detail,
    }
}

struct Pending {
    id: u32,
    host: usize,
    to: SocketAddr,
    slot: Rc<RefCell<ConnSlot>>,
    /// listener the SYN reached (model's choice at that time)
    listener: Option<u32>,
    /// what the model required when the SYN was delivered
    want: Result<(), ErrorKind>,
    local: SocketAddr,
}

pub struct Exec {
    pending: Option<Pending>,
    pub model: Model,
    real: BTreeMap<u32, Real>,
    pub out: Out,
    tag: u64,
    ports_seen: BTreeSet<u16>,
    world: World,
}

#[derive(Clone, Debug, PartialEq)]
enum UdpExpect {
    Recv(u32),
    Nobody,
    /// connected receiver, source address choice of a wildcard-bound sender
    /// not determined by the property
    Either(u32),
}

impl Exec {
    pub fn new(hosts: &[Vec<IpAddr>]) -> Exec {
        let kc = KernelConfig::default().retx_threshold(THR).retx_max(MAX);
        let world = World::new(kc, hosts, |_| {});
        Exec {
            pending: None,
            model: Model {
                hosts: hosts.to_vec(),
                socks: BTreeMap::new(),
            },
            real: BTreeMap::new(),
            out: Out::default(),
            tag: 0,
            ports_seen: BTreeSet::new(),
            world,
        }
    }

    fn has_family(&self, host: usize, v4: bool) -> bool {
        self.model.hosts[host].iter().any(|a| a.is_ipv4() == v4)
    }

    pub fn check_counts(&mut self, when: &str) -> Res {
        self.out.count("table_count_checks", 1);
        for h in 0..self.model.hosts.len() {
            let want = self.model.counts(h);
            let c = turmoil_net::verif::host_counts_by_id(self.world.id(h));
            let got = (c.sockets, c.bindings, c.binding_fds, c.connections);
            if got != want {
                return Err(cp(
                    "table-count-mismatch",
                    format!("{when}: host {h} has (sockets,bindings,binding_fds,connections)={got:?}, model expects {want:?}"),
                ));
            }
        }
        Ok(())
    }

    // ---- ops ----------------------------------------------------------

    pub fn apply(&mut self, op: &Op) -> Res {
        self.out.trace.push(op.to_json().to_string());
        match op {
            Op::Bind { id, host, proto, addr, port } => self.op_bind(*id, *host, *proto, *addr, *port)?,
            Op::UdpConnect { sock, to } => self.op_uconn(*sock, *to)?,
            Op::TcpConnect { id, host, to } => {
                self.resolve_pending()?;
                self.op_tconn(*id, *host, *to)?;
            }
            Op::HalfOpen { id, host, to } => {
                self.resolve_pending()?;
                self.op_half_open(*id, *host, *to)?;
            }
            Op::CloseOne { sock } => {
                self.resolve_pending()?;
                self.op_close_one(*sock)?;
            }
            Op::Fill { sock } => {
                self.resolve_pending()?;
                if let Some(Real::Stream(s)) = self.real.get(sock) {
                    let chunk = vec![0x66u8; 64 * 1024];
                    let mut total = 0usize;
                    for _ in 0..6 {
                        if let Ok(n) = s.on().try_write(&chunk) {
                            total += n;
                        }
                        self.world.clean_rounds(3);
                    }
                    self.out.count("fill_bytes_written", total as u64);
                }
            }
            Op::Close { sock, server_first } => {
                let closed = self.model.socks.get(sock).cloned();
                self.op_close(*sock, *server_first)?;
                if let Some(c) = closed {
                    if c.role == Role::Listener {
                        self.diagnose_listener_close(&c)?;
                    }
                }
            }
        }
        self.check_counts("after op")
    }

    /// Diagnosis for one specific table mismatch right after a listener was
    /// closed: exactly the half-open children of *another, still live*
    /// listener (same port number, other address family) are gone. The
    /// signature of this complaint is the diagnosis, not the history, so the
    /// one root cause has one identity however the history reached it.
    fn diagnose_listener_close(&mut self, closed: &MSock) -> Res {
        let h = closed.host;
        let victims: Vec<u32> = self
            .model
            .socks
            .iter()
            .filter(|(_, s)| {
                s.host == h
                    && s.port == closed.port
                    && s.addr.is_ipv4() != closed.addr.is_ipv4()
                    && matches!(s.role, Role::HalfChild { listener } if self.model.socks.contains_key(&listener))
            })
            .map(|(l, _)| *l)
            .collect();
        if victims.is_empty() {
            return Ok(());
        }
        let want = self.model.counts(h);
        let c = turmoil_net::verif::host_counts_by_id(self.world.id(h));
        let k = victims.len();
        let keys_gone = {
            // binding keys that only the victims occupy
            let mut m2 = self.model.clone();
            for v in &victims {
                m2.socks.remove(v);
            }
            want.1 - m2.counts(h).1
        };
        if (c.sockets, c.bindings, c.binding_fds, c.connections) == (want.0 - k, want.1 - keys_gone, want.2 - k, want.3 - k) {
            let fam = |v4: bool| if v4 { "v4" } else { "v6" };
            return Err(Complaint {
                class: format!(
                    "diag:listener-close-reaps-other-family-half-open|closed={}-{},victim={}",
                    fam(closed.addr.is_ipv4()),
                    if closed.addr.is_unspecified() { "wildcard" } else { "specific" },
                    fam(!closed.addr.is_ipv4())
                ),
                detail: format!(
                    "closing the {} listener {} on host {h} removed {k} still-handshaking child(ren) of the live {} listener on the same port number: table has (sockets,bindings,binding_fds,connections)=({},{},{},{}), model expects {want:?}",
                    fam(closed.addr.is_ipv4()),
                    closed.sa(),
                    fam(!closed.addr.is_ipv4()),
                    c.sockets, c.bindings, c.binding_fds, c.connections
                ),
            });
        }
        Ok(())
    }

    fn op_bind(&mut self, id: u32, host: usize, proto: Proto, addr: IpAddr, port: u16) -> Res {
        if host >= self.model.hosts.len() || self.model.socks.contains_key(&id) {
            return Ok(());
        }
        let expect = self.model.bind_expect(host, proto, addr, port);
        let sa = SocketAddr::new(addr, port);
        self.world.cur(host);
        let r: std::io::Result<(Real, SocketAddr)> = match proto {
            Proto::Udp => now(UdpSocket::bind(sa)).map(|s| {
                let la = s.local_addr().unwrap();
                (Real::Udp(self.world.scoped(host, s)), la)
            }),
            Proto::Tcp => now(TcpListener::bind(sa)).map(|s| {
                let la = s.local_addr().unwrap();
                (Real::Listener(self.world.scoped(host, s)), la)
            }),
        };
        let what = format!("bind({}, host {host}, {sa})", proto.name());
        match (expect, r) {
            (BindExpect::Ok, Ok((real, la))) => {
                if la.ip() != addr {
                    return Err(cp("bind-local-addr", format!("{what} reports local address {la}")));
                }
                if port != 0 && la.port() != port {
                    return Err(cp("bind-local-addr", format!("{what} reports local address {la}")));
                }
                if port == 0 {
                    self.out.count("bind_port0_ok", 1);
                    if la.port() < EPH_LO {
                        return Err(cp("ephemeral-port-out-of-range", format!("{what} got port {}", la.port())));
                    }
                    if self.model.port_in_use(host, proto, addr.is_ipv4(), la.port()) {
                        return Err(cp(
                            "ephemeral-port-in-use",
                            format!("{what} got port {} which a live {} socket of the host already uses at another local address", la.port(), proto.name()),
                        ));
                    }
                }
                self.out.count(&format!("bind_ok_{}", proto.name()), 1);
                self.ports_seen.insert(la.port());
                self.model.socks.insert(
                    id,
                    MSock {
                        host,
                        proto,
                        addr,
                        port: la.port(),
                        role: if proto == Proto::Udp { Role::Udp { peer: None } } else { Role::Listener },
                    },
                );
                self.real.insert(id, real);
                Ok(())
            }
            (BindExpect::Ok, Err(e)) => Err(cp(
                &format!("bind-rejected:{:?}", e.kind()),
                format!("{what} failed with {:?} although no live socket conflicts and the address is local", e.kind()),
            )),
            (BindExpect::Err(kinds), Ok((real, la))) => {
                drop(real);
                Err(cp(
                    &format!("bind-accepted:want-{:?}", kinds[0]),
                    format!("{what} succeeded ({la}) although the model requires {kinds:?}"),
                ))
            }
            (BindExpect::Err(kinds), Err(e)) => {
                if kinds.len() > 1 {
                    self.out.count("bind_err_either_kind", 1);
                }
                if !kinds.contains(&e.kind()) {
                    return Err(cp(
                        &format!("bind-wrong-error:{:?}-want-{:?}", e.kind(), kinds[0]),
                        format!("{what} failed with {:?}, the model requires {kinds:?}", e.kind()),
                    ));
                }
                self.out.count(&format!("bind_err_{:?}", e.kind()), 1);
                Ok(())
            }
        }
    }

    fn op_uconn(&mut self, sock: u32, to: SocketAddr) -> Res {
        let Some(m) = self.model.socks.get(&sock) else {
            return Ok(());
        };
        if !matches!(m.role, Role::Udp { .. }) || m.addr.is_ipv4() != to.is_ipv4() {
            return Ok(());
        }
        let Some(Real::Udp(s)) = self.real.get(&sock) else {
            return Ok(());
        };
        match now(s.on().connect(to)) {
            Ok(()) => {
                self.out.count("udp_connects", 1);
                self.model.socks.get_mut(&sock).unwrap().role = Role::Udp { peer: Some(to) };
                Ok(())
            }
            Err(e) => Err(cp("udp-connect-failed", format!("UdpSocket::connect({to}) failed with {:?}", e.kind()))),
        }
    }

    fn spawn_connect(&mut self, host: usize, to: SocketAddr) -> Rc<RefCell<ConnSlot>> {
        let slot = Rc::new(RefCell::new(ConnSlot::default()));
        let s2 = slot.clone();
        self.world.spawn(host, async move {
            match TcpStream::connect(to).await {
                Ok(st) => {
                    let mut b = s2.borrow_mut();
                    b.local = st.local_addr().ok();
                    b.stream = Some(st);
                    b.done = Some(Ok(()));
                }
                Err(e) => s2.borrow_mut().done = Some(Err(e.kind())),
            }
        });
        slot
    }

    /// What the model says a connect from `host` to `to` ends with, and which
    /// listener accepts it.
    fn tconn_expect(&self, host: usize, to: SocketAddr) -> (Result<(), ErrorKind>, Option<u32>) {
        match self.model.dst_host(host, to.ip()) {
            None => (Err(ErrorKind::TimedOut), None),
            Some(d) => match self.model.select(d, Proto::Tcp, to.ip(), to.port()) {
                Some(l) => (Ok(()), Some(l)),
                None => (Err(ErrorKind::ConnectionRefused), None),
            },
        }
    }

    fn check_client_local(&self, host: usize, to: SocketAddr, local: SocketAddr) -> Res {
        let ok_ip = if to.ip().is_loopback() {
            local.ip().is_loopback()
        } else {
            self.model.hosts[host].contains(&local.ip())
        };
        if !ok_ip || local.is_ipv4() != to.is_ipv4() {
            return Err(cp("connect-local-addr", format!("connect from host {host} to {to} got local address {local}")));
        }
        if local.port() < EPH_LO {
            return Err(cp("ephemeral-port-out-of-range", format!("connect to {to} got local port {}", local.port())));
        }
        if self.model.port_in_use(host, Proto::Tcp, local.is_ipv4(), local.port()) {
            return Err(cp(
                "ephemeral-port-in-use",
                format!("connect to {to} auto-bound port {} which a live tcp socket of host {host} already uses", local.port()),
            ));
        }
        Ok(())
    }

    /// A connect whose auto-bound local endpoint equals its destination
    /// (destination is a local address and the port is the ephemeral port
    /// just allocated): "nothing listens there" is not well defined, the
    /// connecting socket itself is bound there. Undetermined, skipped.
    fn is_self_connect(&self, host: usize, to: SocketAddr) -> bool {
        if !(to.ip().is_loopback() || self.model.hosts[host].contains(&to.ip())) {
            return false;
        }
        turmoil_net::netstat(self.model.hosts[host][0])
            .entries
            .iter()
            .any(|e| e.proto == turmoil_net::Proto::Tcp && e.peer == Some(to) && e.local == to)
    }

    fn try_accept(&self, l: u32) -> Option<(TcpStream, SocketAddr)> {
        let Some(Real::Listener(s)) = self.real.get(&l) else {
            return None;
        };
        match s.on().poll_accept(&mut engine::noop_cx()) {
            Poll::Ready(Ok(x)) => Some(x),
            _ => None,
        }
    }

    fn listeners(&self) -> Vec<u32> {
        self.model
            .socks
            .iter()
            .filter(|(_, s)| s.role == Role::Listener)
            .map(|(l, _)| *l)
            .collect()
    }

    fn op_tconn(&mut self, id: u32, host: usize, to: SocketAddr) -> Res {
        if host >= self.model.hosts.len() || self.model.socks.contains_key(&id) {
            return Ok(());
        }
        if !to.ip().is_loopback() && !self.has_family(host, to.is_ipv4()) {
            self.out.count("skipped_no_source_address", 1);
            return Ok(());
        }
        let (want, want_l) = self.tconn_expect(host, to);
        let slot = self.spawn_connect(host, to);
        self.world.settle();
        let selfc = self.is_self_connect(host, to);
        if selfc {
            self.out.count("self_connect_src_equals_dst", 1);
        }
        for _ in 0..R {
            self.world.clean_round();
            if slot.borrow().done.is_some() {
                break;
            }
        }
        self.world.settle();
        if selfc && false {
            self.out.count("skipped_self_connect_undetermined", 1);
            if let Some(st) = slot.borrow_mut().stream.take() {
                drop(self.world.scoped(host, st));
            }
            self.world.clean_rounds(Q);
            return Ok(());
        }
        let got = slot.borrow().done.clone();
        let Some(got) = got else {
            return Err(cp("connect-hang", format!("connect from host {host} to {to} still pending after {R} rounds")));
        };
        if got != want {
            if let Some(st) = slot.borrow_mut().stream.take() {
                drop(self.world.scoped(host, st));
            }
            return Err(cp(
                &format!("connect-outcome:{}-want-{}", fmt_res(&got), fmt_res(&want)),
                format!("connect from host {host} to {to} ended {got:?}, the model requires {want:?}"),
            ));
        }
        self.out.count(&format!("history_connect_{}", fmt_res(&got)), 1);
        if got.is_err() {
            return Ok(());
        }
        let st = slot.borrow_mut().stream.take().unwrap();
        let local = slot.borrow().local.unwrap();
        let st = self.world.scoped(host, st);
        self.check_client_local(host, to, local)?;
        self.world.clean_round();
        let l = want_l.unwrap();
        // exactly the model's listener hands it out
        for other in self.listeners() {
            if other != l {
                if let Some((s, peer)) = self.try_accept(other) {
                    let h = self.model.socks[&other].host;
                    drop(self.world.scoped(h, s));
                    return Err(cp(
                        "accept-by-wrong-listener",
                        format!("connection {local} -> {to} was accepted by listener {} (peer {peer}) instead of {}", self.model.socks[&other].sa(), self.model.socks[&l].sa()),
                    ));
                }
            }
        }
        let Some((srv, peer)) = self.try_accept(l) else {
            return Err(cp("accept-missing", format!("connection {local} -> {to}: connect returned Ok but the listener has nothing to accept")));
        };
        let d = self.model.socks[&l].host;
        self.world.cur(d);
        let (sl, sp) = (srv.local_addr().unwrap(), srv.peer_addr().unwrap());
        let srv = self.world.scoped(d, srv);
        if peer != local || sp != local || sl != to {
            return Err(cp("accept-addr-mismatch", format!("connection {local} -> {to} accepted with local={sl} peer={sp} returned peer={peer}")));
        }
        self.ports_seen.insert(local.port());
        self.model.socks.insert(
            id,
            MSock {
                host,
                proto: Proto::Tcp,
                addr: local.ip(),
                port: local.port(),
                role: Role::Stream { peer: to, mate: id + 100_000 },
            },
        );
        self.model.socks.insert(
            id + 100_000,
            MSock {
                host: d,
                proto: Proto::Tcp,
                addr: to.ip(),
                port: to.port(),
                role: Role::Stream { peer: local, mate: id },
            },
        );
        self.real.insert(id, Real::Stream(st));
        self.real.insert(id + 100_000, Real::Stream(srv));
        Ok(())
    }

    /// Start a connect and deliver exactly its SYN: the client sits in
    /// SynSent, a selected listener has a SynReceived child whose SYN-ACK is
    /// not yet on the wire.
    fn op_half_open(&mut self, id: u32, host: usize, to: SocketAddr) -> Res {
        if host >= self.model.hosts.len() || self.model.socks.contains_key(&id) {
            return Ok(());
        }
        if !to.ip().is_loopback() && !self.has_family(host, to.is_ipv4()) {
            self.out.count("skipped_no_source_address", 1);
            return Ok(());
        }
        // loopback / own-address targets complete inside one egress: there
        // is no half-open instant to stop at
        if self.model.dst_host(host, to.ip()) == Some(host) {
            return self.op_tconn(id, host, to);
        }
        let (want, want_l) = self.tconn_expect(host, to);
        let slot = self.spawn_connect(host, to);
        self.world.settle();
        let local = turmoil_net::netstat(self.model.hosts[host][0])
            .entries
            .iter()
            .find(|e| e.proto == turmoil_net::Proto::Tcp && e.peer == Some(to) && e.state == Some(turmoil_net::NetstatState::SynSent))
            .map(|e| e.local);
        let Some(local) = local else {
            // failed on the first poll (no packet left): nothing is half open
            let got = slot.borrow().done.clone();
            return Err(cp("connect-outcome:early", format!("connect from host {host} to {to} ended {got:?} before sending a SYN")));
        };
        self.check_client_local(host, to, local)?;
        self.world.clean_round();
        self.ports_seen.insert(local.port());
        self.model.socks.insert(id, MSock { host, proto: Proto::Tcp, addr: local.ip(), port: local.port(), role: Role::Half { peer: to } });
        if let Some(l) = want_l {
            let d = self.model.socks[&l].host;
            self.model.socks.insert(id + 100_000, MSock { host: d, proto: Proto::Tcp, addr: to.ip(), port: to.port(), role: Role::HalfChild { listener: l } });
        }
        self.out.count("half_open_connects", 1);
        self.pending = Some(Pending { id, host, to, slot, listener: want_l, want, local });
        Ok(())
    }

    /// Let the half-open connect finish and bring the model up to date.
    pub fn resolve_pending(&mut self) -> Res {
        let Some(p) = self.pending.take() else {
            return Ok(());
        };
        for _ in 0..R {
            self.world.clean_round();
            if p.slot.borrow().done.is_some() {
                break;
            }
        }
        self.world.settle();
        let child = p.id + 100_000;
        // the listener the SYN reached was closed meanwhile: its child was
        // reset, the connect is refused
        let listener_closed = p.listener.map(|l| !self.model.socks.contains_key(&l)).unwrap_or(false);
        let want = if listener_closed { Err(ErrorKind::ConnectionRefused) } else { p.want.clone() };
        let got = p.slot.borrow().done.clone();
        let taken = p.slot.borrow_mut().stream.take();
        let stream = taken.map(|st| self.world.scoped(p.host, st));
        let desc = format!("half-open connect {} -> {} (host {})", p.local, p.to, p.host);
        let Some(got) = got else {
            return Err(cp("connect-hang", format!("{desc} still pending after {R} rounds")));
        };
        if got != want {
            return Err(cp(
                &format!("connect-outcome:{}-want-{}", fmt_res(&got), fmt_res(&want)),
                format!("{desc} ended {got:?}, the model requires {want:?}{}", if listener_closed { " (its listener was closed mid-handshake)" } else { "" }),
            ));
        }
        self.out.count(&format!("half_open_resolved_{}", fmt_res(&got)), 1);
        if got.is_err() {
            drop(stream);
            self.model.socks.remove(&p.id);
            self.model.socks.remove(&child);
            self.world.clean_rounds(Q);
            return Ok(());
        }
        let l = p.listener.unwrap();
        self.world.clean_round();
        let Some((srv, peer)) = self.try_accept(l) else {
            return Err(cp("accept-missing", format!("{desc}: connect returned Ok but the listener has nothing to accept")));
        };
        let d = self.model.socks[&l].host;
        self.world.cur(d);
        let (sl, sp) = (srv.local_addr().unwrap(), srv.peer_addr().unwrap());
        let srv = self.world.scoped(d, srv);
        if peer != p.local || sp != p.local || sl != p.to {
            return Err(cp("accept-addr-mismatch", format!("{desc} accepted with local={sl} peer={sp} returned peer={peer}")));
        }
        self.model.socks.get_mut(&p.id).unwrap().role = Role::Stream { peer: p.to, mate: child };
        self.model.socks.get_mut(&child).unwrap().role = Role::Stream { peer: p.local, mate: p.id };
        self.real.insert(p.id, Real::Stream(stream.unwrap()));
        self.real.insert(child, Real::Stream(srv));
        Ok(())
    }

    /// Drop one end of an established connection and let the close run;
    /// "closing a socket frees its binding": the model forgets that end.
    fn op_close_one(&mut self, sock: u32) -> Res {
        let Some(m) = self.model.socks.get(&sock).cloned() else {
            return Ok(());
        };
        let Role::Stream { peer, .. } = m.role else {
            return Ok(());
        };
        self.real.remove(&sock);
        self.world.clean_rounds(Q);
        self.model.socks.remove(&sock);
        self.out.count("close_one_end", 1);
        // diagnosis: exactly this end is still in the table, as an orphan
        // waiting in FIN_WAIT2 for a FIN its (open) peer never sends
        let want = self.model.counts(m.host);
        let c = turmoil_net::verif::host_counts_by_id(self.world.id(m.host));
        let orphan = turmoil_net::netstat(self.model.hosts[m.host][0])
            .entries
            .iter()
            .any(|e| e.proto == turmoil_net::Proto::Tcp && e.local == m.sa() && e.peer == Some(peer) && e.state == Some(turmoil_net::NetstatState::FinWait2));
        // ... or it never got as far: bytes and its FIN are queued behind
        // the peer's closed window (the peer does not read), nothing is in
        // flight, nothing probes the window
        let stalled = turmoil_net::netstat(self.model.hosts[m.host][0]).entries.iter().any(|e| {
            e.proto == turmoil_net::Proto::Tcp
                && e.local == m.sa()
                && e.peer == Some(peer)
                && e.send_q > 0
                && matches!(e.state, Some(turmoil_net::NetstatState::FinWait1) | Some(turmoil_net::NetstatState::LastAck) | Some(turmoil_net::NetstatState::Closing))
        });
        if stalled && c.sockets == want.0 + 1 && c.binding_fds == want.2 + 1 && c.connections == want.3 + 1 {
            return Err(Complaint {
                class: "diag:orphan-stalled-on-zero-window-while-peer-open".into(),
                detail: format!(
                    "{} (host {}) was dropped {Q} fault-free rounds ago with bytes queued behind the closed window of its peer {peer} (which neither reads nor closes): the socket is still in the table with its binding and 4-tuple, its data and FIN unsent and the window never probed; model expects it gone",
                    m.sa(),
                    m.host
                ),
            });
        }
        if orphan && c.sockets == want.0 + 1 && c.binding_fds == want.2 + 1 && c.connections == want.3 + 1 {
            return Err(Complaint {
                class: "diag:orphan-finwait2-keeps-binding-while-peer-open".into(),
                detail: format!(
                    "{} (host {}) was dropped {Q} fault-free rounds ago while its peer {peer} keeps the connection open: the socket is still in the table in FIN_WAIT2 with its binding and 4-tuple (no orphan timeout), model expects it gone",
                    m.sa(),
                    m.host
                ),
            });
        }
        Ok(())
    }

    fn op_close(&mut self, sock: u32, server_first: bool) -> Res {
        let Some(m) = self.model.socks.get(&sock).cloned() else {
            return Ok(());
        };
        match m.role {
            Role::Half { .. } | Role::HalfChild { .. } => return Ok(()),
            Role::Udp { .. } | Role::Listener => {
                self.real.remove(&sock);
                self.model.socks.remove(&sock);
                if m.role == Role::Listener {
                    // closing a listener resets and reaps its still
                    // handshaking children
                    let kids: Vec<u32> = self
                        .model
                        .socks
                        .iter()
                        .filter(|(_, s)| s.role == Role::HalfChild { listener: sock })
                        .map(|(l, _)| *l)
                        .collect();
                    for k in kids {
                        self.model.socks.remove(&k);
                        self.out.count("listener_closed_with_half_open_child", 1);
                    }
                }
                self.out.count(&format!("close_{}", if m.proto == Proto::Udp { "udp" } else { "listener" }), 1);
            }
            Role::Stream { mate, .. } => {
                self.resolve_pending()?;
                let (a, b) = if server_first { (sock.max(mate), sock.min(mate)) } else { (sock.min(mate), sock.max(mate)) };
                self.real.remove(&a);
                self.world.clean_round();
                self.real.remove(&b);
                self.world.clean_rounds(Q);
                self.model.socks.remove(&sock);
                self.model.socks.remove(&mate);
                self.out.count("close_stream_pair", 1);
            }
        }
        Ok(())
    }

    // ---- probes -------------------------------------------------------

    fn next_tag(&mut self) -> u64 {
        self.tag += 1;
        0xC17C_0000_0000_0000 | self.tag
    }

    fn dst_addrs(&self, v4: bool) -> Vec<IpAddr> {
        let mut v: Vec<IpAddr> = self.model.hosts.iter().flatten().copied().filter(|a| a.is_ipv4() == v4).collect();
        v.push(if v4 { ip("127.0.0.1") } else { ip("::1") });
        v.push(if v4 { ip("10.9.9.9") } else { ip("fd00::9:9") });
        v
    }

    fn udp_expect(&self, sender: &MSock, dst: SocketAddr) -> UdpExpect {
        let Some(d) = self.model.dst_host(sender.host, dst.ip()) else {
            return UdpExpect::Nobody;
        };
        let Some(l) = self.model.select(d, Proto::Udp, dst.ip(), dst.port()) else {
            return UdpExpect::Nobody;
        };
        let Role::Udp { peer } = &self.model.socks[&l].role else {
            return UdpExpect::Nobody;
        };
        // A loopback source address is host-local: on another host it names
        // that host's own loopback, not the sender. A socket connected to
        // "its" 127.0.0.1:p must never take such a datagram for its peer's;
        // for an unconnected receiver the text leaves delivery open.
        let martian = sender.addr.is_loopback() && d != sender.host;
        let Some(peer) = peer else {
            return if martian { UdpExpect::Either(l) } else { UdpExpect::Recv(l) };
        };
        if martian {
            return UdpExpect::Nobody;
        }
        if peer.port() != sender.port {
            return UdpExpect::Nobody;
        }
        // candidate source addresses
        let cands: Vec<IpAddr> = if !sender.addr.is_unspecified() {
            vec![sender.addr]
        } else if dst.ip().is_loopback() {
            vec![if dst.is_ipv4() { ip("127.0.0.1") } else { ip("::1") }]
        } else {
            self.model.hosts[sender.host].iter().copied().filter(|a| a.is_ipv4() == dst.is_ipv4()).collect()
        };
        if !cands.contains(&peer.ip()) {
            UdpExpect::Nobody
        } else if cands.len() == 1 {
            UdpExpect::Recv(l)
        } else {
            UdpExpect::Either(l)
        }
    }

    pub fn probe_udp(&mut self) -> Res {
        // fresh wildcard senders on every host/family (part of the model
        // while they live: they can legitimately receive)
        let mut probe_ids = vec![];
        for h in 0..self.model.hosts.len() {
            for v4 in [true, false] {
                let id = 900_000 + (h as u32) * 2 + v4 as u32;
                let any = if v4 { ip("0.0.0.0") } else { ip("::") };
                self.op_bind(id, h, Proto::Udp, any, 0)?;
                probe_ids.push(id);
            }
        }
        let mut ports: Vec<u16> = self.ports_seen.iter().copied().collect();
        ports.push(6);
        struct P {
            tag: u64,
            sender: u32,
            dst: SocketAddr,
            expect: UdpExpect,
        }
        let mut probes: Vec<P> = vec![];
        let senders: Vec<(u32, MSock)> = self
            .model
            .socks
            .iter()
            .filter(|(_, s)| matches!(s.role, Role::Udp { .. }))
            .map(|(l, s)| (*l, s.clone()))
            .collect();
        for (l, s) in &senders {
            let v4 = s.addr.is_ipv4();
            // a wildcard-bound sender on a host without an address of the
            // family has no defined source address for non-loopback targets
            let can_remote = !s.addr.is_unspecified() || self.has_family(s.host, v4);
            for a in self.dst_addrs(v4) {
                if !a.is_loopback() && !can_remote {
                    self.out.count("skipped_no_source_address", 1);
                    continue;
                }
                for p in &ports {
                    let dst = SocketAddr::new(a, *p);
                    let tag = self.next_tag();
                    let Some(Real::Udp(sock)) = self.real.get(l) else { continue };
                    match sock.on().try_send_to(&tag.to_be_bytes(), dst) {
                        Ok(8) => {}
                        r => {
                            self.out.count("udp_probe_send_error", 1);
                            self.out.trace.push(format!("send_to {dst} from {} -> {r:?}", s.sa()));
                            continue;
                        }
                    }
                    let expect = self.udp_expect(s, dst);
                    probes.push(P { tag, sender: *l, dst, expect });
                }
            }
        }
        self.world.clean_rounds(2);
        // drain every live UDP socket
        let mut got: BTreeMap<u64, Vec<(u32, SocketAddr)>> = BTreeMap::new();
        for (l, r) in self.real.iter() {
            if let Real::Udp(s) = r {
                let mut buf = [0u8; 64];
                while let Ok((n, from)) = s.on().try_recv_from(&mut buf) {
                    if n != 8 {
                        return Err(cp("udp-payload", format!("socket {l} received a {n}-byte datagram, probes are 8 bytes")));
                    }
                    let tag = u64::from_be_bytes(buf[..8].try_into().unwrap());
                    got.entry(tag).or_default().push((*l, from));
                }
            }
        }
        for p in &probes {
            let s = &self.model.socks[&p.sender];
            let rx = got.remove(&p.tag).unwrap_or_default();
            let desc = format!("udp probe from {} (host {}) to {}", s.sa(), s.host, p.dst);
            let rx_desc: Vec<String> = rx
                .iter()
                .map(|(l, f)| format!("{}@host{} (from {f})", self.model.socks[l].sa(), self.model.socks[l].host))
                .collect();
            let ok = match &p.expect {
                UdpExpect::Recv(l) => rx.len() == 1 && rx[0].0 == *l,
                UdpExpect::Nobody => rx.is_empty(),
                UdpExpect::Either(l) => rx.is_empty() || (rx.len() == 1 && rx[0].0 == *l),
            };
            if !ok {
                let (class, want) = match &p.expect {
                    UdpExpect::Recv(l) | UdpExpect::Either(l) => {
                        let m = &self.model.socks[l];
                        let c = if rx.is_empty() {
                            "udp-not-delivered"
                        } else if rx.len() > 1 {
                            "udp-duplicated"
                        } else {
                            "udp-wrong-socket"
                        };
                        (c, format!("{}@host{}", m.sa(), m.host))
                    }
                    UdpExpect::Nobody => {
                        let filtered = self
                            .model
                            .dst_host(s.host, p.dst.ip())
                            .and_then(|d| self.model.select(d, Proto::Udp, p.dst.ip(), p.dst.port()))
                            .is_some();
                        (if filtered { "udp-connected-filter-bypassed" } else { "udp-delivered-to-unbound" }, "nobody".to_string())
                    }
                };
                return Err(cp(class, format!("{desc}: received by {rx_desc:?}, model selects {want}")));
            }
            for (_, from) in &rx {
                let ip_ok = if !s.addr.is_unspecified() {
                    from.ip() == s.addr
                } else if p.dst.ip().is_loopback() {
                    from.ip().is_loopback()
                } else {
                    self.model.hosts[s.host].contains(&from.ip())
                };
                if from.port() != s.port || !ip_ok {
                    return Err(cp("udp-from-address", format!("{desc}: receiver saw source {from}")));
                }
            }
            let k = match (&p.expect, rx.is_empty()) {
                (UdpExpect::Recv(_), _) => "udp_probe_delivered",
                (UdpExpect::Either(_), false) => "udp_probe_either_delivered",
                (UdpExpect::Either(_), true) => "udp_probe_either_filtered",
                (UdpExpect::Nobody, _) => {
                    if self.model.dst_host(s.host, p.dst.ip()).is_none() {
                        "udp_probe_unowned_vanished"
                    } else if self.model.select(self.model.dst_host(s.host, p.dst.ip()).unwrap(), Proto::Udp, p.dst.ip(), p.dst.port()).is_some() {
                        "udp_probe_connected_filtered"
                    } else {
                        "udp_probe_no_socket"
                    }
                }
            };
            self.out.count(k, 1);
            if matches!(p.expect, UdpExpect::Recv(_)) {
                let l = rx[0].0;
                let m = &self.model.socks[&l];
                let how = if m.addr.is_unspecified() { "wildcard" } else { "exact" };
                let conn = matches!(m.role, Role::Udp { peer: Some(_) });
                self.out.count(&format!("udp_delivered_via_{how}{}", if conn { "_connected" } else { "" }), 1);
            }
        }
        if let Some((tag, rx)) = got.iter().next() {
            return Err(cp("udp-unknown-datagram", format!("datagram with unknown tag {tag:x} received by {rx:?}")));
        }
        for id in probe_ids {
            self.real.remove(&id);
            self.model.socks.remove(&id);
        }
        Ok(())
    }

    /// Every established pair still exchanges data both ways.
    pub fn exchange_established(&mut self, when: &str) -> Res {
        let pairs: Vec<(u32, u32)> = self
            .model
            .socks
            .iter()
            .filter_map(|(l, s)| match s.role {
                Role::Stream { mate, .. } if *l < mate => Some((*l, mate)),
                _ => None,
            })
            .collect();
        let mut sent: Vec<(u32, u32, u64)> = vec![];
        for (a, b) in &pairs {
            for (x, y) in [(*a, *b), (*b, *a)] {
                let tag = self.next_tag();
                if let Some(Real::Stream(s)) = self.real.get(&x) {
                    match s.on().try_write(&tag.to_be_bytes()) {
                        Ok(8) => sent.push((x, y, tag)),
                        r => return Err(cp("established-write-failed", format!("{when}: write on established {} failed: {r:?}", self.model.socks[&x].sa()))),
                    }
                }
            }
        }
        self.world.clean_rounds(2);
        for (x, y, tag) in sent {
            let mut buf = [0u8; 64];
            let Some(Real::Stream(s)) = self.real.get(&y) else { continue };
            let r = s.on().try_read(&mut buf);
            let ok = matches!(r, Ok(8)) && buf[..8] == tag.to_be_bytes();
            if !ok {
                return Err(cp(
                    "established-misrouted",
                    format!("{when}: bytes written on {} did not arrive at its peer {} (read {r:?})", self.model.socks[&x].sa(), self.model.socks[&y].sa()),
                ));
            }
            self.out.count("established_exchanges", 1);
        }
        Ok(())
    }

    pub fn probe_tcp(&mut self) -> Res {
        let mut ports: Vec<u16> = self.ports_seen.iter().copied().collect();
        ports.push(6);
        struct P {
            host: usize,
            dst: SocketAddr,
            slot: Rc<RefCell<ConnSlot>>,
            want: Result<(), ErrorKind>,
            want_l: Option<u32>,
            tag: u64,
            stream: Option<Scoped<TcpStream>>,
            local: Option<SocketAddr>,
            accepted: u32,
            selfc: bool,
        }
        let mut probes: Vec<P> = vec![];
        for h in 0..self.model.hosts.len() {
            for v4 in [true, false] {
                for a in self.dst_addrs(v4) {
                    if !a.is_loopback() && !self.has_family(h, v4) {
                        self.out.count("skipped_no_source_address", 1);
                        continue;
                    }
                    for p in &ports {
                        let dst = SocketAddr::new(a, *p);
                        let (want, want_l) = self.tconn_expect(h, dst);
                        let slot = self.spawn_connect(h, dst);
                        let tag = self.next_tag();
                        probes.push(P { host: h, dst, slot, want, want_l, tag, stream: None, local: None, accepted: 0, selfc: false });
                    }
                }
            }
        }
        self.world.settle();
        for p in probes.iter_mut() {
            p.selfc = self.is_self_connect(p.host, p.dst);
        }
        for _ in 0..R + 2 {
            self.world.clean_round();
            if probes.iter().all(|p| p.slot.borrow().done.is_some()) {
                break;
            }
        }
        self.world.settle();
        let mut locals: BTreeMap<(usize, SocketAddr), usize> = BTreeMap::new();
        for (i, p) in probes.iter_mut().enumerate() {
            let got = p.slot.borrow().done.clone();
            let taken = p.slot.borrow_mut().stream.take();
            if let Some(st) = taken {
                p.stream = Some(Scoped::new(self.world.id(p.host), st));
                p.local = p.slot.borrow().local;
            }
            let desc = format!("tcp probe from host {} to {}", p.host, p.dst);
            if p.selfc {
                self.out.count("self_connect_src_equals_dst", 1);
            }
            if p.selfc && false {
                self.out.count("skipped_self_connect_undetermined", 1);
                p.stream = None;
                p.local = None;
                p.want = Err(ErrorKind::Other);
                continue;
            }
            let Some(got) = got else {
                return Err(cp("connect-hang", format!("{desc} still pending after {} rounds", R + 2)));
            };
            if got != p.want {
                return Err(cp(
                    &format!("tcp-probe:{}-want-{}", fmt_res(&got), fmt_res(&p.want)),
                    format!("{desc} ended {got:?}, the model requires {:?}", p.want),
                ));
            }
            self.out.count(&format!("tcp_probe_{}", fmt_res(&got)), 1);
            if let (Some(s), Some(l)) = (p.stream.as_ref(), p.local) {
                if locals.insert((p.host, l), i).is_some() {
                    return Err(cp("ephemeral-port-in-use", format!("{desc}: local address {l} handed to two live connections")));
                }
                let _ = s.on().try_write(&p.tag.to_be_bytes());
            }
        }
        for p in probes.iter() {
            if let Some(l) = p.local {
                self.check_client_local(p.host, p.dst, l)?;
            }
        }
        self.world.clean_rounds(2);
        let mut acc_streams: Vec<Scoped<TcpStream>> = vec![];
        for l in self.listeners() {
            let lh = self.model.socks[&l].host;
            for _ in 0..probes.len() + 2 {
                let Some((st, peer)) = self.try_accept(l) else { break };
                let st = Scoped::new(self.world.id(lh), st);
                let ph = if peer.ip().is_loopback() { lh } else { self.model.owner(peer.ip()).unwrap_or(usize::MAX) };
                let Some(&i) = locals.get(&(ph, peer)) else {
                    return Err(cp("accept-unknown-connection", format!("listener {} accepted a connection from {peer}; no probe has that address", self.model.socks[&l].sa())));
                };
                let p = &mut probes[i];
                if p.want_l != Some(l) {
                    return Err(cp(
                        "accept-by-wrong-listener",
                        format!("tcp probe {} -> {} was accepted by listener {}@host{}, the model selects {:?}", peer, p.dst, self.model.socks[&l].sa(), lh, p.want_l.map(|x| self.model.socks[&x].sa())),
                    ));
                }
                p.accepted += 1;
                let la = st.on().local_addr().unwrap();
                let mut buf = [0u8; 16];
                let r = st.on().try_read(&mut buf);
                if la != p.dst || !matches!(r, Ok(8)) || buf[..8] != p.tag.to_be_bytes() {
                    return Err(cp("accept-addr-mismatch", format!("tcp probe {peer} -> {}: accepted stream has local {la}, nonce read {r:?}", p.dst)));
                }
                let m = &self.model.socks[&l];
                self.out.count(&format!("tcp_accepted_via_{}", if m.addr.is_unspecified() { "wildcard" } else { "exact" }), 1);
                acc_streams.push(st);
            }
        }
        for p in &probes {
            if p.want.is_ok() && p.accepted != 1 {
                return Err(cp(
                    if p.accepted == 0 { "accept-missing" } else { "accept-duplicate" },
                    format!("tcp probe {:?} -> {} was handed out by accept {} times", p.local, p.dst, p.accepted),
                ));
            }
        }
        // established connections are undisturbed while probes are open
        self.exchange_established("with probe connections open")?;
        for p in probes.iter_mut() {
            p.stream = None;
        }
        self.world.clean_round();
        acc_streams.clear();
        self.world.clean_rounds(Q);
        Ok(())
    }

    pub fn finish(&mut self) {
        self.real.clear();
    }
}

fn fmt_res(r: &Result<(), ErrorKind>) -> String {
    match r {
        Ok(()) => "ok".into(),
        Err(k) => format!("{k:?}"),
    }
}

pub fn run_history(h: &History) -> Out {
    let r = engine::guarded(|| {
        let mut ex = Exec::new(&h.hosts);
        let body = |ex: &mut Exec| -> Res {
            for op in &h.ops {
                ex.apply(op)?;
            }
            ex.resolve_pending()?;
            ex.check_counts("after resolving the half-open connect")?;
            ex.out.count("histories_probed", 1);
            ex.exchange_established("before probes")?;
            ex.probe_udp()?;
            ex.check_counts("after udp probes")?;
            ex.probe_tcp()?;
            ex.check_counts("after tcp probes")?;
            ex.exchange_established("after probes")?;
            Ok(())
        };
        if let Err(c) = body(&mut ex) {
            ex.out.complaint = Some(c);
        }
        ex.finish();
        std::mem::take(&mut ex.out)
    });
    match r {
        Ok(o) => o,
        Err(msg) => {
            let mut o = Out::default();
            let loc = msg.rsplit(" @ ").find(|s| s.contains("turmoil-net/src")).unwrap_or("?");
            let loc = loc.split("turmoil-net/").last().unwrap_or(loc).to_string();
            o.complaint = Some(cp(&format!("kernel-panic:{loc}"), format!("panic inside turmoil-net: {msg}")));
            o
        }
    }
}
