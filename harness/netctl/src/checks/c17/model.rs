//! C17 reference model of a host's socket table (written from the property
//! text) and the op/history data model.

use std::collections::BTreeMap;
use std::io::ErrorKind;
use std::net::{IpAddr, SocketAddr};

use serde_json::{json, Value};

#[derive(Clone, Copy, PartialEq, Eq, Debug, PartialOrd, Ord)]
pub enum Proto {
    Udp,
    Tcp,
}

impl Proto {
    pub fn name(&self) -> &'static str {
        match self {
            Proto::Udp => "udp",
            Proto::Tcp => "tcp",
        }
    }
}

#[derive(Clone, Debug, PartialEq)]
pub enum Role {
    Udp { peer: Option<SocketAddr> },
    Listener,
    /// one end of an established connection; `mate` = label of the other end
    Stream { peer: SocketAddr, mate: u32 },
    /// client socket of a connect whose handshake is still in flight
    Half { peer: SocketAddr },
    /// half-open child created by a SYN that reached `listener`; it lives and
    /// dies with that listener until the handshake completes
    HalfChild { listener: u32 },
}

#[derive(Clone, Debug)]
pub struct MSock {
    pub host: usize,
    pub proto: Proto,
    pub addr: IpAddr,
    pub port: u16,
    pub role: Role,
}

impl MSock {
    pub fn sa(&self) -> SocketAddr {
        SocketAddr::new(self.addr, self.port)
    }
}

#[derive(Clone, Debug, PartialEq)]
pub enum Op {
    Bind { id: u32, host: usize, proto: Proto, addr: IpAddr, port: u16 },
    UdpConnect { sock: u32, to: SocketAddr },
    TcpConnect { id: u32, host: usize, to: SocketAddr },
    /// start a connect and deliver only its SYN; the handshake is completed
    /// ("resolved") before the next op that moves packets
    HalfOpen { id: u32, host: usize, to: SocketAddr },
    Close { sock: u32, server_first: bool },
    /// the application drops only this end of an established connection;
    /// the peer keeps its end open (idle pooled connection)
    CloseOne { sock: u32 },
    /// write on this end until the peer's receive buffer is full (the peer
    /// never reads) and more bytes are queued behind the closed window
    Fill { sock: u32 },
}

impl Op {
    pub fn to_json(&self) -> Value {
        match self {
            Op::Bind { id, host, proto, addr, port } => {
                json!({"op":"bind","id":id,"host":host,"proto":proto.name(),"addr":addr.to_string(),"port":port})
            }
            Op::UdpConnect { sock, to } => json!({"op":"uconn","sock":sock,"to":to.to_string()}),
            Op::TcpConnect { id, host, to } => json!({"op":"tconn","id":id,"host":host,"to":to.to_string()}),
            Op::HalfOpen { id, host, to } => json!({"op":"thalf","id":id,"host":host,"to":to.to_string()}),
            Op::Close { sock, server_first } => json!({"op":"close","sock":sock,"server_first":server_first}),
            Op::CloseOne { sock } => json!({"op":"closeone","sock":sock}),
            Op::Fill { sock } => json!({"op":"fill","sock":sock}),
        }
    }
    pub fn from_json(v: &Value) -> Option<Op> {
        let u = |k: &str| v[k].as_u64();
        Some(match v["op"].as_str()? {
            "bind" => Op::Bind {
                id: u("id")? as u32,
                host: u("host")? as usize,
                proto: if v["proto"].as_str()? == "udp" { Proto::Udp } else { Proto::Tcp },
                addr: v["addr"].as_str()?.parse().ok()?,
                port: u("port")? as u16,
            },
            "uconn" => Op::UdpConnect {
                sock: u("sock")? as u32,
                to: v["to"].as_str()?.parse().ok()?,
            },
            "tconn" => Op::TcpConnect {
                id: u("id")? as u32,
                host: u("host")? as usize,
                to: v["to"].as_str()?.parse().ok()?,
            },
            "thalf" => Op::HalfOpen {
                id: u("id")? as u32,
                host: u("host")? as usize,
                to: v["to"].as_str()?.parse().ok()?,
            },
            "closeone" => Op::CloseOne { sock: u("sock")? as u32 },
            "fill" => Op::Fill { sock: u("sock")? as u32 },
            "close" => Op::Close {
                sock: u("sock")? as u32,
                server_first: v["server_first"].as_bool().unwrap_or(false),
            },
            _ => return None,
        })
    }
}

#[derive(Clone, Debug, PartialEq)]
pub struct History {
    /// addresses of each host
    pub hosts: Vec<Vec<IpAddr>>,
    pub ops: Vec<Op>,
}

impl History {
    pub fn to_json(&self) -> Value {
        json!({
            "kind": "history",
            "hosts": self.hosts.iter().map(|h| h.iter().map(|a| a.to_string()).collect::<Vec<_>>()).collect::<Vec<_>>(),
            "ops": self.ops.iter().map(|o| o.to_json()).collect::<Vec<_>>(),
        })
    }
    pub fn from_json(v: &Value) -> History {
        History {
            hosts: v["hosts"]
                .as_array()
                .map(|hs| {
                    hs.iter()
                        .map(|h| {
                            h.as_array()
                                .map(|a| a.iter().filter_map(|s| s.as_str().and_then(|s| s.parse().ok())).collect())
                                .unwrap_or_default()
                        })
                        .collect()
                })
                .unwrap_or_default(),
            ops: v["ops"]
                .as_array()
                .map(|a| a.iter().filter_map(Op::from_json).collect())
                .unwrap_or_default(),
        }
    }

    /// Canonical text: hosts/addresses/ports/labels renamed in order of first
    /// use, so equal-shaped histories get equal signatures.
    pub fn canon(&self) -> String {
        let mut addrs: BTreeMap<IpAddr, String> = BTreeMap::new();
        let mut ports: BTreeMap<u16, String> = BTreeMap::new();
        let mut labels: BTreeMap<u32, String> = BTreeMap::new();
        let own = |hosts: &Vec<Vec<IpAddr>>, a: &IpAddr| -> String {
            for (h, v) in hosts.iter().enumerate() {
                if let Some(i) = v.iter().position(|x| x == a) {
                    return format!("h{h}a{i}{}", if a.is_ipv4() { "" } else { "6" });
                }
            }
            if a.is_unspecified() {
                return if a.is_ipv4() { "any".into() } else { "any6".into() };
            }
            if a.is_loopback() {
                return if a.is_ipv4() { "lo".into() } else { "lo6".into() };
            }
            if a.is_ipv4() {
                "unk".into()
            } else {
                "unk6".into()
            }
        };
        let mut an = |a: &IpAddr| -> String { addrs.entry(*a).or_insert_with(|| own(&self.hosts, a)).clone() };
        let mut pn = |p: u16| -> String {
            if p == 0 {
                return "0".into();
            }
            let n = ports.len();
            ports
                .entry(p)
                .or_insert_with(|| format!("{}{}", if p >= 49152 { "e" } else { "p" }, n))
                .clone()
        };
        let mut out = vec![];
        for op in &self.ops {
            match op {
                Op::Bind { id, host, proto, addr, port } => {
                    let n = labels.len();
                    let l = labels.entry(*id).or_insert_with(|| format!("s{n}")).clone();
                    out.push(format!("{l}=bind({},h{host},{}:{})", proto.name(), an(addr), pn(*port)));
                }
                Op::UdpConnect { sock, to } => {
                    let l = labels.get(sock).cloned().unwrap_or("s?".into());
                    out.push(format!("uconn({l},{}:{})", an(&to.ip()), pn(to.port())));
                }
                Op::TcpConnect { id, host, to } => {
                    let n = labels.len();
                    let l = labels.entry(*id).or_insert_with(|| format!("s{n}")).clone();
                    out.push(format!("{l}=tconn(h{host},{}:{})", an(&to.ip()), pn(to.port())));
                }
                Op::HalfOpen { id, host, to } => {
                    let n = labels.len();
                    let l = labels.entry(*id).or_insert_with(|| format!("s{n}")).clone();
                    out.push(format!("{l}=thalf(h{host},{}:{})", an(&to.ip()), pn(to.port())));
                }
                Op::Close { sock, .. } => {
                    let l = labels.get(sock).cloned().unwrap_or("s?".into());
                    out.push(format!("close({l})"));
                }
                Op::Fill { sock } => {
                    let l = labels.get(&(sock % 100_000)).cloned().unwrap_or("s?".into());
                    out.push(format!("fill({l}{})", if *sock >= 100_000 { "'" } else { "" }));
                }
                Op::CloseOne { sock } => {
                    let l = labels.get(&(sock % 100_000)).cloned().unwrap_or("s?".into());
                    out.push(format!("closeone({l}{})", if *sock >= 100_000 { "'" } else { "" }));
                }
            }
        }
        let hs: Vec<String> = self
            .hosts
            .iter()
            .map(|h| {
                format!(
                    "{}v4+{}v6",
                    h.iter().filter(|a| a.is_ipv4()).count(),
                    h.iter().filter(|a| a.is_ipv6()).count()
                )
            })
            .collect();
        format!("{}|{}", hs.join("/"), out.join(";"))
    }
}

/// What the model admits for a bind.
#[derive(Debug, Clone, PartialEq)]
pub enum BindExpect {
    Ok,
    Err(Vec<ErrorKind>),
}

#[derive(Default, Clone)]
pub struct Model {
    pub hosts: Vec<Vec<IpAddr>>,
    pub socks: BTreeMap<u32, MSock>,
}

pub const EPH_LO: u16 = 49152;

impl Model {
    pub fn is_local(&self, host: usize, a: IpAddr) -> bool {
        a.is_loopback() || self.hosts[host].contains(&a)
    }

    pub fn owner(&self, a: IpAddr) -> Option<usize> {
        self.hosts.iter().position(|h| h.contains(&a))
    }

    /// live sockets of `host` with the same protocol and family on `port`
    pub fn on_port(&self, host: usize, proto: Proto, v4: bool, port: u16) -> impl Iterator<Item = (&u32, &MSock)> {
        self.socks
            .iter()
            .filter(move |(_, s)| s.host == host && s.proto == proto && s.addr.is_ipv4() == v4 && s.port == port)
    }

    pub fn port_in_use(&self, host: usize, proto: Proto, v4: bool, port: u16) -> bool {
        self.on_port(host, proto, v4, port).next().is_some()
    }

    pub fn bind_expect(&self, host: usize, proto: Proto, addr: IpAddr, port: u16) -> BindExpect {
        let local = addr.is_unspecified() || self.is_local(host, addr);
        let conflict = port != 0
            && self
                .on_port(host, proto, addr.is_ipv4(), port)
                .any(|(_, s)| s.addr == addr || s.addr.is_unspecified() || addr.is_unspecified());
        match (local, conflict) {
            (true, false) => BindExpect::Ok,
            (true, true) => BindExpect::Err(vec![ErrorKind::AddrInUse]),
            (false, false) => BindExpect::Err(vec![ErrorKind::AddrNotAvailable]),
            (false, true) => BindExpect::Err(vec![ErrorKind::AddrNotAvailable, ErrorKind::AddrInUse]),
        }
    }

    /// Host that would receive a packet sent by `src_host` to `ip`.
    pub fn dst_host(&self, src_host: usize, ip: IpAddr) -> Option<usize> {
        if ip.is_loopback() {
            Some(src_host)
        } else {
            self.owner(ip)
        }
    }

    /// The socket a datagram/SYN for (ip, port) selects on host `d`: exact
    /// address before wildcard. `want_listener` restricts TCP to listeners.
    pub fn select(&self, d: usize, proto: Proto, ip: IpAddr, port: u16) -> Option<u32> {
        let cands: Vec<(&u32, &MSock)> = self
            .on_port(d, proto, ip.is_ipv4(), port)
            .filter(|(_, s)| match proto {
                Proto::Tcp => s.role == Role::Listener,
                Proto::Udp => true,
            })
            .collect();
        if let Some((l, _)) = cands.iter().find(|(_, s)| s.addr == ip) {
            return Some(**l);
        }
        cands.iter().find(|(_, s)| s.addr.is_unspecified()).map(|(l, _)| **l)
    }

    /// expected (sockets, distinct binding keys, binding fds, connections)
    pub fn counts(&self, host: usize) -> (usize, usize, usize, usize) {
        let mine: Vec<&MSock> = self.socks.values().filter(|s| s.host == host).collect();
        let mut keys = std::collections::BTreeSet::new();
        for s in &mine {
            keys.insert((s.proto, s.addr, s.port));
        }
        let conns = mine
            .iter()
            .filter(|s| matches!(s.role, Role::Stream { .. } | Role::Half { .. } | Role::HalfChild { .. }))
            .count();
        (mine.len(), keys.len(), mine.len(), conns)
    }
}
