//! C17 — turmoil-net binds and routes packets like a real socket table.
//!
//! Sub-spaces: `hist` (random bind/connect/close histories checked op by op
//! against a socket-table reference model, followed by the full UDP + TCP
//! probe matrix), `exhaust` (ephemeral range exhaustion / free-one /
//! wrap-around), `directed` (fixed histories).

mod exec;
mod exhaust;
mod model;

use std::net::{IpAddr, SocketAddr};

use serde_json::json;
use vcore::{Ctx, Finish, Report, Rng, RunOpts, ScenarioOut};

use crate::engine::ip;
use exec::{run_history, Out};
use model::*;

fn gen_hosts(rng: &mut Rng) -> Vec<Vec<IpAddr>> {
    let n = rng.range(2, 3) as usize;
    let mut hosts = vec![];
    for h in 0..n {
        let k = rng.range(1, 3) as usize;
        let mut v: Vec<IpAddr> = vec![];
        for i in 0..k {
            let v4 = if i == 0 && h == 0 { true } else { rng.chance(0.6) };
            v.push(if v4 { ip(&format!("10.0.{h}.{}", i + 1)) } else { ip(&format!("fd00::{h}:{}", i + 1)) });
        }
        hosts.push(v);
    }
    hosts
}

fn pick_addr(rng: &mut Rng, hosts: &[Vec<IpAddr>], host: usize, for_bind: bool) -> IpAddr {
    let v4 = if hosts[host].iter().any(|a| a.is_ipv6()) { rng.chance(0.6) } else { rng.chance(0.85) };
    let fam = |a: &&IpAddr| a.is_ipv4() == v4;
    let w = rng.below(100);
    let own: Vec<&IpAddr> = hosts[host].iter().filter(fam).collect();
    let others: Vec<&IpAddr> = hosts.iter().enumerate().filter(|(h, _)| *h != host).flat_map(|(_, v)| v.iter()).filter(fam).collect();
    let any = if v4 { ip("0.0.0.0") } else { ip("::") };
    let lo = if v4 { ip("127.0.0.1") } else { ip("::1") };
    let unk = if v4 { ip("10.9.9.9") } else { ip("fd00::9:9") };
    if for_bind {
        match w {
            0..=24 => any,
            25..=39 => lo,
            40..=79 if !own.is_empty() => **rng.pick(&own),
            80..=89 if !others.is_empty() => **rng.pick(&others),
            90..=99 => unk,
            _ => any,
        }
    } else {
        match w {
            0..=14 => lo,
            15..=39 if !own.is_empty() => **rng.pick(&own),
            40..=89 if !others.is_empty() => **rng.pick(&others),
            90..=99 => unk,
            _ => lo,
        }
    }
}

const PORTS: [u16; 4] = [5000, 5001, 49152, 49153];

/// Concrete address under which socket `s` can be reached from `from_host`.
fn reach_addr(rng: &mut Rng, m: &Model, s: &MSock, from_host: usize) -> IpAddr {
    if !s.addr.is_unspecified() {
        return s.addr;
    }
    let v4 = s.addr.is_ipv4();
    let mut c: Vec<IpAddr> = m.hosts[s.host].iter().copied().filter(|a| a.is_ipv4() == v4).collect();
    if from_host == s.host {
        c.push(if v4 { ip("127.0.0.1") } else { ip("::1") });
    }
    if c.is_empty() {
        return if v4 { ip("127.0.0.1") } else { ip("::1") };
    }
    *rng.pick(&c)
}

fn gen_history(seed: u64) -> History {
    let mut rng = Rng::new(seed);
    let hosts = gen_hosts(&mut rng);
    // abstract model, only to keep label references meaningful
    let mut m = Model { hosts: hosts.clone(), socks: Default::default() };
    let n = rng.range(5, 60);
    let mut ops = vec![];
    let mut next_id = 1u32;
    let mut fake_port = 60000u16;
    // scripted follow-ups (re-bind after close, listener close + re-bind
    // while a connect is half open)
    let mut forced: std::collections::VecDeque<Op> = Default::default();
    // a half-open connect not yet resolved: (client label, listener label)
    let mut half: Option<(u32, u32)> = None;
    while (ops.len() as u64) < n {
        if let Some(op) = forced.pop_front() {
            match &op {
                Op::Bind { id, host, proto, addr, port } => {
                    if m.bind_expect(*host, *proto, *addr, *port) == BindExpect::Ok {
                        m.socks.insert(*id, MSock { host: *host, proto: *proto, addr: *addr, port: *port, role: if *proto == Proto::Udp { Role::Udp { peer: None } } else { Role::Listener } });
                    }
                }
                Op::Close { sock, .. } => {
                    m.socks.remove(sock);
                    if let Some((c, l)) = half {
                        if l == *sock {
                            m.socks.remove(&c);
                            m.socks.remove(&(c + 100_000));
                            half = None;
                        }
                    }
                }
                _ => {}
            }
            ops.push(op);
            continue;
        }
        let w = rng.below(100);
        let host = rng.usize_below(hosts.len());
        match w {
            0..=44 => {
                let proto = if rng.coin() { Proto::Udp } else { Proto::Tcp };
                let addr = pick_addr(&mut rng, &hosts, host, true);
                let port = if rng.chance(0.2) { 0 } else { *rng.pick(&PORTS) };
                let id = next_id;
                next_id += 1;
                if m.bind_expect(host, proto, addr, port) == BindExpect::Ok {
                    let p = if port == 0 {
                        fake_port += 1;
                        fake_port
                    } else {
                        port
                    };
                    m.socks.insert(id, MSock { host, proto, addr, port: p, role: if proto == Proto::Udp { Role::Udp { peer: None } } else { Role::Listener } });
                }
                ops.push(Op::Bind { id, host, proto, addr, port });
            }
            45..=54 => {
                let udps: Vec<(u32, MSock)> = m.socks.iter().filter(|(_, s)| matches!(s.role, Role::Udp { .. })).map(|(l, s)| (*l, s.clone())).collect();
                if udps.is_empty() {
                    continue;
                }
                let (sock, s) = rng.pick(&udps).clone();
                let to = if rng.chance(0.75) {
                    let (_, t) = rng.pick(&udps).clone();
                    if t.addr.is_ipv4() != s.addr.is_ipv4() {
                        continue;
                    }
                    SocketAddr::new(reach_addr(&mut rng, &m, &t, s.host), if t.port >= 60000 { *rng.pick(&PORTS) } else { t.port })
                } else {
                    let a = pick_addr(&mut rng, &hosts, s.host, false);
                    if a.is_ipv4() != s.addr.is_ipv4() {
                        continue;
                    }
                    SocketAddr::new(a, *rng.pick(&PORTS))
                };
                if let Some(x) = m.socks.get_mut(&sock) {
                    x.role = Role::Udp { peer: Some(to) };
                }
                ops.push(Op::UdpConnect { sock, to });
            }
            55..=74 => {
                half = None;
                let half_open = rng.chance(0.4);
                let ls: Vec<(u32, MSock)> = m
                    .socks
                    .iter()
                    .filter(|(_, s)| s.role == Role::Listener && s.port < 60000 && (!half_open || s.host != host))
                    .map(|(l, s)| (*l, s.clone()))
                    .collect();
                let to = if !ls.is_empty() && rng.chance(if half_open { 0.9 } else { 0.75 }) {
                    // half-open connects prefer wildcard listeners: their
                    // children are bound to a concrete address
                    let wild: Vec<&(u32, MSock)> = ls.iter().filter(|(_, s)| s.addr.is_unspecified()).collect();
                    let t = if half_open && !wild.is_empty() && rng.chance(0.7) { (*rng.pick(&wild)).1.clone() } else { rng.pick(&ls).1.clone() };
                    SocketAddr::new(reach_addr(&mut rng, &m, &t, host), t.port)
                } else {
                    SocketAddr::new(pick_addr(&mut rng, &hosts, host, false), *rng.pick(&PORTS))
                };
                let id = next_id;
                next_id += 1;
                let mut reached: Option<u32> = None;
                if let Some(d) = m.dst_host(host, to.ip()) {
                    if m.select(d, Proto::Tcp, to.ip(), to.port()).is_some() && (to.ip().is_loopback() || hosts[host].iter().any(|a| a.is_ipv4() == to.is_ipv4())) {
                        reached = m.select(d, Proto::Tcp, to.ip(), to.port());
                        fake_port += 1;
                        let la = if to.ip().is_loopback() { to.ip() } else { *hosts[host].iter().find(|a| a.is_ipv4() == to.is_ipv4()).unwrap() };
                        m.socks.insert(id, MSock { host, proto: Proto::Tcp, addr: la, port: fake_port, role: Role::Stream { peer: to, mate: id + 100_000 } });
                        m.socks.insert(id + 100_000, MSock { host: d, proto: Proto::Tcp, addr: to.ip(), port: to.port(), role: Role::Stream { peer: SocketAddr::new(la, fake_port), mate: id } });
                    }
                }
                if half_open {
                    ops.push(Op::HalfOpen { id, host, to });
                    if let Some(l) = reached {
                        if m.dst_host(host, to.ip()) != Some(host) {
                            half = Some((id, l));
                            // often: close the listener mid-handshake, then
                            // bind its port again (same address, the concrete
                            // destination, or the wildcard)
                            if rng.chance(0.65) {
                                let ls = m.socks[&l].clone();
                                forced.push_back(Op::Close { sock: l, server_first: false });
                                if rng.chance(0.8) {
                                    let any = if to.is_ipv4() { ip("0.0.0.0") } else { ip("::") };
                                    let addr = *rng.pick(&[ls.addr, to.ip(), any]);
                                    let nid = next_id;
                                    next_id += 1;
                                    forced.push_back(Op::Bind { id: nid, host: ls.host, proto: Proto::Tcp, addr, port: ls.port });
                                }
                            }
                        }
                    }
                } else {
                    ops.push(Op::TcpConnect { id, host, to });
                }
            }
            _ => {
                let live: Vec<(u32, MSock)> = m
                    .socks
                    .iter()
                    .filter(|(l, _)| half.map(|(c, _)| **l != c && **l != c + 100_000).unwrap_or(true))
                    .map(|(l, s)| (*l, s.clone()))
                    .collect();
                if live.is_empty() {
                    continue;
                }
                let (sock, s) = rng.pick(&live).clone();
                m.socks.remove(&sock);
                if let Role::Stream { mate, .. } = s.role {
                    m.socks.remove(&mate);
                    half = None;
                }
                if let Some((c, l)) = half {
                    if l == sock {
                        m.socks.remove(&c);
                        m.socks.remove(&(c + 100_000));
                        half = None;
                    }
                }
                ops.push(Op::Close { sock, server_first: rng.coin() });
                if !matches!(s.role, Role::Stream { .. }) && s.port < 60000 && rng.coin() {
                    let id = next_id;
                    next_id += 1;
                    forced.push_back(Op::Bind { id, host: s.host, proto: s.proto, addr: s.addr, port: s.port });
                }
            }
        }
    }
    History { hosts, ops }
}

fn directed() -> Vec<History> {
    let h2 = vec![vec![ip("10.0.0.1"), ip("10.0.0.2"), ip("fd00::0:1")], vec![ip("10.0.1.1"), ip("fd00::1:1")]];
    let b = |id, host, proto, addr: &str, port| Op::Bind { id, host, proto, addr: ip(addr), port };
    let sa = |s: &str| -> SocketAddr { s.parse().unwrap() };
    vec![
        // wildcard vs specific in both orders, per protocol and family
        History {
            hosts: h2.clone(),
            ops: vec![
                b(1, 0, Proto::Udp, "0.0.0.0", 5000),
                b(2, 0, Proto::Udp, "10.0.0.1", 5000),
                b(3, 0, Proto::Tcp, "10.0.0.1", 5000),
                b(4, 0, Proto::Tcp, "0.0.0.0", 5000),
                b(5, 0, Proto::Tcp, "10.0.0.2", 5000),
                b(6, 0, Proto::Udp, "::", 5000),
                b(7, 0, Proto::Udp, "fd00::0:1", 5000),
                b(8, 0, Proto::Tcp, "::", 5000),
                b(9, 0, Proto::Udp, "10.0.1.1", 5001),
                b(10, 0, Proto::Udp, "10.9.9.9", 5001),
                Op::Close { sock: 1, server_first: false },
                b(11, 0, Proto::Udp, "10.0.0.1", 5000),
                b(12, 0, Proto::Udp, "10.0.0.2", 5000),
                b(13, 0, Proto::Udp, "127.0.0.1", 5000),
                b(14, 0, Proto::Udp, "0.0.0.0", 5000),
            ],
        },
        // port 0 must avoid a port squatted on another local address
        History {
            hosts: h2.clone(),
            ops: vec![
                b(1, 0, Proto::Udp, "10.0.0.2", 49152),
                b(2, 0, Proto::Udp, "10.0.0.1", 0),
                b(3, 0, Proto::Tcp, "10.0.0.2", 49153),
                b(4, 0, Proto::Tcp, "127.0.0.1", 0),
                b(5, 0, Proto::Tcp, "0.0.0.0", 0),
                Op::TcpConnect { id: 6, host: 1, to: sa("10.0.0.2:49153") },
                Op::TcpConnect { id: 7, host: 0, to: sa("10.0.0.2:49153") },
            ],
        },
        // a listener closed while a connect to it is half open: the child
        // goes with it, the port is free again at once (wildcard and concrete
        // re-bind), the connect is refused; a specific-address listener alike
        History {
            hosts: h2.clone(),
            ops: vec![
                b(1, 0, Proto::Tcp, "0.0.0.0", 5000),
                Op::HalfOpen { id: 2, host: 1, to: sa("10.0.0.1:5000") },
                Op::Close { sock: 1, server_first: false },
                b(3, 0, Proto::Tcp, "0.0.0.0", 5000),
                Op::HalfOpen { id: 4, host: 1, to: sa("10.0.0.2:5000") },
                Op::Close { sock: 3, server_first: false },
                b(5, 0, Proto::Tcp, "10.0.0.2", 5000),
                Op::HalfOpen { id: 6, host: 1, to: sa("10.0.0.2:5000") },
                Op::Close { sock: 5, server_first: false },
                b(7, 0, Proto::Tcp, "10.0.0.2", 5000),
                b(8, 0, Proto::Tcp, "::", 5001),
                Op::HalfOpen { id: 9, host: 1, to: sa("[fd00::0:1]:5001") },
                Op::Close { sock: 8, server_first: false },
                b(10, 0, Proto::Tcp, "fd00::0:1", 5001),
                Op::HalfOpen { id: 11, host: 1, to: sa("[fd00::0:1]:5001") },
                Op::TcpConnect { id: 12, host: 1, to: sa("10.0.0.2:5000") },
            ],
        },
        // known finding: closing a wildcard listener also resets the
        // half-open children of the other family's listener on that port
        History {
            hosts: h2.clone(),
            ops: vec![
                b(1, 0, Proto::Tcp, "::", 5000),
                b(2, 0, Proto::Tcp, "0.0.0.0", 5000),
                Op::HalfOpen { id: 3, host: 1, to: sa("[fd00::0:1]:5000") },
                Op::Close { sock: 2, server_first: false },
            ],
        },
        History {
            hosts: h2.clone(),
            ops: vec![
                b(1, 0, Proto::Tcp, "0.0.0.0", 5000),
                b(2, 0, Proto::Tcp, "::", 5000),
                Op::HalfOpen { id: 3, host: 1, to: sa("10.0.0.1:5000") },
                Op::Close { sock: 2, server_first: false },
            ],
        },
        // known finding (closed window is never probed): the server fills
        // the client's receive buffer, queues more, then drops its stream;
        // the client neither reads nor closes
        History {
            hosts: h2.clone(),
            ops: vec![
                b(1, 0, Proto::Tcp, "0.0.0.0", 5000),
                Op::TcpConnect { id: 2, host: 1, to: sa("10.0.0.1:5000") },
                Op::Fill { sock: 100_002 },
                Op::CloseOne { sock: 100_002 },
                Op::Close { sock: 1, server_first: false },
                b(3, 0, Proto::Tcp, "0.0.0.0", 5000),
            ],
        },
        // known finding (no orphan FIN_WAIT2 timeout): the server drops its
        // accepted stream, the client keeps the connection open
        History {
            hosts: h2.clone(),
            ops: vec![
                b(1, 0, Proto::Tcp, "0.0.0.0", 5000),
                Op::TcpConnect { id: 2, host: 1, to: sa("10.0.0.1:5000") },
                Op::CloseOne { sock: 100_002 },
                Op::Close { sock: 1, server_first: false },
                b(3, 0, Proto::Tcp, "0.0.0.0", 5000),
            ],
        },
        History {
            hosts: h2.clone(),
            ops: vec![
                b(1, 0, Proto::Udp, "10.0.0.1", 5000),
                b(2, 1, Proto::Udp, "10.0.1.1", 5001),
                b(3, 1, Proto::Udp, "0.0.0.0", 5000),
                Op::UdpConnect { sock: 1, to: sa("10.0.1.1:5001") },
                Op::UdpConnect { sock: 3, to: sa("10.0.0.1:5000") },
                b(4, 0, Proto::Tcp, "0.0.0.0", 5000),
                Op::TcpConnect { id: 5, host: 1, to: sa("10.0.0.1:5000") },
                Op::TcpConnect { id: 6, host: 1, to: sa("10.0.0.2:5000") },
                Op::TcpConnect { id: 7, host: 0, to: sa("127.0.0.1:5000") },
                Op::Close { sock: 4, server_first: false },
                b(8, 0, Proto::Tcp, "10.0.0.2", 5001),
                b(9, 0, Proto::Tcp, "10.0.0.1", 5000),
                b(10, 0, Proto::Tcp, "0.0.0.0", 5000),
            ],
        },
    ]
}

fn minimise(h: &History, class: &str) -> History {
    let fails = |x: &History| run_history(x).complaint.map(|c| c.class == class).unwrap_or(false);
    let hosts = h.hosts.clone();
    let ops = vcore::ddmin::ddmin(
        h.ops.clone(),
        |sub| fails(&History { hosts: hosts.clone(), ops: sub.to_vec() }),
        150,
    );
    let mut cur = History { hosts: hosts.clone(), ops };
    // an empty history may already fail (probe matrix on an empty table)
    let empty = History { hosts: hosts.clone(), ops: vec![] };
    if fails(&empty) {
        cur = empty;
    }
    // drop hosts / addresses that are not needed
    loop {
        let mut changed = false;
        for hi in (0..cur.hosts.len()).rev() {
            for ai in (0..cur.hosts[hi].len()).rev() {
                if cur.hosts[hi].len() <= 1 {
                    continue;
                }
                let mut cand = cur.clone();
                cand.hosts[hi].remove(ai);
                if fails(&cand) {
                    cur = cand;
                    changed = true;
                }
            }
        }
        if !changed {
            break;
        }
    }
    cur
}

fn to_out(h: &History, o: Out, space: &str, minimise_it: bool) -> ScenarioOut {
    let mut out = ScenarioOut::default();
    let mut d = vcore::Fnv::new();
    d.write_str(&h.canon());
    out.digest = d.finish();
    let g = |k: &str| o.counters.get(k).copied().unwrap_or(0);
    let bind_errs: u64 = o.counters.iter().filter(|(k, _)| k.starts_with("bind_err_")).map(|(_, v)| *v).sum();
    out.nontrivial = bind_errs > 0 && g("udp_probe_delivered") > 0 && g("tcp_probe_ok") > 0;
    for (k, v) in &o.counters {
        out.count(k, *v);
    }
    out.count(&format!("scenarios_{space}"), 1);
    out.sample = Some(json!({
        "space": space,
        "hosts": h.to_json()["hosts"],
        "ops": h.ops.iter().take(12).map(|o| o.to_json()).collect::<Vec<_>>(),
        "n_ops": h.ops.len(),
        "observed": o.counters.iter().filter(|(k, _)| k.starts_with("udp_probe") || k.starts_with("tcp_probe")).map(|(k, v)| (k.clone(), json!(v))).collect::<serde_json::Map<_, _>>(),
    }));
    if let Some(c) = o.complaint {
        let min = if minimise_it { minimise(h, &c.class) } else { h.clone() };
        let fin = run_history(&min);
        let detail = fin.complaint.map(|x| x.detail).unwrap_or(c.detail);
        // diagnosis complaints are identified by the diagnosis alone
        let sig = if c.class.starts_with("diag:") { format!("C17|{}", c.class) } else { format!("C17|{}|{}", c.class, min.canon()) };
        out.violate(&c.class, sig, format!("{}: {} [history {}]", c.class, detail, min.canon()), min.to_json());
    }
    out
}

pub fn run(ctx: &Ctx) -> ! {
    let fin = Finish {
        level: "exploration",
        rule: "history counts when at least one bind was rejected by the model (AddrInUse/AddrNotAvailable), at least one UDP probe was delivered to the model-selected socket and at least one TCP probe was accepted by the model-selected listener; digests are canonical histories",
        assumptions: vec![
            "no SO_REUSEADDR/SO_REUSEPORT in the public shim: an exact and a wildcard socket of one protocol/family can never share a port, so 'exact before wildcard' is only observable as 'the one matching socket'".into(),
            "bind conflicts are per protocol and per address family (0.0.0.0 and :: do not conflict)".into(),
            "source address of a wildcard-bound sender towards a non-loopback target is not fixed by the property: probes towards connected receivers whose outcome depends on it are classified 'either'".into(),
            "TCP stream sockets are closed pairwise and quiesced (Q fault-free rounds) before the next op; fault-free wire".into(),
        ],
        min_distinct: ctx.pick(1000, 20_000),
        required_counters: vec![
            "bind_ok_udp",
            "bind_ok_tcp",
            "bind_err_AddrInUse",
            "bind_err_AddrNotAvailable",
            "bind_port0_ok",
            "udp_probe_delivered",
            "udp_probe_connected_filtered",
            "udp_probe_unowned_vanished",
            "udp_probe_no_socket",
            "udp_delivered_via_wildcard",
            "udp_delivered_via_exact",
            "tcp_probe_ok",
            "tcp_probe_ConnectionRefused",
            "tcp_probe_TimedOut",
            "established_exchanges",
            "close_one_end",
            "fill_bytes_written",
            "half_open_connects",
            "half_open_resolved_ok",
            "half_open_resolved_ConnectionRefused",
            "listener_closed_with_half_open_child",
            "exhaustion_full_range_refusals",
            "exhaustion_runs",
            "exhaustion_free_one_checks",
            "exhaustion_connect_checks",
            "wraparound_allocations",
            "table_count_checks",
        ],
    };
    if let Some(w) = vcore::read_replay(ctx) {
        let rep = vcore::run_single(ctx, move |_| {
            if w["kind"].as_str() == Some("exhaust") {
                exhaust::run_one(&exhaust::Exhaust::from_json(&w))
            } else {
                let h = History::from_json(&w);
                let o = run_history(&h);
                to_out(&h, o, "replay", false)
            }
        });
        vcore::finish(ctx, rep, fin);
    }
    let mut report = Report::default();
    report.max_samples = 2;
    let budget = ctx.pick(50.0, 300.0);
    {
        let n = directed().len() as u64;
        let rep = vcore::run_parallel(ctx, n, RunOpts::default(), move |i| {
            let h = directed()[i as usize].clone();
            let o = run_history(&h);
            to_out(&h, o, "directed", true)
        });
        report.merge(rep);
    }
    {
        // exhaustion: udp/tcp x v4/v6 x with/without squatted ports
        let n = ctx.pick(4u64, 16);
        let c2 = ctx.clone();
        let rep = vcore::run_parallel(ctx, n, RunOpts::default(), move |i| {
            let e = exhaust::Exhaust {
                tcp: i % 2 == 1,
                v4: (i / 2) % 2 == 0,
                prebound: if i % 4 == 3 || i >= 4 { 5 } else { 1 },
                seed: c2.scenario_seed("exhaust", i),
            };
            exhaust::run_one(&e)
        });
        report.merge(rep);
    }
    {
        let n = ctx.pick(2500u64, 1_000_000);
        let c2 = ctx.clone();
        let opts = RunOpts { budget_s: budget, ..RunOpts::default() };
        let rep = vcore::run_parallel(ctx, n, opts, move |i| {
            let h = gen_history(c2.scenario_seed("hist", i));
            let o = run_history(&h);
            to_out(&h, o, "hist", true)
        });
        report.merge(rep);
    }
    vcore::finish(ctx, report, fin);
}
