//! C13 backlog semantics: N concurrent connects against a listener with
//! backlog B, accepts interleaved.

use std::cell::RefCell;
use std::collections::BTreeSet;
use std::io::ErrorKind;
use std::net::{IpAddr, SocketAddr};
use std::rc::Rc;
use std::task::Poll;

use serde_json::{json, Value};
use tokio::sync::Notify;
use turmoil_net::shim::tokio::net::{TcpListener, TcpStream};
use turmoil_net::{KernelConfig, Proto};
use vcore::{Rng, ScenarioOut};

use super::script::{Cfg, Layout};
use crate::engine::{self, ip, now, Fate, Scoped, World};

#[derive(Clone, Debug, PartialEq)]
pub enum COp {
    Accept,
    Round(Fate, Fate),
    DropClient(usize),
}

impl COp {
    fn code(&self) -> String {
        match self {
            COp::Accept => "A".into(),
            COp::Round(a, b) => format!("R{}{}", a.code(), b.code()),
            COp::DropClient(i) => format!("d{i}"),
        }
    }
    fn parse(s: &str) -> Option<COp> {
        if s == "A" {
            return Some(COp::Accept);
        }
        if let Some(r) = s.strip_prefix('d') {
            return r.parse().ok().map(COp::DropClient);
        }
        if s.starts_with('R') && s.len() == 3 {
            let mut c = s[1..].chars();
            return Some(COp::Round(Fate::from_code(c.next()?)?, Fate::from_code(c.next()?)?));
        }
        None
    }
}

#[derive(Clone, Debug, PartialEq)]
pub struct Crowd {
    pub cfg: Cfg,
    pub n: usize,
    pub keep: bool,
    /// server owns two addresses, the listener is a wildcard, clients
    /// alternate between the two destination addresses
    pub two_addr: bool,
    pub ops: Vec<COp>,
    pub seed: u64,
}

impl Crowd {
    pub fn generate(seed: u64) -> Crowd {
        let mut rng = Rng::new(seed);
        let backlog = *rng.pick(&[1usize, 2, 8]);
        let cfg = Cfg {
            layout: *rng.pick(&[Layout::V4, Layout::V4, Layout::V6]),
            backlog,
            thr: *rng.pick(&[2u32, 3]),
            max: *rng.pick(&[3u32, 5]),
            rcap: 0,
        };
        let n = backlog + rng.range(0, 3) as usize;
        let mut ops = vec![];
        let mut budget = 2;
        for _ in 0..rng.range(2, 12) {
            let w = rng.below(10);
            ops.push(match w {
                0..=3 => COp::Accept,
                4..=7 => {
                    if budget > 0 && rng.chance(0.3) {
                        budget -= 1;
                        if rng.coin() {
                            COp::Round(Fate::Hold(1), Fate::Deliver)
                        } else {
                            COp::Round(Fate::Deliver, Fate::Hold(1))
                        }
                    } else {
                        COp::Round(Fate::Deliver, Fate::Deliver)
                    }
                }
                _ => COp::DropClient(rng.usize_below(n)),
            });
        }
        Crowd {
            cfg,
            n,
            keep: rng.coin(),
            two_addr: rng.chance(0.4),
            ops,
            seed,
        }
    }
    pub fn to_json(&self) -> Value {
        json!({"kind": "crowd", "cfg": self.cfg.to_json(), "n": self.n, "keep": self.keep, "two_addr": self.two_addr, "seed": self.seed,
               "ops": self.ops.iter().map(|o| o.code()).collect::<Vec<_>>()})
    }
    pub fn from_json(v: &Value) -> Crowd {
        Crowd {
            cfg: Cfg::from_json(&v["cfg"]),
            n: v["n"].as_u64().unwrap_or(1) as usize,
            keep: v["keep"].as_bool().unwrap_or(true),
            two_addr: v["two_addr"].as_bool().unwrap_or(false),
            seed: v["seed"].as_u64().unwrap_or(0),
            ops: v["ops"]
                .as_array()
                .map(|a| a.iter().filter_map(|s| s.as_str().and_then(COp::parse)).collect())
                .unwrap_or_default(),
        }
    }
    fn canon(&self) -> String {
        let ops: Vec<String> = self.ops.iter().map(|o| o.code()).collect();
        format!("crowd:{}|n{}|{}{}|{}", self.cfg.canon(), self.n, if self.keep { 'k' } else { 'd' }, if self.two_addr { "2" } else { "" }, ops.join(","))
    }
}

#[derive(Default)]
struct Slot {
    done: Option<Result<(), ErrorKind>>,
    cancelled: bool,
    stream: Option<TcpStream>,
    local: Option<SocketAddr>,
}

struct Res {
    complaint: Option<(String, String)>,
    counters: Vec<(String, u64)>,
    trace: Vec<String>,
}

fn execute(c: &Crowd) -> Res {
    let mut res = Res {
        complaint: None,
        counters: vec![],
        trace: vec![],
    };
    let r = engine::guarded(|| exec_inner(c, &mut res));
    if let Err(msg) = r {
        res.complaint = Some(("kernel-panic".into(), format!("panic inside turmoil-net: {msg}")));
    }
    res
}

fn exec_inner(c: &Crowd, res: &mut Res) {
    let kc = KernelConfig::default()
        .default_backlog(c.cfg.backlog)
        .retx_threshold(c.cfg.thr)
        .retx_max(c.cfg.max);
    let hosts: Vec<Vec<IpAddr>> = match c.cfg.layout {
        Layout::V6 => vec![vec![ip("fd00::1")], vec![ip("fd00::2"), ip("fd00::3")]],
        _ => vec![vec![ip("10.0.0.1")], vec![ip("10.0.1.1"), ip("10.0.1.2")]],
    };
    let mut w = World::new(kc, &hosts, |_| {});
    let dst = SocketAddr::new(hosts[1][0], 7000);
    let dst2 = SocketAddr::new(hosts[1][1], 7000);
    let laddr = if c.two_addr { SocketAddr::new(if dst.is_ipv4() { ip("0.0.0.0") } else { ip("::") }, 7000) } else { dst };
    let client_ip = hosts[0][0];
    let b = c.cfg.backlog;
    let count = |res: &mut Res, k: &str, n: u64| {
        if let Some(e) = res.counters.iter_mut().find(|(kk, _)| kk == k) {
            e.1 += n
        } else {
            res.counters.push((k.to_string(), n))
        }
    };

    w.cur(1);
    let listener: Scoped<TcpListener> = w.scoped(1, now(TcpListener::bind(laddr)).expect("bind"));
    let mut listener = Some(listener);
    let mut slots: Vec<(Rc<RefCell<Slot>>, Rc<Notify>)> = vec![];
    let mut streams: Vec<Option<Scoped<TcpStream>>> = (0..c.n).map(|_| None).collect();
    for ci in 0..c.n {
        let dst = if c.two_addr && ci % 2 == 1 { dst2 } else { dst };
        let slot = Rc::new(RefCell::new(Slot::default()));
        let cancel = Rc::new(Notify::new());
        let (s2, c2) = (slot.clone(), cancel.clone());
        w.spawn(0, async move {
            tokio::select! {
                biased;
                _ = c2.notified() => { s2.borrow_mut().cancelled = true; }
                r = TcpStream::connect(dst) => match r {
                    Ok(st) => { let mut b = s2.borrow_mut(); b.local = st.local_addr().ok(); b.stream = Some(st); b.done = Some(Ok(())); }
                    Err(e) => { s2.borrow_mut().done = Some(Err(e.kind())); }
                }
            }
        });
        slots.push((slot, cancel));
    }
    w.settle();
    count(res, "crowd_connects", c.n as u64);
    let attempt_locals: BTreeSet<SocketAddr> = turmoil_net::netstat(client_ip)
        .entries
        .iter()
        .filter(|e| e.proto == Proto::Tcp && (e.peer == Some(dst) || e.peer == Some(dst2)))
        .map(|e| e.local)
        .collect();

    let mut ok_locals: Vec<SocketAddr> = vec![];
    let mut accepted: Vec<(SocketAddr, SocketAddr)> = vec![];
    let mut acc_streams: Vec<Scoped<TcpStream>> = vec![];

    macro_rules! harvest {
        () => {
            for (i, (slot, _)) in slots.iter().enumerate() {
                let mut s = slot.borrow_mut();
                if let Some(st) = s.stream.take() {
                    ok_locals.push(s.local.unwrap());
                    streams[i] = Some(w.scoped(0, st));
                }
            }
        };
    }
    macro_rules! invariant {
        ($what:expr) => {
            count(res, "crowd_backlog_checks", 1);
            let unacc = ok_locals.len() as i64 - accepted.len() as i64;
            res.trace.push(format!("{} ok={} accepted={}", $what, ok_locals.len(), accepted.len()));
            if unacc > b as i64 {
                res.complaint = Some((
                    "backlog-exceeded".into(),
                    format!("{} connects returned Ok but only {} were accepted with backlog {}", ok_locals.len(), accepted.len(), b),
                ));
                return;
            }
        };
    }
    macro_rules! try_accept {
        () => {
            if let Some(l) = listener.as_ref() {
                if let Poll::Ready(Ok((st, peer))) = l.on().poll_accept(&mut engine::noop_cx()) {
                    let la = st.local_addr().unwrap();
                    let pa = st.peer_addr().unwrap_or(peer);
                    accepted.push((la, pa));
                    acc_streams.push(w.scoped(1, st));
                    count(res, "crowd_accepted", 1);
                    true
                } else {
                    false
                }
            } else {
                false
            }
        };
    }

    // phase 1: three clean rounds -> exactly min(N, B) connects are Ok
    for _ in 0..3 {
        w.clean_round();
    }
    w.settle();
    harvest!();
    invariant!("phase1");
    if ok_locals.len() != c.n.min(b) {
        res.complaint = Some((
            "backlog-room-not-used".into(),
            format!("{} simultaneous connects, backlog {}: {} returned Ok after 3 fault-free rounds, expected {}", c.n, b, ok_locals.len(), c.n.min(b)),
        ));
        return;
    }
    // phase 2
    for op in &c.ops {
        match op {
            COp::Accept => {
                let _ = try_accept!();
            }
            COp::Round(fc, fs) => {
                let (fc, fs) = (*fc, *fs);
                w.round_with(|p| if p.src == client_ip { fc } else { fs });
                w.settle();
            }
            COp::DropClient(i) => {
                if *i < c.n {
                    if streams[*i].is_some() {
                        streams[*i] = None;
                        count(res, "crowd_client_drops", 1);
                    } else if slots[*i].0.borrow().done.is_none() && !slots[*i].0.borrow().cancelled {
                        slots[*i].1.notify_one();
                        w.settle();
                        count(res, "crowd_client_cancels", 1);
                    }
                }
            }
        }
        harvest!();
        invariant!(op.code());
    }
    // phase 3: accept everything, every connect resolves
    let bound = c.cfg.r() + c.cfg.thr * (c.n as u32 + 2);
    for _ in 0..bound {
        for _ in 0..c.n + 2 {
            if !try_accept!() {
                break;
            }
        }
        w.clean_round();
        w.settle();
        harvest!();
        invariant!("drain");
        let pending = slots.iter().any(|(s, _)| {
            let s = s.borrow();
            s.done.is_none() && !s.cancelled
        });
        if !pending {
            break;
        }
    }
    for (s, _) in &slots {
        let s = s.borrow();
        match &s.done {
            None if !s.cancelled => {
                res.complaint = Some(("connect-hang".into(), format!("a connect is still pending after {bound} fault-free rounds with accept draining")));
                return;
            }
            Some(Err(ErrorKind::TimedOut)) => count(res, "crowd_timed_out", 1),
            Some(Err(k)) => {
                res.complaint = Some(("crowd-unexpected-error".into(), format!("connect against a live listener failed with {k:?}")));
                return;
            }
            _ => {}
        }
    }
    for _ in 0..3 {
        for _ in 0..c.n + 2 {
            if !try_accept!() {
                break;
            }
        }
        w.clean_round();
    }
    for _ in 0..c.n + 2 {
        if !try_accept!() {
            break;
        }
    }
    // pairing
    let mut seen = BTreeSet::new();
    for (la, pa) in &accepted {
        if (*la != dst && !(c.two_addr && *la == dst2)) || !attempt_locals.contains(pa) {
            res.complaint = Some(("accept-unknown-connection".into(), format!("accept returned local={la} peer={pa}; no such connect attempt")));
            return;
        }
        if !seen.insert(*pa) {
            res.complaint = Some(("accept-duplicate".into(), format!("connection from {pa} was handed out twice")));
            return;
        }
    }
    for l in &ok_locals {
        if !seen.contains(l) {
            res.complaint = Some(("accept-missing".into(), format!("connect from {l} returned Ok but accept never returned it")));
            return;
        }
    }
    count(res, "crowd_paired", ok_locals.len() as u64);
    // close everything, reclamation
    streams.clear();
    acc_streams.clear();
    if !c.keep {
        listener = None;
    }
    for _ in 0..c.cfg.q() {
        w.clean_round();
        if let Some(l) = listener.as_ref() {
            for _ in 0..c.n + 2 {
                let Poll::Ready(Ok((st, _))) = l.on().poll_accept(&mut engine::noop_cx()) else { break };
                drop(w.scoped(1, st));
            }
        }
    }
    count(res, "reclamation_checks", 1);
    for h in 0..2 {
        let want = if h == 1 && listener.is_some() { 1 } else { 0 };
        let k = turmoil_net::verif::host_counts_by_id(w.id(h));
        if k.sockets != want || k.bindings != want || k.binding_fds != want || k.connections != 0 {
            res.complaint = Some((
                format!("leak:{}", if h == 0 { "client" } else { "server" }),
                format!("after close-out host {h} has sockets={} bindings={} binding_fds={} connections={}, expected {want}/{want}/{want}/0", k.sockets, k.bindings, k.binding_fds, k.connections),
            ));
            return;
        }
    }
    drop(listener);
}

pub fn run_one(c: &Crowd, minimise: bool) -> ScenarioOut {
    let r = execute(c);
    let mut out = ScenarioOut::default();
    let mut h = vcore::Fnv::new();
    for t in &r.trace {
        h.write_str(t);
    }
    h.write_str(&c.cfg.canon());
    out.digest = h.finish();
    out.nontrivial = false; // backlog scenarios are counted through their own counters
    for (k, v) in &r.counters {
        out.count(k, *v);
    }
    out.count("scenarios_crowd", 1);
    if let Some((class, detail)) = r.complaint {
        let mut min = c.clone();
        if minimise {
            let base = c.clone();
            let cl = class.clone();
            min.ops = vcore::ddmin::ddmin(
                c.ops.clone(),
                |sub| {
                    let mut x = base.clone();
                    x.ops = sub.to_vec();
                    execute(&x).complaint.map(|(k, _)| k == cl).unwrap_or(false)
                },
                80,
            );
            // an empty op list may already fail
            let mut x = min.clone();
            x.ops.clear();
            if execute(&x).complaint.map(|(k, _)| k == class).unwrap_or(false) {
                min = x;
            }
        }
        let sig = format!("C13|{}|{}", class, min.canon());
        out.violate(&class, sig, format!("{class}: {detail} [{}]", min.canon()), min.to_json());
    }
    out
}
