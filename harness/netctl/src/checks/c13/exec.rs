//! C13 executor: runs a scenario (sequence of single-connection episodes in
//! one Net) against the real stack and applies the oracles.

use std::cell::RefCell;
use std::future::Future;
use std::collections::{BTreeMap, BTreeSet};
use std::io::ErrorKind;
use std::net::{IpAddr, SocketAddr};
use std::rc::Rc;

use tokio::io::AsyncWriteExt;
use tokio::sync::Notify;
use turmoil_net::shim::tokio::net::{TcpListener, TcpStream, UdpSocket};
use turmoil_net::{KernelConfig, NetstatState, Proto, Transport};

use super::script::*;
use crate::engine::{self, ip, kind, now, Fate, Scoped, World};

#[derive(Clone, Debug)]
pub struct Complaint {
    pub class: String,
    pub detail: String,
    pub episode: usize,
}

#[derive(Default)]
pub struct Outcome {
    pub complaint: Option<Complaint>,
    pub counters: BTreeMap<String, u64>,
    pub seen: BTreeSet<(String, String)>,
    pub trace: Vec<String>,
    /// an action happened while one end was in a handshake/close state
    pub interesting: bool,
}

impl Outcome {
    pub fn count(&mut self, k: &str, n: u64) {
        *self.counters.entry(k.to_string()).or_default() += n;
    }
    pub fn saw(&mut self, set: &str, item: String) {
        self.seen.insert((set.to_string(), item));
    }
}

#[derive(Clone, Debug, PartialEq)]
pub enum ConnOutcome {
    Ok,
    Err(ErrorKind),
    Cancelled,
}

#[derive(Default)]
struct ConnSlot {
    done: Option<ConnOutcome>,
    stream: Option<TcpStream>,
    local: Option<SocketAddr>,
    peer: Option<SocketAddr>,
}

#[derive(Default)]
struct AcceptSlot {
    done: bool,
    result: Option<std::io::Result<(TcpStream, SocketAddr)>>,
}

struct Accepted {
    stream: Option<Scoped<TcpStream>>,
    local: SocketAddr,
    peer: SocketAddr,
    peer_ret: SocketAddr,
    read: u64,
    written: u64,
}

/// Per-episode state.
struct Ep {
    idx: usize,
    dst: SocketAddr,
    laddr: SocketAddr,
    conn: Option<(Rc<RefCell<ConnSlot>>, Rc<Notify>)>,
    gate: Option<Rc<Notify>>,
    outcome: Option<ConnOutcome>,
    cstream: Option<Scoped<TcpStream>>,
    c_local: Option<SocketAddr>,
    attempt_local: Option<SocketAddr>,
    accepts: Vec<Accepted>,
    c_written: u64,
    c_read: u64,
    syn_live: bool,
    syn_dead: bool,
    ldrop_during: bool,
    ldrop_after_syn: bool,
    faults: u32,
    key_c: u64,
    key_s: u64,
}

pub struct Sim {
    pub cfg: Cfg,
    ch: usize,
    sh: usize,
    listener: Option<(Rc<Scoped<TcpListener>>, SocketAddr)>,
    accept_task: Option<(Rc<RefCell<AcceptSlot>>, Rc<Notify>)>,
    udp_keep: Vec<(usize, Scoped<UdpSocket>)>,
    /// server-side handle of a connection both ends closed, still held by
    /// the application (episode flag `hold`)
    held: Option<Scoped<TcpStream>>,
    pub out: Outcome,
    seed: u64,
    /// packets that folded back inside a kernel (loopback tap)
    tap: Rc<RefCell<Vec<turmoil_net::Packet>>>,
    // last field: dropped after every socket above
    pub world: World,
}

type Res = Result<(), Complaint>;

impl Sim {
    pub fn new(cfg: &Cfg, seed: u64) -> Sim {
        let kc = KernelConfig::default()
            .default_backlog(cfg.backlog)
            .retx_threshold(cfg.thr)
            .retx_max(cfg.max);
        let kc = if cfg.rcap > 0 { kc.recv_buf_cap(cfg.rcap) } else { kc };
        let hosts: Vec<Vec<IpAddr>> = match cfg.layout {
            Layout::V4 => vec![vec![ip("10.0.0.1")], vec![ip("10.0.1.1"), ip("10.0.1.2")]],
            Layout::V6 => vec![vec![ip("fd00::1")], vec![ip("fd00::2"), ip("fd00::3")]],
            Layout::Lo => vec![vec![ip("10.0.0.1")]],
        };
        let world = World::new(kc, &hosts, |_| {});
        let (ch, sh) = match cfg.layout {
            Layout::Lo => (0, 0),
            _ => (0, 1),
        };
        let tap: Rc<RefCell<Vec<turmoil_net::Packet>>> = Rc::new(RefCell::new(vec![]));
        let t2 = tap.clone();
        turmoil_net::verif::set_loopback_tap(Some(Box::new(move |_, p| t2.borrow_mut().push(p.clone()))));
        let mut sim = Sim {
            tap,
            world,
            cfg: cfg.clone(),
            ch,
            sh,
            listener: None,
            accept_task: None,
            udp_keep: vec![],
            held: None,
            out: Outcome::default(),
            seed,
        };
        // one long-lived UDP socket on the server host, same port number as
        // the TCP listener (separate protocol space): part of the model's
        // expected table contents.
        sim.world.cur(sh);
        let wild = sim.wild_ip();
        let u = now(UdpSocket::bind(SocketAddr::new(wild, 7000))).expect("udp keep bind");
        let u = sim.world.scoped(sh, u);
        sim.udp_keep.push((sh, u));
        sim
    }

    fn wild_ip(&self) -> IpAddr {
        match self.cfg.layout {
            Layout::V6 => ip("::"),
            _ => ip("0.0.0.0"),
        }
    }

    fn client_ip(&self) -> IpAddr {
        self.world.hosts[self.ch].addrs[0]
    }

    fn server_ip(&self) -> IpAddr {
        self.world.hosts[self.sh].addrs[0]
    }

    fn listen_addr(&self, e: &Episode) -> SocketAddr {
        let port = 7000 + e.port as u16;
        let a = match self.cfg.layout {
            Layout::Lo => ip("127.0.0.1"),
            _ if e.wild => self.wild_ip(),
            _ => self.server_ip(),
        };
        SocketAddr::new(a, port)
    }

    fn dst_addr(&self, e: &Episode) -> SocketAddr {
        let port = 7000 + e.port as u16;
        let a = match self.cfg.layout {
            Layout::Lo => ip("127.0.0.1"),
            _ if e.wild && e.alt_dst => self.world.hosts[self.sh].addrs[1],
            _ => self.server_ip(),
        };
        SocketAddr::new(a, port)
    }

    fn complaint(&self, ep: usize, class: &str, detail: String) -> Complaint {
        Complaint {
            class: class.to_string(),
            detail,
            episode: ep,
        }
    }

    // ---- observation --------------------------------------------------

    fn states(&self, ep: &Ep) -> (String, String) {
        let cn = turmoil_net::netstat(self.client_ip());
        let sn = turmoil_net::netstat(self.server_ip());
        let mut c = "-".to_string();
        for e in &cn.entries {
            if e.proto == Proto::Tcp && e.peer == Some(ep.dst) && e.state != Some(NetstatState::Listen) {
                if ep.attempt_local.map(|l| l == e.local).unwrap_or(true) {
                    c = format!("{:?}", e.state.unwrap());
                    break;
                }
            }
        }
        let mut s = "-".to_string();
        if let Some(al) = ep.attempt_local {
            for e in &sn.entries {
                if e.proto == Proto::Tcp && e.peer == Some(al) && e.local == ep.dst {
                    s = format!("{:?}", e.state.unwrap());
                    break;
                }
            }
        }
        (c, s)
    }

    fn observe(&mut self, ep: &Ep, what: &str, is_action: bool) {
        let (c, s) = self.states(ep);
        let pair = format!("{c}/{s}");
        self.out.saw("state_pairs", pair.clone());
        if is_action {
            self.out.saw("action_at_pair", format!("{what}@{pair}"));
            let hs = |x: &str| x != "-" && x != "Established";
            if hs(&c) || hs(&s) {
                self.out.interesting = true;
            }
        }
        self.out.trace.push(format!("e{} {} -> {}", ep.idx, what, pair));
    }

    fn find_attempt_local(&self, ep: &Ep) -> Option<SocketAddr> {
        let cn = turmoil_net::netstat(self.client_ip());
        cn.entries
            .iter()
            .find(|e| e.proto == Proto::Tcp && e.peer == Some(ep.dst) && e.local != ep.dst)
            .map(|e| e.local)
    }

    // ---- primitives ---------------------------------------------------

    /// Spin the shared ephemeral cursor on the client host (UDP port-0
    /// binds) until the next allocation would be `target`.
    fn steer(&mut self, target: u16) {
        self.world.cur(self.ch);
        let wild = self.wild_ip();
        for _ in 0..40000 {
            let s = now(UdpSocket::bind(SocketAddr::new(wild, 0))).expect("steer bind");
            let p = s.local_addr().unwrap().port();
            drop(s);
            let next = if p == 65535 { 49152 } else { p + 1 };
            if next == target {
                break;
            }
        }
        self.out.count("cursor_steerings", 1);
    }

    fn do_listen(&mut self, ep: &Ep) -> Res {
        if self.listener.is_some() {
            return Ok(());
        }
        self.world.cur(self.sh);
        match now(TcpListener::bind(ep.laddr)) {
            Ok(l) => {
                self.listener = Some((Rc::new(self.world.scoped(self.sh, l)), ep.laddr));
                self.out.count("listens", 1);
                Ok(())
            }
            // Once a connection exists in this episode its server side
            // (accepted, queued or still closing) legitimately shares the
            // listener's address: AddrInUse is then what a socket table
            // must answer (C17's model). Only a bind on a table the last
            // checkpoint found clean is required to succeed.
            Err(e) if e.kind() == ErrorKind::AddrInUse && ep.conn.is_some() => {
                self.out.count("listen_addr_in_use_while_connection_alive", 1);
                Ok(())
            }
            Err(e) => Err(self.complaint(
                ep.idx,
                "listen-bind-failed",
                format!("bind {} failed with {:?} although the model has the port free", ep.laddr, e.kind()),
            )),
        }
    }

    fn stop_accept_task(&mut self) {
        if let Some((slot, stop)) = self.accept_task.take() {
            if !slot.borrow().done {
                stop.notify_one();
                self.world.settle();
            }
            // a result that raced in is collected by the caller beforehand;
            // whatever is left is dropped in scope
            if let Some(Ok((s, _))) = slot.borrow_mut().result.take() {
                drop(self.world.scoped(self.sh, s));
            }
        }
    }

    fn do_drop_listener(&mut self, ep: &mut Ep) {
        if self.listener.is_none() {
            return;
        }
        self.collect(ep);
        if let Some((slot, stop)) = self.accept_task.as_ref() {
            if !slot.borrow().done {
                stop.notify_one();
            }
        }
        self.world.settle();
        self.collect(ep);
        self.accept_task = None;
        let (l, _) = self.listener.take().unwrap();
        match Rc::try_unwrap(l) {
            Ok(scoped) => drop(scoped),
            Err(_) => panic!("harness: listener still shared at drop"),
        }
        if ep.conn.is_some() && ep.outcome.is_none() {
            ep.ldrop_during = true;
        }
        if ep.syn_live {
            ep.ldrop_after_syn = true;
        }
        self.out.count("listener_drops", 1);
    }

    fn do_connect(&mut self, ep: &mut Ep, lazy: bool) {
        if ep.conn.is_some() {
            return;
        }
        let slot = Rc::new(RefCell::new(ConnSlot::default()));
        let cancel = Rc::new(Notify::new());
        let gate = Rc::new(Notify::new());
        let (s2, c2, g2, dst) = (slot.clone(), cancel.clone(), gate.clone(), ep.dst);
        self.world.spawn(self.ch, async move {
            tokio::select! {
                biased;
                _ = c2.notified() => { s2.borrow_mut().done = Some(ConnOutcome::Cancelled); }
                r = async {
                    let mut fut = Box::pin(TcpStream::connect(dst));
                    // first poll sends the SYN; a lazy application then
                    // looks at the future again only when told to
                    let first = std::future::poll_fn(|cx| std::task::Poll::Ready(fut.as_mut().poll(cx))).await;
                    match first {
                        std::task::Poll::Ready(r) => r,
                        std::task::Poll::Pending => {
                            if lazy {
                                g2.notified().await;
                            }
                            fut.await
                        }
                    }
                } => match r {
                    Ok(st) => {
                        let mut b = s2.borrow_mut();
                        b.local = st.local_addr().ok();
                        b.peer = st.peer_addr().ok();
                        b.stream = Some(st);
                        b.done = Some(ConnOutcome::Ok);
                    }
                    Err(e) => { s2.borrow_mut().done = Some(ConnOutcome::Err(e.kind())); }
                }
            }
        });
        ep.conn = Some((slot, cancel));
        ep.gate = Some(gate);
        self.world.settle();
        self.out.count("connects_started", 1);
        if lazy {
            self.out.count("connects_lazy", 1);
        }
        ep.attempt_local = self.find_attempt_local(ep);
        self.collect(ep);
    }

    fn do_poll(&mut self, ep: &mut Ep) {
        if let Some(g) = ep.gate.as_ref() {
            g.notify_one();
            self.world.settle();
            self.collect(ep);
        }
    }

    fn do_accept(&mut self) {
        let Some((l, _)) = self.listener.as_ref() else {
            return;
        };
        if let Some((slot, _)) = self.accept_task.as_ref() {
            if !slot.borrow().done {
                return;
            }
        }
        let slot = Rc::new(RefCell::new(AcceptSlot::default()));
        let stop = Rc::new(Notify::new());
        let (l2, s2, st2) = (l.clone(), slot.clone(), stop.clone());
        self.world.spawn(self.sh, async move {
            tokio::select! {
                biased;
                _ = st2.notified() => {}
                r = l2.get().accept() => { s2.borrow_mut().result = Some(r); }
            }
            drop(l2);
            s2.borrow_mut().done = true;
        });
        self.accept_task = Some((slot, stop));
        self.world.settle();
        self.out.count("accept_tasks", 1);
    }

    fn record_accepted(&mut self, ep: &mut Ep, st: TcpStream, peer_ret: SocketAddr) {
        self.world.cur(self.sh);
        let local = st.local_addr().unwrap_or(ep.dst);
        let peer = st.peer_addr().unwrap_or(peer_ret);
        ep.accepts.push(Accepted {
            stream: Some(self.world.scoped(self.sh, st)),
            local,
            peer,
            peer_ret,
            read: 0,
            written: 0,
        });
        self.out.count("accepted", 1);
    }

    /// Harvest finished connect / accept tasks.
    fn collect(&mut self, ep: &mut Ep) {
        if let Some((slot, _)) = ep.conn.as_ref() {
            let mut b = slot.borrow_mut();
            if ep.outcome.is_none() {
                if let Some(o) = b.done.clone() {
                    ep.outcome = Some(o.clone());
                    ep.c_local = b.local;
                    if let Some(st) = b.stream.take() {
                        ep.cstream = Some(self.world.scoped(self.ch, st));
                    }
                    let k = match &o {
                        ConnOutcome::Ok => "connect_ok".to_string(),
                        ConnOutcome::Cancelled => "connect_cancelled".to_string(),
                        ConnOutcome::Err(ErrorKind::ConnectionRefused) => "connect_refused".to_string(),
                        ConnOutcome::Err(ErrorKind::TimedOut) => "connect_timed_out".to_string(),
                        ConnOutcome::Err(k) => format!("connect_err_{k:?}"),
                    };
                    drop(b);
                    self.out.count(&k, 1);
                }
            }
        }
        let fin = self
            .accept_task
            .as_ref()
            .map(|(s, _)| s.borrow().done)
            .unwrap_or(false);
        if fin {
            let (slot, _) = self.accept_task.take().unwrap();
            let r = slot.borrow_mut().result.take();
            match r {
                Some(Ok((st, peer))) => self.record_accepted(ep, st, peer),
                Some(Err(e)) => {
                    self.out.count(&format!("accept_err_{:?}", e.kind()), 1);
                }
                None => {}
            }
        }
    }

    fn try_accept_drain(&mut self, ep: &mut Ep) {
        // bounded: a stack that hands the same connection out again and
        // again must end in "accept-duplicate", not in an endless loop
        for _ in 0..16 {
            let Some((l, _)) = self.listener.as_ref() else {
                return;
            };
            let r = l.on().poll_accept(&mut engine::noop_cx());
            match r {
                std::task::Poll::Ready(Ok((st, peer))) => {
                    self.out.count("accepted_by_drain", 1);
                    self.record_accepted(ep, st, peer);
                }
                _ => return,
            }
        }
    }

    fn write(&mut self, ep: &mut Ep, client: bool, n: u32) -> Res {
        let (key, off) = if client {
            (ep.key_c, ep.c_written)
        } else {
            (ep.key_s, ep.accepts.first().map(|a| a.written).unwrap_or(0))
        };
        let data = vcore::rng::keyed_bytes(key, off, n as usize);
        let r = if client {
            match ep.cstream.as_ref() {
                Some(s) => s.on().try_write(&data),
                None => return Ok(()),
            }
        } else {
            match ep.accepts.first().and_then(|a| a.stream.as_ref()) {
                Some(s) => s.on().try_write(&data),
                None => return Ok(()),
            }
        };
        match r {
            Ok(k) => {
                if client {
                    ep.c_written += k as u64;
                } else {
                    ep.accepts[0].written += k as u64;
                }
                self.out.count("bytes_written", k as u64);
            }
            Err(e) => self.out.count(&format!("write_err_{:?}", e.kind()), 1),
        }
        Ok(())
    }

    fn read(&mut self, ep: &mut Ep, client: bool) -> Res {
        let mut buf = [0u8; 4096];
        loop {
            let r = if client {
                match ep.cstream.as_ref() {
                    Some(s) => s.on().try_read(&mut buf),
                    None => return Ok(()),
                }
            } else {
                match ep.accepts.first().and_then(|a| a.stream.as_ref()) {
                    Some(s) => s.on().try_read(&mut buf),
                    None => return Ok(()),
                }
            };
            match r {
                Ok(0) => {
                    self.out.count("eof_seen", 1);
                    return Ok(());
                }
                Ok(k) => {
                    let (key, off, limit) = if client {
                        (ep.key_s, ep.c_read, ep.accepts.first().map(|a| a.written).unwrap_or(0))
                    } else {
                        (ep.key_c, ep.accepts[0].read, ep.c_written)
                    };
                    let want = vcore::rng::keyed_bytes(key, off, k);
                    if off + k as u64 > limit || want != buf[..k] {
                        return Err(self.complaint(
                            ep.idx,
                            "data-mismatch",
                            format!(
                                "{} read {} bytes at offset {} that are not the peer's bytes (peer wrote {})",
                                if client { "client" } else { "server" },
                                k,
                                off,
                                limit
                            ),
                        ));
                    }
                    if client {
                        ep.c_read += k as u64;
                    } else {
                        ep.accepts[0].read += k as u64;
                    }
                    self.out.count("bytes_read", k as u64);
                }
                Err(e) if e.kind() == ErrorKind::WouldBlock => return Ok(()),
                Err(e) => {
                    self.out.count(&format!("read_err_{:?}", e.kind()), 1);
                    return Ok(());
                }
            }
        }
    }

    fn shutdown(&mut self, ep: &mut Ep, client: bool) {
        let s = if client {
            ep.cstream.as_mut()
        } else {
            ep.accepts.first_mut().and_then(|a| a.stream.as_mut())
        };
        if let Some(s) = s {
            let r = now(s.on_mut().shutdown());
            match r {
                Ok(()) => self.out.count("shutdowns", 1),
                Err(e) => self.out.count(&format!("shutdown_err_{:?}", e.kind()), 1),
            }
        }
    }

    fn do_round(&mut self, ep: &mut Ep, fc: Fate, fs: Fate) {
        let client_ips: Vec<IpAddr> = self.world.hosts[self.ch].addrs.clone();
        let lo = self.cfg.layout == Layout::Lo;
        let rep = self.world.round_with(|p| {
            if lo {
                Fate::Deliver
            } else if client_ips.contains(&p.src) {
                fc
            } else {
                fs
            }
        });
        for (p, f) in &rep.emitted {
            self.out.count(&format!("wire_{}", kind(p)), 1);
            match f {
                Fate::Deliver => {}
                Fate::Hold(_) => {
                    ep.faults += 1;
                    self.out.count(&format!("held_{}", kind(p)), 1);
                }
                Fate::Drop => {
                    ep.faults += 1;
                    self.out.count(&format!("dropped_{}", kind(p)), 1);
                }
            }
        }
        let live = self.listener.is_some();
        let folded: Vec<turmoil_net::Packet> = self.tap.borrow_mut().drain(..).collect();
        for p in &folded {
            self.out.count(&format!("loopback_{}", kind(p)), 1);
        }
        for p in rep.delivered.iter().chain(folded.iter()) {
            if let Transport::Tcp(s) = &p.payload {
                if s.flags.syn && !s.flags.ack {
                    if live {
                        ep.syn_live = true;
                    } else {
                        ep.syn_dead = true;
                    }
                }
            }
        }
        self.collect(ep);
    }

    // ---- episode ------------------------------------------------------

    pub fn run_episode(&mut self, idx: usize, e: &Episode) -> Res {
        let h = vcore::rng::mix(self.seed ^ (idx as u64).wrapping_mul(0x9e37));
        let mut ep = Ep {
            idx,
            dst: self.dst_addr(e),
            laddr: self.listen_addr(e),
            conn: None,
            gate: None,
            outcome: None,
            cstream: None,
            c_local: None,
            attempt_local: None,
            accepts: vec![],
            c_written: 0,
            c_read: 0,
            syn_live: false,
            syn_dead: false,
            ldrop_during: false,
            ldrop_after_syn: false,
            faults: 0,
            key_c: h,
            key_s: vcore::rng::mix(h),
        };
        // a listener kept from an earlier episode with another address is
        // replaced
        if let Some((_, a)) = self.listener.as_ref() {
            if *a != ep.laddr {
                self.do_drop_listener(&mut ep);
                ep.ldrop_during = false;
                ep.ldrop_after_syn = false;
            }
        }
        self.out.count("episodes", 1);
        let r = self.episode_body(&mut ep, e);
        // Whatever happened, release the episode's sockets in scope.
        self.held = None;
        ep.cstream = None;
        for a in ep.accepts.iter_mut() {
            a.stream = None;
        }
        r
    }

    fn episode_body(&mut self, ep: &mut Ep, e: &Episode) -> Res {
        for st in &e.steps {
            let code = st.code();
            match st {
                Step::Listen => self.do_listen(ep)?,
                Step::DropListener => self.do_drop_listener(ep),
                Step::Connect => {
                    if ep.conn.is_none() {
                        if let Some(k) = e.steer {
                            self.steer(49152 + 7 * k as u16);
                        }
                    }
                    self.do_connect(ep, e.lazy)
                }
                Step::Cancel => {
                    if let Some((slot, cancel)) = ep.conn.as_ref() {
                        if slot.borrow().done.is_none() {
                            let (c, s) = self.states(ep);
                            self.out.saw("cancel_at_pair", format!("{c}/{s}"));
                            cancel.notify_one();
                            self.world.settle();
                            self.collect(ep);
                        }
                    }
                }
                Step::Accept => {
                    self.do_accept();
                    self.collect(ep);
                }
                Step::CWrite(n) => self.write(ep, true, *n)?,
                Step::SWrite(n) => self.write(ep, false, *n)?,
                Step::CRead => self.read(ep, true)?,
                Step::SRead => self.read(ep, false)?,
                Step::CShut => self.shutdown(ep, true),
                Step::SShut => self.shutdown(ep, false),
                Step::CDrop => ep.cstream = None,
                Step::SDrop => {
                    if let Some(a) = ep.accepts.first_mut() {
                        a.stream = None;
                    }
                }
                Step::Round(fc, fs) => self.do_round(ep, *fc, *fs),
                Step::Poll => {
                    if ep.outcome.is_none() {
                        let (c, s) = self.states(ep);
                        self.out.saw("lazy_poll_at_pair", format!("{c}/{s}"));
                    }
                    self.do_poll(ep)
                }
            }
            let is_action = !matches!(st, Step::Round(..));
            self.observe(ep, &code, is_action);
        }
        self.close_out(ep, e)
    }

    fn close_out(&mut self, ep: &mut Ep, e: &Episode) -> Res {
        let in_env = ep.faults + 1 <= self.cfg.max;
        // 1. a pending connect must resolve within R clean rounds
        if ep.conn.is_some() && ep.outcome.is_none() {
            self.do_poll(ep);
        }
        if ep.conn.is_some() && ep.outcome.is_none() {
            for _ in 0..self.cfg.r() {
                self.do_round(ep, Fate::Deliver, Fate::Deliver);
                if ep.outcome.is_some() {
                    break;
                }
            }
            self.observe(ep, "wait", false);
            if ep.outcome.is_none() {
                return Err(self.complaint(
                    ep.idx,
                    "connect-hang",
                    format!("connect to {} still pending after {} fault-free rounds", ep.dst, self.cfg.r()),
                ));
            }
        }
        // 2. outcome oracle
        match ep.outcome.clone() {
            Some(ConnOutcome::Ok) => {
                if !ep.syn_live {
                    return Err(self.complaint(
                        ep.idx,
                        "connect-ok-without-listener",
                        format!("connect to {} returned Ok but no SYN ever reached a live listener", ep.dst),
                    ));
                }
                if let (Some(l), Some(al)) = (ep.c_local, ep.attempt_local) {
                    if l != al {
                        return Err(self.complaint(
                            ep.idx,
                            "client-addr-mismatch",
                            format!("stream local_addr {l} differs from the SYN's source {al}"),
                        ));
                    }
                }
            }
            Some(ConnOutcome::Err(ErrorKind::ConnectionRefused)) => {
                if !(ep.syn_dead || ep.ldrop_during) {
                    return Err(self.complaint(
                        ep.idx,
                        "refused-with-listener",
                        format!("connect to {} was refused although a listener was live at every SYN arrival", ep.dst),
                    ));
                }
            }
            Some(ConnOutcome::Err(ErrorKind::TimedOut)) => {
                if in_env {
                    return Err(self.complaint(
                        ep.idx,
                        "connect-timeout-in-envelope",
                        format!(
                            "connect to {} timed out with only {} faulted packets (budget {})",
                            ep.dst, ep.faults, self.cfg.max
                        ),
                    ));
                }
                self.out.count("out_of_envelope_timeouts", 1);
            }
            Some(ConnOutcome::Err(k)) => {
                return Err(self.complaint(
                    ep.idx,
                    "connect-unexpected-error",
                    format!("connect to {} failed with {:?}", ep.dst, k),
                ));
            }
            Some(ConnOutcome::Cancelled) | None => {}
        }
        // 3. close both sides
        self.observe(ep, "closeout", true);
        let hold_it = e.hold && ep.accepts.first().map(|a| a.stream.is_some()).unwrap_or(false);
        if !e.server_first {
            ep.cstream = None;
        }
        if hold_it {
            // the server closes (shutdown) but keeps its handle
            self.shutdown(ep, false);
            self.held = ep.accepts[0].stream.take();
            self.out.count("closed_handles_held", 1);
        }
        for a in ep.accepts.iter_mut() {
            a.stream = None;
        }
        ep.cstream = None;
        if !e.keep {
            self.do_drop_listener(ep);
        }
        // 4. Q fault-free rounds; with a live listener keep draining accept
        for _ in 0..self.cfg.q() {
            self.do_round(ep, Fate::Deliver, Fate::Deliver);
            self.try_accept_drain(ep);
            self.collect(ep);
            // streams accepted late are read (data oracle) and dropped
            if ep.accepts.len() == 1 && ep.accepts[0].stream.is_some() {
                self.read(ep, false)?;
            }
            for a in ep.accepts.iter_mut() {
                a.stream = None;
            }
        }
        // stop a parked accept task: it holds no connection
        self.collect(ep);
        // 5. pairing oracle
        for a in &ep.accepts {
            let ok = Some(a.peer) == ep.attempt_local && a.local == ep.dst && a.peer_ret == a.peer;
            if !ok {
                return Err(self.complaint(
                    ep.idx,
                    "accept-unknown-connection",
                    format!(
                        "accept returned local={} peer={} (returned peer {}) but the only connect attempt was {:?} -> {}",
                        a.local, a.peer, a.peer_ret, ep.attempt_local, ep.dst
                    ),
                ));
            }
        }
        if ep.accepts.len() > 1 {
            return Err(self.complaint(
                ep.idx,
                "accept-duplicate",
                format!("{} accepts returned the connection {:?} -> {}", ep.accepts.len(), ep.attempt_local, ep.dst),
            ));
        }
        if ep.outcome == Some(ConnOutcome::Ok) && !ep.ldrop_after_syn && self.listener.is_some() && ep.accepts.is_empty() {
            return Err(self.complaint(
                ep.idx,
                "accept-missing",
                format!(
                    "connect {:?} -> {} returned Ok, the listener stayed alive, yet no accept returned it within {} rounds",
                    ep.attempt_local,
                    ep.dst,
                    self.cfg.q()
                ),
            ));
        }
        if ep.outcome == Some(ConnOutcome::Ok) && !ep.accepts.is_empty() {
            self.out.count("paired_connections", 1);
        }
        // 6. reclamation
        self.checkpoint(ep.idx, "leak")?;
        // 7. re-bind every port the episode used
        if let Some(al) = ep.attempt_local {
            self.world.cur(self.ch);
            match now(TcpListener::bind(al)) {
                Ok(l) => drop(l),
                Err(err) => {
                    return Err(self.complaint(
                        ep.idx,
                        "rebind-failed:client",
                        format!("re-binding the client's former port {al} failed with {:?}", err.kind()),
                    ))
                }
            }
            self.out.count("rebind_probes", 1);
        }
        if self.listener.is_none() && self.held.is_none() {
            self.world.cur(self.sh);
            match now(TcpListener::bind(ep.laddr)) {
                Ok(l) => drop(l),
                Err(err) => {
                    return Err(self.complaint(
                        ep.idx,
                        "rebind-failed:server",
                        format!("re-binding the listener address {} failed with {:?}", ep.laddr, err.kind()),
                    ))
                }
            }
            self.out.count("rebind_probes", 1);
        }
        // 8. reconnect on the same 4-tuple
        if e.reuse || self.held.is_some() {
            if let Some(al) = ep.attempt_local {
                self.reuse_probe(ep, al)?;
            }
        }
        if self.held.take().is_some() {
            for _ in 0..self.cfg.q() {
                self.do_round(ep, Fate::Deliver, Fate::Deliver);
            }
            self.checkpoint(ep.idx, "leak-after-hold")?;
        }
        Ok(())
    }

    /// Table contents after quiescence must be exactly the model's live
    /// listeners and UDP sockets.
    fn checkpoint(&mut self, idx: usize, class: &str) -> Res {
        self.out.count("reclamation_checks", 1);
        for h in 0..self.world.hosts.len() {
            let mut want = self.udp_keep.iter().filter(|(uh, _)| *uh == h).count();
            if self.listener.is_some() && h == self.sh {
                want += 1;
            }
            let c = turmoil_net::verif::host_counts_by_id(self.world.id(h));
            // a closed connection whose handle the application still holds
            // keeps its socket entry (and binding) until the handle is
            // dropped; whether its 4-tuple stays indexed is not observable
            // here - the reuse probe decides whether it swallows anything
            let hh = usize::from(self.held.is_some() && h == self.sh);
            let mut which = String::new();
            if c.sockets != want + hh {
                which.push('s');
            }
            if c.bindings < want || c.bindings > want + hh || c.binding_fds != want + hh {
                which.push('b');
            }
            if c.connections > hh {
                which.push('c');
            }
            let side = if self.ch == self.sh {
                "host"
            } else if h == self.ch {
                "client"
            } else {
                "server"
            };
            if !which.is_empty() {
                // what is left over (netstat hides Closed TCBs)
                let ns = turmoil_net::netstat(self.world.hosts[h].addrs[0]);
                let mut res: Vec<String> = ns
                    .entries
                    .iter()
                    .filter(|e| e.proto == Proto::Tcp && e.state != Some(NetstatState::Listen))
                    .map(|e| format!("{:?}", e.state.unwrap()))
                    .collect();
                res.sort();
                res.dedup();
                let residue = if res.is_empty() { "hidden".to_string() } else { res.join("+") };
                // Diagnosis: after Q fault-free rounds a socket that still has
                // unsent / unacknowledged bytes queued is not retransmitting
                // (it would have timed out by now): it faces a closed window
                // that nothing will ever reopen. One root cause, one identity.
                let mut stalled: Vec<String> = vec![];
                for hh in 0..self.world.hosts.len() {
                    for e in turmoil_net::netstat(self.world.hosts[hh].addrs[0]).entries {
                        // queued bytes, or a FIN of its own that is neither
                        // acknowledged nor given up (FinWait1/Closing/LastAck
                        // retransmit and time out within Q rounds unless the
                        // FIN is held back by a closed window)
                        let fin_stuck = matches!(e.state, Some(NetstatState::FinWait1) | Some(NetstatState::Closing) | Some(NetstatState::LastAck));
                        if e.proto == Proto::Tcp && e.state != Some(NetstatState::Listen) && (e.send_q > 0 || fin_stuck) {
                            stalled.push(format!("{:?} send-q {}", e.state.unwrap(), e.send_q));
                        }
                    }
                }
                // only where a closed window is possible at all: the
                // configurations with a tiny receive buffer
                if !stalled.is_empty() && self.cfg.rcap > 0 {
                    return Err(self.complaint(
                        idx,
                        "diag:orphan-stalled-on-zero-window",
                        format!(
                            "after {} fault-free rounds with everything dropped on both sides a socket still holds bytes or a FIN it can never send ({}): the peer's window is closed and is never probed; the {side} host has sockets={} bindings={} connections={}, model expects {want}/{want}/0 (netstat residue {residue})",
                            self.cfg.q(), stalled.join(", "), c.sockets, c.bindings, c.connections
                        ),
                    ));
                }
                return Err(self.complaint(
                    idx,
                    &format!("{class}:{side}:{which}:{residue}"),
                    format!(
                        "after {} fault-free rounds with everything closed the {side} host has sockets={} bindings={} binding_fds={} connections={}, model expects {want}/{want}/{want}/0",
                        self.cfg.q(), c.sockets, c.bindings, c.binding_fds, c.connections
                    ),
                ));
            }
            let ns = turmoil_net::netstat(self.world.hosts[h].addrs[0]);
            let bad = ns
                .entries
                .iter()
                .filter(|e| e.proto == Proto::Tcp && e.state != Some(NetstatState::Listen))
                .count();
            if bad > 0 || ns.entries.len() != want {
                return Err(self.complaint(
                    idx,
                    &format!("netstat-residue:{side}"),
                    format!("netstat of the {side} host still lists {} entries ({} connections), expected {want}:\n{ns}", ns.entries.len(), bad),
                ));
            }
        }
        Ok(())
    }

    fn reuse_probe(&mut self, ep: &mut Ep, al: SocketAddr) -> Res {
        self.out.count("reuse_probes", 1);
        if self.listener.is_none() && self.held.is_some() {
            // the held handle still owns the listener's address (AddrInUse
            // is correct): nothing can listen there, release it first
            self.held = None;
            self.out.count("hold_without_listener_released", 1);
        }
        let temp_listener = self.listener.is_none();
        self.do_listen(ep)?;
        self.steer(al.port());
        let mut p = Ep {
            idx: ep.idx,
            dst: ep.dst,
            laddr: ep.laddr,
            conn: None,
            gate: None,
            outcome: None,
            cstream: None,
            c_local: None,
            attempt_local: None,
            accepts: vec![],
            c_written: 0,
            c_read: 0,
            syn_live: false,
            syn_dead: false,
            ldrop_during: false,
            ldrop_after_syn: false,
            faults: 0,
            key_c: vcore::rng::mix(ep.key_c ^ 0x5555),
            key_s: vcore::rng::mix(ep.key_s ^ 0x5555),
        };
        let r = self.reuse_body(&mut p, al);
        p.cstream = None;
        for a in p.accepts.iter_mut() {
            a.stream = None;
        }
        r?;
        if self.held.take().is_some() {
            self.out.count("reuse_with_closed_handle_held", 1);
        }
        if temp_listener {
            self.do_drop_listener(&mut p);
        }
        for _ in 0..self.cfg.q() {
            self.do_round(&mut p, Fate::Deliver, Fate::Deliver);
        }
        self.checkpoint(ep.idx, "leak-after-reuse")
    }

    fn reuse_body(&mut self, p: &mut Ep, al: SocketAddr) -> Res {
        self.do_connect(p, false);
        for _ in 0..self.cfg.r() {
            self.do_round(p, Fate::Deliver, Fate::Deliver);
            if p.outcome.is_some() {
                break;
            }
        }
        if p.outcome != Some(ConnOutcome::Ok) {
            return Err(self.complaint(
                p.idx,
                "reuse-connect-failed",
                format!(
                    "after reclamation a new connect {:?} -> {} (former 4-tuple {} -> {}) ended {:?}",
                    p.attempt_local, p.dst, al, p.dst, p.outcome
                ),
            ));
        }
        if p.attempt_local == Some(al) {
            self.out.count("reused_4tuples", 1);
        } else {
            self.out.count("reuse_port_miss", 1);
        }
        // one receive buffer's worth at most
        let n: u32 = if self.cfg.rcap > 0 { self.cfg.rcap.min(24) as u32 } else { 24 };
        self.write(p, true, n)?;
        for _ in 0..3 {
            self.do_round(p, Fate::Deliver, Fate::Deliver);
            self.try_accept_drain(p);
        }
        if p.accepts.len() != 1 || Some(p.accepts[0].peer) != p.attempt_local || p.accepts[0].local != p.dst {
            return Err(self.complaint(
                p.idx,
                "reuse-accept-failed",
                format!(
                    "reconnect {:?} -> {} was not handed out by accept exactly once with mirrored addresses ({} accepts)",
                    p.attempt_local,
                    p.dst,
                    p.accepts.len()
                ),
            ));
        }
        self.read(p, false)?;
        self.write(p, false, n)?;
        for _ in 0..3 {
            self.do_round(p, Fate::Deliver, Fate::Deliver);
        }
        self.read(p, true)?;
        if p.accepts[0].read != n as u64 || p.c_read != n as u64 {
            return Err(self.complaint(
                p.idx,
                "reuse-transfer-failed",
                format!(
                    "on the reused 4-tuple the server read {} and the client {} of {n} bytes",
                    p.accepts[0].read, p.c_read
                ),
            ));
        }
        self.out.count("reuse_transfers_ok", 1);
        Ok(())
    }

    /// Release long-lived sockets in scope (end of scenario).
    pub fn finish(&mut self) {
        self.stop_accept_task();
        if let Some((l, _)) = self.listener.take() {
            if let Ok(s) = Rc::try_unwrap(l) {
                drop(s)
            }
        }
        self.held = None;
        self.udp_keep.clear();
        turmoil_net::verif::set_loopback_tap(None);
    }
}

/// Execute a scenario; a panic inside turmoil-net is a complaint.
pub fn run_scenario(sc: &Scenario, seed: u64) -> Outcome {
    let r = engine::guarded(|| {
        let mut sim = Sim::new(&sc.cfg, seed);
        for (i, e) in sc.episodes.iter().enumerate() {
            if let Err(c) = sim.run_episode(i, e) {
                sim.out.complaint = Some(c);
                break;
            }
        }
        sim.finish();
        std::mem::take(&mut sim.out)
    });
    match r {
        Ok(o) => o,
        Err(msg) => {
            let mut o = Outcome::default();
            // location is part of the class so different panics differ
            let loc = msg.rsplit(" @ ").find(|s| s.contains("turmoil-net/src")).unwrap_or("?");
            let loc = loc.split("turmoil-net/").last().unwrap_or(loc).to_string();
            o.complaint = Some(Complaint {
                class: format!("kernel-panic:{loc}"),
                detail: format!("panic inside turmoil-net: {msg}"),
                episode: sc.episodes.len().saturating_sub(1),
            });
            o
        }
    }
}
