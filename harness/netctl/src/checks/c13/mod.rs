//! C13 — turmoil-net connections open, close and are reclaimed like TCP.
//!
//! Sub-spaces: `enum` (systematic client action x server action x injection
//! point x single fault placement), `rand` (seeded random episodes, many per
//! Net so ephemeral ports / 4-tuples recur), `crowd` (backlog semantics with
//! concurrent connects), `directed` (fixed regression scripts).

mod crowd;
mod exec;
mod script;

use serde_json::json;
use vcore::{Ctx, Finish, Report, Rng, RunOpts, ScenarioOut};

use crate::engine::Fate;
use exec::{run_scenario, Outcome};
use script::*;

fn gen_cfg(rng: &mut Rng) -> Cfg {
    Cfg {
        layout: *rng.pick(&[Layout::V4, Layout::V4, Layout::V4, Layout::V6, Layout::Lo]),
        backlog: *rng.pick(&[1usize, 2, 8]),
        thr: *rng.pick(&[2u32, 3]),
        max: *rng.pick(&[3u32, 5]),
        rcap: if rng.chance(0.12) { 16 } else { 0 },
    }
}

fn gen_fates(rng: &mut Rng, budget: &mut u32) -> (Fate, Fate) {
    if *budget == 0 || rng.chance(0.55) {
        return (Fate::Deliver, Fate::Deliver);
    }
    let f = *rng.pick(&[Fate::Hold(1), Fate::Hold(1), Fate::Hold(2), Fate::Drop, Fate::Drop]);
    *budget -= 1;
    if rng.coin() {
        (f, Fate::Deliver)
    } else {
        (Fate::Deliver, f)
    }
}

fn gen_episode(rng: &mut Rng, cfg: &Cfg) -> Episode {
    let mut steps = vec![];
    // faults are counted per packet by the executor; a faulted round usually
    // hits one packet, sometimes two: stay well inside the budget
    let mut budget = (cfg.max - 1).min(3);
    if rng.chance(0.88) {
        steps.push(Step::Listen);
    }
    if rng.chance(0.4) {
        steps.push(Step::Accept);
    }
    steps.push(Step::Connect);
    let n = rng.range(2, 14);
    for _ in 0..n {
        let w = rng.below(100);
        let st = match w {
            0..=39 => {
                let (a, b) = gen_fates(rng, &mut budget);
                Step::Round(a, b)
            }
            40..=47 => Step::Accept,
            48..=54 => Step::Cancel,
            55..=61 => Step::CWrite(*rng.pick(&[1u32, 8, 100, 3000])),
            62..=66 => Step::SWrite(*rng.pick(&[1u32, 8, 100, 3000])),
            67..=69 => Step::CRead,
            70..=73 => Step::SRead,
            74..=79 => Step::CShut,
            80..=85 => Step::SShut,
            86..=90 => Step::CDrop,
            91..=93 => Step::SDrop,
            94..=95 => Step::Poll,
            96..=98 => Step::DropListener,
            _ => Step::Listen,
        };
        steps.push(st);
    }
    let wild = rng.chance(0.4);
    Episode {
        port: rng.below(2) as u8,
        wild,
        alt_dst: wild && rng.coin(),
        steer: if rng.chance(0.6) { Some(rng.below(3) as u8) } else { None },
        keep: rng.chance(0.6),
        server_first: rng.coin(),
        reuse: rng.chance(0.4),
        lazy: rng.chance(0.2),
        hold: rng.chance(0.15),
        steps,
    }
}

/// Systematic family: client action x server action x injection point x one
/// fault placement.
fn enum_family() -> Vec<Episode> {
    let cacts: [Option<Step>; 5] = [
        Some(Step::Cancel),
        Some(Step::CDrop),
        Some(Step::CShut),
        Some(Step::CWrite(8)),
        None,
    ];
    let sacts: [Option<Step>; 4] = [Some(Step::SDrop), Some(Step::SShut), Some(Step::DropListener), None];
    let mut faults: Vec<Option<(usize, bool, Fate)>> = vec![None];
    for j in 0..4 {
        for c2s in [true, false] {
            for f in [Fate::Hold(2), Fate::Drop] {
                faults.push(Some((j, c2s, f)));
            }
        }
    }
    let mut out = vec![];
    for (ai, ca) in cacts.iter().enumerate() {
        for (bi, sa) in sacts.iter().enumerate() {
            for point in 0..6usize {
                for fault in &faults {
                    if let Some((j, _, _)) = fault {
                        if *j > point + 1 {
                            continue;
                        }
                    }
                    for accept_first in [true, false] {
                        let mut steps = vec![Step::Listen];
                        if accept_first {
                            steps.push(Step::Accept);
                        }
                        steps.push(Step::Connect);
                        let rf = |r: usize| -> Step {
                            match fault {
                                Some((j, c2s, f)) if *j == r => {
                                    if *c2s {
                                        Step::Round(*f, Fate::Deliver)
                                    } else {
                                        Step::Round(Fate::Deliver, *f)
                                    }
                                }
                                _ => Step::Round(Fate::Deliver, Fate::Deliver),
                            }
                        };
                        for r in 0..point {
                            steps.push(rf(r));
                        }
                        if let Some(a) = ca {
                            steps.push(a.clone());
                        }
                        steps.push(rf(point));
                        if !accept_first {
                            steps.push(Step::Accept);
                        }
                        if let Some(b) = sa {
                            steps.push(b.clone());
                        }
                        steps.push(rf(point + 1));
                        let k = ai * 31 + bi * 7 + point;
                        out.push(Episode {
                            port: (k % 2) as u8,
                            wild: k % 3 == 0,
                            alt_dst: k % 6 == 0,
                            steer: Some((k % 3) as u8),
                            keep: k % 2 == 0 && !matches!(sa, Some(Step::DropListener)),
                            server_first: k % 4 < 2,
                            reuse: k % 5 == 0,
                            lazy: k % 7 == 3,
                            hold: k % 11 == 4,
                            steps,
                        });
                    }
                }
            }
        }
    }
    out
}

/// Fixed regression scripts (always run, deterministic).
fn directed() -> Vec<(Cfg, Vec<Episode>)> {
    use Fate::*;
    let d = || Step::Round(Deliver, Deliver);
    let mut v = vec![];
    // F8: connect cancelled while the server child is SynReceived (SYN-ACK
    // held), listener kept / dropped.
    for keep in [true, false] {
        let mut e = Episode::plain(vec![Step::Listen, Step::Connect, Step::Round(Deliver, Hold(2)), Step::Cancel, d(), d()]);
        e.keep = keep;
        e.reuse = true;
        v.push((Cfg::default_cfg(), vec![e]));
    }
    // cancel after the client is Established but the server child is not
    let e = Episode::plain(vec![Step::Listen, Step::Connect, d(), Step::Round(Hold(2), Deliver), Step::Cancel, d()]);
    v.push((Cfg::default_cfg(), vec![e]));
    // graceful both ways, simultaneous close, RST by unread data
    let e = Episode::plain(vec![
        Step::Listen, Step::Accept, Step::Connect, d(), d(), d(), Step::CWrite(8), d(), d(), Step::SRead,
        Step::CShut, Step::SShut, d(), d(),
    ]);
    v.push((Cfg::default_cfg(), vec![e]));
    let e = Episode::plain(vec![
        Step::Listen, Step::Accept, Step::Connect, d(), d(), d(), Step::CWrite(100), d(), d(), Step::SDrop, d(), d(),
    ]);
    v.push((Cfg::default_cfg(), vec![e]));
    // orphaned FIN_WAIT2: client gone, listener dropped with the child still
    // queued, the one RST lost
    let mut e = Episode::plain(vec![
        Step::Listen, Step::Connect, d(), d(), d(), Step::CDrop, d(), d(), Step::DropListener, Step::Round(Deliver, Drop),
    ]);
    e.keep = false;
    v.push((Cfg::default_cfg(), vec![e]));
    // same root cause, server side orphaned: the client drops with unread
    // data and its RST is lost
    let e = Episode::plain(vec![
        Step::Listen, Step::Accept, Step::Connect, d(), d(), d(), d(), Step::SWrite(8), d(), d(), Step::SDrop, d(), d(),
        Step::CDrop, Step::Round(Drop, Deliver),
    ]);
    v.push((Cfg::default_cfg(), vec![e]));
    // client orphaned, the server drops with unread data and its RST is lost
    let e = Episode::plain(vec![
        Step::Listen, Step::Accept, Step::Connect, d(), d(), d(), d(), Step::CWrite(8), d(), d(), Step::CDrop, d(), d(),
        Step::SDrop, Step::Round(Deliver, Drop),
    ]);
    v.push((Cfg::default_cfg(), vec![e]));
    // lazily polled connect: the peer's FIN (after a greeting) arrives before
    // the application looks at the connect future again
    let mut e = Episode::plain(vec![
        Step::Listen, Step::Accept, Step::Connect, d(), d(), d(), d(), Step::SWrite(8), Step::SShut, d(), d(), Step::Poll, Step::CRead,
    ]);
    e.lazy = true;
    v.push((Cfg::default_cfg(), vec![e]));
    // both ends closed, the server still holds its handle: a new connection
    // on the same 4-tuple must get through
    let mut e = Episode::plain(vec![
        Step::Listen, Step::Accept, Step::Connect, d(), d(), d(), d(), Step::CWrite(8), d(), d(), Step::SRead, Step::CDrop, d(), d(),
    ]);
    e.hold = true;
    e.steer = Some(1);
    v.push((Cfg::default_cfg(), vec![e]));
    // same, the held connection was reset (client dropped with unread data)
    let mut e = Episode::plain(vec![
        Step::Listen, Step::Accept, Step::Connect, d(), d(), d(), d(), Step::SWrite(8), d(), d(), Step::CDrop, d(), d(),
    ]);
    e.hold = true;
    e.steer = Some(1);
    v.push((Cfg::default_cfg(), vec![e]));
    // known (zero-window stall, no probe): small receive buffer; the server
    // reads one buffer and drops, the client's remaining bytes fill the
    // orphan's buffer (window 0), the client drops too: both stay for ever
    let small = Cfg { rcap: 16, ..Cfg::default_cfg() };
    let e = Episode::plain(vec![
        Step::Listen, Step::Accept, Step::Connect, d(), d(), d(), d(), Step::CWrite(100), d(), d(), Step::SRead, Step::SDrop, d(), d(),
        Step::CDrop, d(), d(),
    ]);
    v.push((small.clone(), vec![e]));
    // same stall, other trigger: the server never reads and drops (RST),
    // that RST is lost; the client orphan faces window 0 with nothing in flight
    let e = Episode::plain(vec![
        Step::Listen, Step::Accept, Step::Connect, d(), d(), d(), d(), Step::CWrite(100), d(), d(), d(), d(), Step::CDrop, d(), d(),
        Step::SDrop, Step::Round(Deliver, Drop),
    ]);
    v.push((small, vec![e]));
    // nothing listens
    let e = Episode::plain(vec![Step::Connect, d(), d(), d()]);
    v.push((Cfg::default_cfg(), vec![e]));
    // listener dropped with an unaccepted established child
    let mut e = Episode::plain(vec![Step::Listen, Step::Connect, d(), d(), d(), Step::DropListener, d(), Step::CRead]);
    e.keep = false;
    v.push((Cfg::default_cfg(), vec![e]));
    v
}

fn outcome_digest(o: &Outcome) -> u64 {
    let mut h = vcore::Fnv::new();
    for t in &o.trace {
        h.write_str(t);
    }
    h.finish()
}

/// Shrink a failing scenario to a small one with the same complaint class and
/// build the canonical signature.
fn minimise(sc: &Scenario, seed: u64, class: &str) -> Scenario {
    let fails = |s: &Scenario| -> bool {
        run_scenario(s, seed)
            .complaint
            .map(|c| c.class == class)
            .unwrap_or(false)
    };
    let try_apply = |cur: &mut Scenario, f: &dyn Fn(&mut Scenario)| -> bool {
        let mut cand = cur.clone();
        f(&mut cand);
        if cand != *cur && fails(&cand) {
            *cur = cand;
            true
        } else {
            false
        }
    };
    let mut cur = sc.clone();
    // 1. episodes
    if cur.episodes.len() > 1 {
        let cfg = cur.cfg.clone();
        let eps = vcore::ddmin::ddmin(
            cur.episodes.clone(),
            |sub| {
                fails(&Scenario {
                    cfg: cfg.clone(),
                    episodes: sub.to_vec(),
                })
            },
            60,
        );
        cur.episodes = eps;
    }
    // 2. configuration and episode parameters to their defaults
    try_apply(&mut cur, &|s| s.cfg = Cfg::default_cfg());
    try_apply(&mut cur, &|s| s.cfg.layout = Layout::V4);
    try_apply(&mut cur, &|s| s.cfg.backlog = 8);
    try_apply(&mut cur, &|s| {
        s.cfg.thr = 3;
        s.cfg.max = 5;
    });
    // Normalising loop: the same root cause should end in the same script
    // whatever random script found it, so besides deleting steps (ddmin) the
    // script is rewritten towards a normal form: episodes merged, faults
    // removed or weakened, cancel / shutdown replaced by a plain drop,
    // actions moved as early as possible.
    for _pass in 0..4 {
        let before = cur.clone();
        try_apply(&mut cur, &|s| s.cfg = Cfg::default_cfg());
        try_apply(&mut cur, &|s| s.cfg.layout = Layout::V4);
        try_apply(&mut cur, &|s| s.cfg.backlog = 8);
        try_apply(&mut cur, &|s| s.cfg.rcap = 0);
        try_apply(&mut cur, &|s| {
            s.cfg.thr = 3;
            s.cfg.max = 5;
        });
        // merge neighbouring episodes
        let mut i = 0;
        while i + 1 < cur.episodes.len() {
            let merged = try_apply(&mut cur, &|s| {
                let a = s.episodes.remove(i);
                let mut steps = a.steps;
                steps.extend(s.episodes[i].steps.clone());
                s.episodes[i].steps = steps;
            });
            if !merged {
                i += 1;
            }
        }
        for i in 0..cur.episodes.len() {
            try_apply(&mut cur, &|s| s.episodes[i].reuse = false);
            try_apply(&mut cur, &|s| s.episodes[i].lazy = false);
            try_apply(&mut cur, &|s| s.episodes[i].hold = false);
            try_apply(&mut cur, &|s| s.episodes[i].steer = None);
            try_apply(&mut cur, &|s| {
                s.episodes[i].wild = false;
                s.episodes[i].alt_dst = false;
            });
            try_apply(&mut cur, &|s| s.episodes[i].alt_dst = false);
            try_apply(&mut cur, &|s| s.episodes[i].port = 0);
            try_apply(&mut cur, &|s| s.episodes[i].server_first = false);
            try_apply(&mut cur, &|s| s.episodes[i].keep = true);
        }
        // delete steps (last episode first)
        for i in (0..cur.episodes.len()).rev() {
            let base = cur.clone();
            let steps = vcore::ddmin::ddmin(
                cur.episodes[i].steps.clone(),
                |sub| {
                    let mut s = base.clone();
                    s.episodes[i].steps = sub.to_vec();
                    fails(&s)
                },
                120,
            );
            if steps.len() < cur.episodes[i].steps.len() {
                cur.episodes[i].steps = steps;
            }
        }
        // rewrite steps
        for i in 0..cur.episodes.len() {
            let mut j = 0;
            while j < cur.episodes[i].steps.len() {
                let st = cur.episodes[i].steps[j].clone();
                let set = |cur: &mut Scenario, with: Vec<Step>| -> bool {
                    try_apply(cur, &|s| {
                        s.episodes[i].steps.splice(j..j + 1, with.clone());
                    })
                };
                let clean = Step::Round(Fate::Deliver, Fate::Deliver);
                match st {
                    Step::Round(a, b) if a != Fate::Deliver || b != Fate::Deliver => {
                        let _ = set(&mut cur, vec![clean.clone()])
                            || (a != Fate::Deliver && b != Fate::Deliver && set(&mut cur, vec![Step::Round(Fate::Deliver, b)]))
                            || (a != Fate::Deliver && b != Fate::Deliver && set(&mut cur, vec![Step::Round(a, Fate::Deliver)]))
                            || (matches!(a, Fate::Hold(k) if k > 1) && set(&mut cur, vec![Step::Round(Fate::Hold(1), b)]))
                            || (matches!(b, Fate::Hold(k) if k > 1) && set(&mut cur, vec![Step::Round(a, Fate::Hold(1))]));
                    }
                    Step::Cancel => {
                        let _ = set(&mut cur, vec![Step::CDrop]) || set(&mut cur, vec![clean.clone(), Step::CDrop]);
                    }
                    // a bare poll that is needed only to let time pass for a future: prefer
                    // the fault-free round (normal form shared with the directed scripts)
                    Step::Poll => {
                        let _ = set(&mut cur, vec![clean.clone()]);
                    }
                    Step::CShut => {
                        let _ = set(&mut cur, vec![Step::CDrop]);
                    }
                    Step::SShut => {
                        let _ = set(&mut cur, vec![Step::SDrop]);
                    }
                    Step::CWrite(n) if n != 8 => {
                        let _ = set(&mut cur, vec![Step::CWrite(8)]);
                    }
                    Step::SWrite(n) if n != 8 => {
                        let _ = set(&mut cur, vec![Step::SWrite(8)]);
                    }
                    _ => {}
                }
                j += 1;
            }
        }
        // actions as early as possible: bubble every non-round step to the
        // left while the complaint stays (normal form for step order)
        for i in 0..cur.episodes.len() {
            let mut j = 1;
            while j < cur.episodes[i].steps.len() {
                let mut k = j;
                while k > 0
                    && !matches!(cur.episodes[i].steps[k], Step::Round(..))
                    && cur.episodes[i].steps[k - 1] != cur.episodes[i].steps[k]
                    && try_apply(&mut cur, &|s| s.episodes[i].steps.swap(k - 1, k))
                {
                    k -= 1;
                }
                j += 1;
            }
        }
        // the steps before the first round do not touch the wire: fixed
        // order listen, accept, connect, rest
        for i in 0..cur.episodes.len() {
            try_apply(&mut cur, &|s| {
                let steps = &mut s.episodes[i].steps;
                let n = steps.iter().position(|x| matches!(x, Step::Round(..))).unwrap_or(steps.len());
                steps[..n].sort_by_key(|x| match x {
                    Step::Listen => 0,
                    Step::Accept => 1,
                    Step::Connect => 2,
                    _ => 3,
                });
            });
        }
        if cur == before {
            break;
        }
    }
    cur
}

fn to_out(sc: &Scenario, seed: u64, o: Outcome, space: &str, minimise_it: bool) -> ScenarioOut {
    let mut out = ScenarioOut::default();
    out.digest = outcome_digest(&o);
    out.nontrivial = o.interesting && o.counters.get("reclamation_checks").copied().unwrap_or(0) > 0;
    for (k, v) in &o.counters {
        out.count(k, *v);
    }
    out.count(&format!("scenarios_{space}"), 1);
    for (s, i) in &o.seen {
        out.saw(s, i.clone());
    }
    let n = o.trace.len();
    out.sample = Some(json!({
        "space": space,
        "cfg": sc.cfg.to_json(),
        "episodes": sc.episodes.iter().take(2).map(|e| e.to_json()).collect::<Vec<_>>(),
        "trace_excerpt": vcore::excerpt(&o.trace, 40),
        "trace_len": n,
    }));
    if let Some(c) = o.complaint {
        let min = if minimise_it {
            minimise(sc, seed, &c.class)
        } else {
            sc.clone()
        };
        let fin = run_scenario(&min, seed);
        let detail = fin.complaint.as_ref().map(|x| x.detail.clone()).unwrap_or(c.detail.clone());
        let signature = if c.class.starts_with("diag:") { format!("C13|{}", c.class) } else { format!("C13|{}|{}", c.class, min.canon()) };
        let mut w = min.to_json();
        w["seed"] = json!(seed);
        w["complaint"] = json!(c.class);
        w["trace"] = json!(fin.trace);
        out.violate(&c.class, signature, format!("{}: {} [script {}]", c.class, detail, min.canon()), w);
    }
    out
}

pub fn run(ctx: &Ctx) -> ! {
    let fin = Finish {
        level: "fault_enumeration",
        rule: "scenario counts when an action (connect/cancel/accept/write/shutdown/drop/listener drop) was executed while at least one end of the connection was in a handshake or close state other than Established, and a reclamation check (hook counts vs model after Q fault-free rounds) was performed",
        assumptions: vec![
            "single OS thread per Net; the harness is the wire (egress_all/deliver), faults = hold 1..2 rounds or drop, at most retx_max-1 faulted packets per connection".into(),
            "reclamation bound Q = retx_threshold*(retx_max+2)+4 fault-free rounds; connect resolution bound R = retx_threshold*(retx_max+1)+6".into(),
            "client ports cannot be pinned through the public API (no TcpSocket shim); 4-tuple reuse is forced by spinning the shared ephemeral cursor with UDP port-0 binds".into(),
            "table sizes come from the read-only hook turmoil_net::verif::host_counts_by_id (cfg turmoil_verif)".into(),
        ],
        min_distinct: ctx.pick(800, 5_000),
        required_counters: vec![
            "connects_started",
            "connect_ok",
            "connect_cancelled",
            "connect_refused",
            "accepted",
            "paired_connections",
            "reclamation_checks",
            "rebind_probes",
            "reuse_probes",
            "reused_4tuples",
            "listener_drops",
            "crowd_backlog_checks",
            "scenarios_long",
            "connects_lazy",
            "closed_handles_held",
            "reuse_with_closed_handle_held",
        ],
    };

    if let Some(w) = vcore::read_replay(ctx) {
        let kind = w["kind"].as_str().unwrap_or("episodes").to_string();
        let seed = w["seed"].as_u64().unwrap_or(0);
        let rep = vcore::run_single(ctx, move |_| {
            if kind == "crowd" {
                crowd::run_one(&crowd::Crowd::from_json(&w), false)
            } else {
                let sc = Scenario::from_json(&w);
                let o = run_scenario(&sc, seed);
                if std::env::var("VERIF_TRACE").is_ok() {
                    for t in &o.trace {
                        eprintln!("{t}");
                    }
                }
                to_out(&sc, seed, o, "replay", std::env::var("VERIF_REPLAY_MINIMISE").is_ok())
            }
        });
        vcore::finish(ctx, rep, fin);
    }

    let mut report = Report::default();
    report.max_samples = 2;
    let total_budget = ctx.pick(55.0, 360.0);

    // directed
    {
        let list = directed();
        let n = list.len() as u64;
        let c2 = ctx.clone();
        let rep = vcore::run_parallel(ctx, n, RunOpts::default(), move |i| {
            let (cfg, eps) = directed()[i as usize].clone();
            let sc = Scenario { cfg, episodes: eps };
            let seed = c2.scenario_seed("directed", i);
            let o = run_scenario(&sc, seed);
            to_out(&sc, seed, o, "directed", true)
        });
        report.merge(rep);
        if std::env::var("VERIF_PHASE_TIMING").is_ok() {
            eprintln!("phase done at {:.1}s", ctx.elapsed_s());
        }
    }
    // systematic enumeration, grouped 8 episodes per Net
    {
        let fam = std::sync::Arc::new(enum_family());
        let group = 8usize;
        let all = fam.len().div_ceil(group) as u64;
        // quick: default config; thorough: three configs
        let cfgs: Vec<Cfg> = if ctx.quick() {
            vec![Cfg::default_cfg()]
        } else {
            vec![
                Cfg::default_cfg(),
                Cfg { layout: Layout::V6, backlog: 1, thr: 2, max: 3, rcap: 0 },
                Cfg { layout: Layout::V4, backlog: 2, thr: 2, max: 5, rcap: 0 },
            ]
        };
        let n = all * cfgs.len() as u64;
        let c2 = ctx.clone();
        let opts = RunOpts { budget_s: total_budget, ..RunOpts::default() };
        let rep = vcore::run_parallel(ctx, n, opts, move |i| {
            let cfg = cfgs[(i / all) as usize].clone();
            let g = (i % all) as usize;
            let seed = c2.scenario_seed("enum", i);
            let eps: Vec<Episode> = fam[g * group..((g + 1) * group).min(fam.len())].to_vec();
            let sc = Scenario { cfg, episodes: eps };
            let o = run_scenario(&sc, seed);
            to_out(&sc, seed, o, "enum", true)
        });
        report.merge(rep);
        if std::env::var("VERIF_PHASE_TIMING").is_ok() {
            eprintln!("phase done at {:.1}s", ctx.elapsed_s());
        }
    }
    // random
    {
        let n = ctx.pick(2500u64, 3_000_000);
        let c2 = ctx.clone();
        let opts = RunOpts { budget_s: total_budget * 0.55, ..RunOpts::default() };
        let rep = vcore::run_parallel(ctx, n, opts, move |i| {
            let seed = c2.scenario_seed("rand", i);
            let mut rng = Rng::new(seed);
            let cfg = gen_cfg(&mut rng);
            let k = rng.range(6, 14);
            let eps: Vec<Episode> = (0..k).map(|_| gen_episode(&mut rng, &cfg)).collect();
            let sc = Scenario { cfg, episodes: eps };
            let o = run_scenario(&sc, seed);
            to_out(&sc, seed, o, "rand", true)
        });
        report.merge(rep);
        if std::env::var("VERIF_PHASE_TIMING").is_ok() {
            eprintln!("phase done at {:.1}s", ctx.elapsed_s());
        }
    }
    // long: hundreds of sequential connections in one Net, three pinned
    // client ports, so ephemeral ports and 4-tuples recur many times
    {
        let n = ctx.pick(16u64, 2000);
        let c2 = ctx.clone();
        let opts = RunOpts { budget_s: total_budget * 0.2, ..RunOpts::default() };
        let rep = vcore::run_parallel(ctx, n, opts, move |i| {
            let seed = c2.scenario_seed("long", i);
            let mut rng = Rng::new(seed);
            let cfg = gen_cfg(&mut rng);
            let k = rng.range(150, 300);
            let eps: Vec<Episode> = (0..k)
                .map(|_| {
                    let mut e = gen_episode(&mut rng, &cfg);
                    e.steer = Some(rng.below(3) as u8);
                    e.reuse = rng.chance(0.15);
                    e
                })
                .collect();
            let sc = Scenario { cfg, episodes: eps };
            let o = run_scenario(&sc, seed);
            let mut out = to_out(&sc, seed, o, "long", true);
            out.seen.push(("connections_in_one_net".into(), format!("{:03}", (k / 50) * 50)));
            out
        });
        report.merge(rep);
        if std::env::var("VERIF_PHASE_TIMING").is_ok() {
            eprintln!("phase done at {:.1}s", ctx.elapsed_s());
        }
    }
    // crowd (backlog)
    {
        let n = ctx.pick(1500u64, 400_000);
        let c2 = ctx.clone();
        let opts = RunOpts { budget_s: total_budget * 0.15, ..RunOpts::default() };
        let rep = vcore::run_parallel(ctx, n, opts, move |i| {
            let seed = c2.scenario_seed("crowd", i);
            let cr = crowd::Crowd::generate(seed);
            crowd::run_one(&cr, true)
        });
        report.merge(rep);
        if std::env::var("VERIF_PHASE_TIMING").is_ok() {
            eprintln!("phase done at {:.1}s", ctx.elapsed_s());
        }
    }
    // budget exhaustion only trims coverage
    let pairs = report.seen.get("state_pairs").map(|s| s.len()).unwrap_or(0);
    report.extra.insert("state_pairs_hit".into(), json!(pairs));
    if pairs < 25 && ctx.replay.is_none() {
        report.harness_errors.push(format!("only {pairs} distinct (client,server) state pairs were hit, expected >= 25"));
    }
    vcore::finish(ctx, report, fin);
}
