//! C13 script data model: configuration, steps, episodes, JSON round trip,
//! canonical form for signatures.

use crate::engine::Fate;
use serde_json::{json, Value};

#[derive(Clone, Copy, PartialEq, Eq, Debug)]
pub enum Layout {
    V4,
    V6,
    Lo,
}

impl Layout {
    pub fn name(&self) -> &'static str {
        match self {
            Layout::V4 => "V4",
            Layout::V6 => "V6",
            Layout::Lo => "Lo",
        }
    }
    pub fn parse(s: &str) -> Layout {
        match s {
            "V6" => Layout::V6,
            "Lo" => Layout::Lo,
            _ => Layout::V4,
        }
    }
}

#[derive(Clone, PartialEq, Debug)]
pub struct Cfg {
    pub layout: Layout,
    pub backlog: usize,
    pub thr: u32,
    pub max: u32,
    /// receive buffer cap (0 = the stack's default 64 KiB)
    pub rcap: usize,
}

impl Cfg {
    pub fn default_cfg() -> Cfg {
        Cfg {
            layout: Layout::V4,
            backlog: 8,
            thr: 3,
            max: 5,
            rcap: 0,
        }
    }
    pub fn canon(&self) -> String {
        format!("{},b{},t{},m{}{}", self.layout.name(), self.backlog, self.thr, self.max, if self.rcap > 0 { format!(",r{}", self.rcap) } else { String::new() })
    }
    pub fn to_json(&self) -> Value {
        json!({"layout": self.layout.name(), "backlog": self.backlog, "thr": self.thr, "max": self.max, "rcap": self.rcap})
    }
    pub fn from_json(v: &Value) -> Cfg {
        Cfg {
            layout: Layout::parse(v["layout"].as_str().unwrap_or("V4")),
            backlog: v["backlog"].as_u64().unwrap_or(8) as usize,
            thr: v["thr"].as_u64().unwrap_or(3) as u32,
            max: v["max"].as_u64().unwrap_or(5) as u32,
            rcap: v["rcap"].as_u64().unwrap_or(0) as usize,
        }
    }
    /// rounds after which everything both sides dropped must be reclaimed
    pub fn q(&self) -> u32 {
        self.thr * (self.max + 2) + 4
    }
    /// rounds within which a pending connect must have resolved (any outcome)
    pub fn r(&self) -> u32 {
        self.thr * (self.max + 1) + 6
    }
}

#[derive(Clone, PartialEq, Debug)]
pub enum Step {
    Listen,
    DropListener,
    Connect,
    Cancel,
    Accept,
    CWrite(u32),
    SWrite(u32),
    CRead,
    SRead,
    CShut,
    SShut,
    CDrop,
    SDrop,
    /// (fate of client->server packets, fate of server->client packets)
    Round(Fate, Fate),
    /// let a lazily polled connect future run again
    Poll,
}

impl Step {
    pub fn code(&self) -> String {
        match self {
            Step::Listen => "L".into(),
            Step::DropListener => "DL".into(),
            Step::Connect => "C".into(),
            Step::Cancel => "X".into(),
            Step::Accept => "A".into(),
            Step::CWrite(n) => format!("cw{n}"),
            Step::SWrite(n) => format!("sw{n}"),
            Step::CRead => "cr".into(),
            Step::SRead => "sr".into(),
            Step::CShut => "cs".into(),
            Step::SShut => "ss".into(),
            Step::CDrop => "cd".into(),
            Step::SDrop => "sd".into(),
            Step::Poll => "P".into(),
            Step::Round(a, b) => format!("R{}{}", a.code(), b.code()),
        }
    }
    pub fn parse(s: &str) -> Option<Step> {
        Some(match s {
            "L" => Step::Listen,
            "DL" => Step::DropListener,
            "C" => Step::Connect,
            "X" => Step::Cancel,
            "A" => Step::Accept,
            "cr" => Step::CRead,
            "sr" => Step::SRead,
            "cs" => Step::CShut,
            "ss" => Step::SShut,
            "cd" => Step::CDrop,
            "sd" => Step::SDrop,
            "P" => Step::Poll,
            _ if s.starts_with("cw") => Step::CWrite(s[2..].parse().ok()?),
            _ if s.starts_with("sw") => Step::SWrite(s[2..].parse().ok()?),
            _ if s.starts_with('R') && s.len() == 3 => {
                let mut c = s[1..].chars();
                Step::Round(Fate::from_code(c.next()?)?, Fate::from_code(c.next()?)?)
            }
            _ => return None,
        })
    }
}

#[derive(Clone, PartialEq, Debug)]
pub struct Episode {
    /// listener port = 7000 + port
    pub port: u8,
    /// listener on the wildcard address
    pub wild: bool,
    /// connect to the server's second address (only meaningful with `wild`)
    pub alt_dst: bool,
    /// steer the ephemeral cursor so the client gets pinned port k
    pub steer: Option<u8>,
    /// keep the listener alive through close-out (else drop it)
    pub keep: bool,
    /// close-out drops the server side before the client side
    pub server_first: bool,
    /// after reclamation reconnect on the same 4-tuple and transfer data
    pub reuse: bool,
    /// the connect future is polled once and then only at `P` steps (an
    /// application busy elsewhere)
    pub lazy: bool,
    /// close-out shuts the server's stream down but keeps the handle through
    /// reclamation and the 4-tuple reuse probe
    pub hold: bool,
    pub steps: Vec<Step>,
}

impl Episode {
    pub fn plain(steps: Vec<Step>) -> Episode {
        Episode {
            port: 0,
            wild: false,
            alt_dst: false,
            steer: None,
            keep: true,
            server_first: false,
            reuse: false,
            lazy: false,
            hold: false,
            steps,
        }
    }
    pub fn canon(&self) -> String {
        let mut flags = String::new();
        if self.port != 0 {
            flags.push_str(&format!("p{}", self.port));
        }
        if self.wild {
            flags.push('w');
        }
        if self.alt_dst {
            flags.push('a');
        }
        if let Some(k) = self.steer {
            flags.push_str(&format!("s{k}"));
        }
        flags.push(if self.keep { 'k' } else { 'd' });
        if self.server_first {
            flags.push('f');
        }
        if self.reuse {
            flags.push('r');
        }
        if self.lazy {
            flags.push('z');
        }
        if self.hold {
            flags.push('h');
        }
        let steps: Vec<String> = self.steps.iter().map(|s| s.code()).collect();
        format!("[{}:{}]", flags, steps.join(","))
    }
    pub fn to_json(&self) -> Value {
        json!({
            "port": self.port, "wild": self.wild, "alt_dst": self.alt_dst,
            "steer": self.steer, "keep": self.keep, "server_first": self.server_first,
            "reuse": self.reuse, "lazy": self.lazy, "hold": self.hold,
            "steps": self.steps.iter().map(|s| s.code()).collect::<Vec<_>>(),
        })
    }
    pub fn from_json(v: &Value) -> Episode {
        Episode {
            port: v["port"].as_u64().unwrap_or(0) as u8,
            wild: v["wild"].as_bool().unwrap_or(false),
            alt_dst: v["alt_dst"].as_bool().unwrap_or(false),
            steer: v["steer"].as_u64().map(|k| k as u8),
            keep: v["keep"].as_bool().unwrap_or(true),
            server_first: v["server_first"].as_bool().unwrap_or(false),
            reuse: v["reuse"].as_bool().unwrap_or(false),
            lazy: v["lazy"].as_bool().unwrap_or(false),
            hold: v["hold"].as_bool().unwrap_or(false),
            steps: v["steps"]
                .as_array()
                .map(|a| {
                    a.iter()
                        .filter_map(|s| s.as_str().and_then(Step::parse))
                        .collect()
                })
                .unwrap_or_default(),
        }
    }
}

#[derive(Clone, PartialEq, Debug)]
pub struct Scenario {
    pub cfg: Cfg,
    pub episodes: Vec<Episode>,
}

impl Scenario {
    pub fn to_json(&self) -> Value {
        json!({
            "kind": "episodes",
            "cfg": self.cfg.to_json(),
            "episodes": self.episodes.iter().map(|e| e.to_json()).collect::<Vec<_>>(),
        })
    }
    pub fn from_json(v: &Value) -> Scenario {
        Scenario {
            cfg: Cfg::from_json(&v["cfg"]),
            episodes: v["episodes"]
                .as_array()
                .map(|a| a.iter().map(Episode::from_json).collect())
                .unwrap_or_default(),
        }
    }
    pub fn canon(&self) -> String {
        let eps: Vec<String> = self.episodes.iter().map(|e| e.canon()).collect();
        format!("{}|{}", self.cfg.canon(), eps.join(""))
    }
}
