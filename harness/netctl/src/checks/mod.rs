pub mod c13;
pub mod c17;
pub mod c19;
