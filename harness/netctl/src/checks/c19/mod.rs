//! C19 — rule chains decide each packet by first match, guards end a rule at
//! once, loopback is never shown to rules; under the built-in fixtures
//! delays are honoured within one tick and in deadline order.
//!
//! Sub-spaces: `wire` (own driver: permanent / scheduler-side / task-side /
//! forgotten guards, evaluate bracketed by the harness), `cs`
//! (`fixture::ClientServer`, 2-3 hosts), `lo` (`fixture::lo`).

mod common;
mod fixt;
mod wire;

use serde_json::json;
use vcore::{Ctx, Finish, Report, RunOpts, ScenarioOut};

use common::{fmt_ev, Analysis, Ev};

fn finish_out(space: &str, canon: String, descriptor: serde_json::Value, log: &[Ev], an: Analysis, sig_canon: Option<String>) -> ScenarioOut {
    let mut out = ScenarioOut::default();
    let mut h = vcore::Fnv::new();
    for e in log {
        if let Ev::Invoke { rid, tag, verdict, .. } = e {
            h.write_str(&format!("{rid}{}{verdict:?}", tag.udp));
        }
    }
    h.write_str(&canon);
    out.digest = h.finish();
    let g = |k: &str| an.counters.get(k).copied().unwrap_or(0);
    out.nontrivial = match space {
        "lo" => g("loopback_packets_tapped") > 0 && g("rule_installs") > 0,
        _ => an.max_chain >= 2 && g("evaluations_checked") >= 3 && g("evaluations_passing_through_several_rules") >= 1,
    };
    for (k, v) in &an.counters {
        out.count(k, *v);
    }
    out.count(&format!("scenarios_{space}"), 1);
    out.seen.push(("max_chain_length".into(), an.max_chain.to_string()));
    let excerpt: Vec<String> = log.iter().take(60).map(fmt_ev).collect();
    out.sample = Some(json!({"space": space, "descriptor": descriptor, "log_excerpt": excerpt, "log_len": log.len()}));
    if let Some((class, detail)) = an.complaint {
        let c = sig_canon.unwrap_or(canon);
        let mut w = descriptor.clone();
        w["complaint"] = json!(class);
        w["log_tail"] = json!(log.iter().rev().take(40).rev().map(fmt_ev).collect::<Vec<_>>());
        out.violate(&class, format!("C19|{class}|{c}"), format!("{class}: {detail} [{c}]"), w);
    }
    out
}

fn run_wire(s: &wire::WireScn, minimise: bool) -> ScenarioOut {
    let r = wire::execute(s);
    let mut min = s.clone();
    if let (Some((class, _)), true) = (&r.analysis.complaint, minimise) {
        let class = class.clone();
        let fails = |x: &wire::WireScn| wire::execute(x).analysis.complaint.map(|c| c.0 == class).unwrap_or(false);
        let base = s.clone();
        min.steps = vcore::ddmin::ddmin(
            s.steps.clone(),
            |sub| {
                let mut x = base.clone();
                x.steps = sub.to_vec();
                fails(&x)
            },
            150,
        );
        let b2 = min.clone();
        if !min.perm.is_empty() {
            let perm = vcore::ddmin::ddmin(
                min.perm.clone(),
                |sub| {
                    let mut x = b2.clone();
                    x.perm = sub.to_vec();
                    fails(&x)
                },
                10,
            );
            let mut x = min.clone();
            x.perm = perm;
            if fails(&x) {
                min = x;
            }
            let mut x = min.clone();
            x.perm.clear();
            if fails(&x) {
                min = x;
            }
        }
        while min.stale > 0 {
            let mut x = min.clone();
            x.stale -= 1;
            if fails(&x) {
                min = x;
            } else {
                break;
            }
        }
        if min.hosts == 3 {
            let mut x = min.clone();
            x.hosts = 2;
            if fails(&x) {
                min = x;
            }
        }
        let r2 = wire::execute(&min);
        if r2.analysis.complaint.is_some() {
            return finish_out("wire", s.canon(), min.to_json(), &r2.log, r2.analysis, Some(min.canon()));
        }
    }
    finish_out("wire", s.canon(), s.to_json(), &r.log, r.analysis, None)
}

fn run_fix(s: &fixt::FixScn, minimise: bool) -> ScenarioOut {
    let space = if s.lo { "lo" } else { "cs" };
    let r = fixt::execute(s);
    if let (Some((class, _)), true) = (&r.analysis.complaint, minimise) {
        let class = class.clone();
        let fails = |x: &fixt::FixScn| fixt::execute(x).analysis.complaint.map(|c| c.0 == class).unwrap_or(false);
        let mut min = s.clone();
        for h in (0..min.scripts.len()).rev() {
            let base = min.clone();
            let sc = vcore::ddmin::ddmin(
                min.scripts[h].clone(),
                |sub| {
                    let mut x = base.clone();
                    x.scripts[h] = sub.to_vec();
                    fails(&x)
                },
                80,
            );
            let mut x = min.clone();
            x.scripts[h] = sc;
            if fails(&x) {
                min = x;
            }
            let mut x = min.clone();
            x.scripts[h].clear();
            if fails(&x) {
                min = x;
            }
        }
        let r2 = fixt::execute(&min);
        if r2.analysis.complaint.is_some() {
            return finish_out(space, s.canon(), min.to_json(), &r2.log, r2.analysis, Some(min.canon()));
        }
    }
    finish_out(space, s.canon(), s.to_json(), &r.log, r.analysis, None)
}

pub fn run(ctx: &Ctx) -> ! {
    let fin = Finish {
        level: "exploration",
        rule: "wire/cs scenario counts when the installed chain reached length >= 2, at least 3 packet evaluations were checked and at least one packet passed through several rules; lo scenario counts when rules were installed and loopback packets were seen by the tap; digest = sequence of (rule, protocol, verdict) invocations + script",
        assumptions: vec![
            "every rule is a closure with a pure seeded verdict function of (rule, packet) that appends (rule id, packet tag, verdict, tokio Instant) to one log shared with install/uninstall/send/receive events".into(),
            "own-driver mode brackets every EnterGuard::evaluate call; in fixture mode evaluations are reconstructed from runs of invocations of the same packet at the same instant".into(),
            "fixture TICK = 1 ms; task code only sleeps whole milliseconds; TCP packets are never dropped by fixture-mode rules (loss is C06's subject), TCP echo success is counted, not required".into(),
            "loopback packets are observed through the read-only tap turmoil_net::verif::set_loopback_tap".into(),
        ],
        min_distinct: ctx.pick(5000, 100_000),
        required_counters: vec![
            "rule_invocations",
            "evaluations_checked",
            "evaluations_short_circuited",
            "evaluations_passing_through_several_rules",
            "evaluations_udp",
            "evaluations_tcp",
            "fate_pass",
            "fate_drop",
            "fate_deliver0",
            "fate_deliver_delayed",
            "guard_drops",
            "guard_drops_scheduler",
            "guard_drops_task",
            "guard_drops_not_last_in_chain",
            "guards_forgotten",
            "loopback_packets_tapped",
            "loopback_datagrams_received",
            "delay_window_evaluations",
            "delay_0us",
            "delay_300us",
            "delay_1000us",
            "delay_2500us",
            "delay_7000us",
            "drop_verdicts_checked",
            "equal_deadline_pairs",
            "crossing_deadline_pairs",
            "stale_guard_drops",
            "delay_forever_checked",
            "scenarios_wire",
            "scenarios_cs",
            "scenarios_lo",
        ],
    };
    if let Some(w) = vcore::read_replay(ctx) {
        let rep = vcore::run_single(ctx, move |_| match w["kind"].as_str() {
            Some("wire") => run_wire(&wire::WireScn::from_json(&w), false),
            _ => run_fix(&fixt::FixScn::from_json(&w), false),
        });
        vcore::finish(ctx, rep, fin);
    }
    let mut report = Report::default();
    report.max_samples = 1;
    let budget = ctx.pick(45.0, 300.0);
    {
        let n = ctx.pick(20_000u64, 5_000_000);
        let c2 = ctx.clone();
        let opts = RunOpts { budget_s: budget * 0.4, ..RunOpts::default() };
        report.merge(vcore::run_parallel(ctx, n, opts, move |i| run_wire(&wire::WireScn::generate(c2.scenario_seed("wire", i)), true)));
    }
    {
        let n = ctx.pick(20_000u64, 5_000_000);
        let c2 = ctx.clone();
        let opts = RunOpts { budget_s: budget * 0.5, ..RunOpts::default() };
        report.merge(vcore::run_parallel(ctx, n, opts, move |i| run_fix(&fixt::FixScn::generate(c2.scenario_seed("cs", i), false), true)));
    }
    {
        let n = ctx.pick(3000u64, 500_000);
        let c2 = ctx.clone();
        let opts = RunOpts { budget_s: budget * 0.1, ..RunOpts::default() };
        report.merge(vcore::run_parallel(ctx, n, opts, move |i| run_fix(&fixt::FixScn::generate(c2.scenario_seed("lo", i), true), true)));
    }
    vcore::finish(ctx, report, fin);
}
