//! C19 under the built-in fixtures (`fixture::ClientServer`, `fixture::lo`):
//! chain semantics from the per-rule logs plus the delivery-time oracles.

use std::cell::{Cell, RefCell};
use std::collections::{BTreeMap, BTreeSet};
use std::net::SocketAddr;
use std::rc::Rc;
use std::time::Duration;

use serde_json::{json, Value};
use tokio::io::{AsyncReadExt, AsyncWriteExt};
use tokio::time::Instant;
use turmoil_net::fixture::{self, ClientServer};
use turmoil_net::shim::tokio::net::{TcpListener, TcpStream, UdpSocket};
use turmoil_net::{RuleGuard, Verdict};
use vcore::Rng;

use super::common::*;

#[derive(Clone, Debug, PartialEq)]
pub enum Act {
    Sleep(u8),
    /// burst of n datagrams to host `to` (index into hosts; == own index: own address)
    Send { to: u8, n: u8 },
    SendLoop,
    Install { slot: u8, spec: RuleSpec },
    DropGuard { slot: u8 },
    Forget { slot: u8 },
    TcpEcho { n: u16 },
}

impl Act {
    fn to_json(&self) -> Value {
        match self {
            Act::Sleep(k) => json!({"a":"sleep","ms":k}),
            Act::Send { to, n } => json!({"a":"send","to":to,"n":n}),
            Act::SendLoop => json!({"a":"sendloop"}),
            Act::Install { slot, spec } => json!({"a":"install","slot":slot,"spec":spec.to_json()}),
            Act::DropGuard { slot } => json!({"a":"drop","slot":slot}),
            Act::Forget { slot } => json!({"a":"forget","slot":slot}),
            Act::TcpEcho { n } => json!({"a":"tcpecho","n":n}),
        }
    }
    fn from_json(v: &Value) -> Option<Act> {
        let u = |k: &str| v[k].as_u64().map(|x| x as u8);
        Some(match v["a"].as_str()? {
            "sleep" => Act::Sleep(u("ms")?),
            "send" => Act::Send { to: u("to")?, n: u("n")? },
            "sendloop" => Act::SendLoop,
            "install" => Act::Install { slot: u("slot")?, spec: RuleSpec::from_json(&v["spec"]) },
            "drop" => Act::DropGuard { slot: u("slot")? },
            "forget" => Act::Forget { slot: u("slot")? },
            "tcpecho" => Act::TcpEcho { n: v["n"].as_u64()? as u16 },
            _ => return None,
        })
    }
    fn canon(&self) -> String {
        match self {
            Act::Sleep(k) => format!("z{k}"),
            Act::Send { to, n } => format!("u>{to}x{n}"),
            Act::SendLoop => "lo".into(),
            Act::Install { slot, spec } => format!("i{slot}:{}", spec.canon()),
            Act::DropGuard { slot } => format!("dg{slot}"),
            Act::Forget { slot } => format!("fg{slot}"),
            Act::TcpEcho { .. } => "te".into(),
        }
    }
}

/// hosts 0..servers-1 are servers, host `servers` is the client. With
/// `lo` there is a single host (index 0) under `fixture::lo`.
#[derive(Clone, Debug, PartialEq)]
pub struct FixScn {
    pub lo: bool,
    pub servers: usize,
    pub scripts: Vec<Vec<Act>>,
}

impl FixScn {
    pub fn to_json(&self) -> Value {
        json!({"kind": if self.lo {"lo"} else {"cs"}, "servers": self.servers,
               "scripts": self.scripts.iter().map(|s| s.iter().map(|a| a.to_json()).collect::<Vec<_>>()).collect::<Vec<_>>()})
    }
    pub fn from_json(v: &Value) -> FixScn {
        FixScn {
            lo: v["kind"].as_str() == Some("lo"),
            servers: v["servers"].as_u64().unwrap_or(1) as usize,
            scripts: v["scripts"]
                .as_array()
                .map(|a| a.iter().map(|s| s.as_array().map(|x| x.iter().filter_map(Act::from_json).collect()).unwrap_or_default()).collect())
                .unwrap_or_default(),
        }
    }
    pub fn canon(&self) -> String {
        let s: Vec<String> = self.scripts.iter().map(|sc| sc.iter().map(|a| a.canon()).collect::<Vec<_>>().join(",")).collect();
        format!("{}:s{}|{}", if self.lo { "lo" } else { "cs" }, self.servers, s.join(" / "))
    }
    pub fn generate(seed: u64, lo: bool) -> FixScn {
        let mut rng = Rng::new(seed);
        let servers = if lo { 0 } else { rng.range(1, 2) as usize };
        let nh = servers + 1;
        let mut scripts = vec![];
        for h in 0..nh {
            let client = h == nh - 1;
            let n = if client { rng.range(8, 30) } else { rng.range(0, 12) };
            let mut sc = vec![];
            for _ in 0..n {
                let w = rng.below(100);
                sc.push(match w {
                    0..=17 => Act::Install { slot: rng.below(5) as u8, spec: RuleSpec::generate(&mut rng) },
                    18..=27 => Act::DropGuard { slot: rng.below(5) as u8 },
                    28..=30 => Act::Forget { slot: rng.below(5) as u8 },
                    31..=64 => Act::Send { to: rng.below(nh as u64) as u8, n: rng.range(1, 5) as u8 },
                    65..=71 => Act::SendLoop,
                    72..=76 if client && !lo => Act::TcpEcho { n: *rng.pick(&[10u16, 500, 4000]) },
                    72..=76 => Act::SendLoop,
                    _ => Act::Sleep(rng.range(1, 4) as u8),
                });
            }
            scripts.push(sc);
        }
        FixScn { lo, servers, scripts }
    }
}

struct Shared {
    log: Log,
    t0: Instant,
    next_rid: Cell<u32>,
    next_tag: Cell<u64>,
    specs: RefCell<BTreeMap<u32, RuleSpec>>,
    local_tags: RefCell<BTreeSet<u64>>,
    counters: RefCell<BTreeMap<String, u64>>,
}

fn host_name(i: usize) -> String {
    format!("h{i}")
}

/// The future every host runs: a UDP receiver loop, (host 0) a TCP echo
/// server, and the scripted actions. Ends when the script is done and
/// `linger` has elapsed (client) or never (servers).
async fn actor(sh: Rc<Shared>, me: usize, nh: usize, lo: bool, script: Vec<Act>, is_client: bool) {
    let sock = UdpSocket::bind("0.0.0.0:9000").await.expect("udp bind");
    let clock = {
        let t0 = sh.t0;
        Rc::new(move || Instant::now().duration_since(t0)) as Rc<dyn Fn() -> Duration>
    };
    let recv_loop = async {
        let mut buf = [0u8; 64];
        loop {
            match sock.recv_from(&mut buf).await {
                Ok((8, from)) => {
                    let tag = u64::from_be_bytes(buf[..8].try_into().unwrap());
                    sh.log.borrow_mut().push(Ev::Recv { host: me, tag, from, at: clock() });
                }
                Ok(_) => {}
                Err(_) => break,
            }
        }
    };
    let echo = async {
        if me != 0 || lo {
            std::future::pending::<()>().await;
        }
        let l = TcpListener::bind("0.0.0.0:9100").await.expect("listen");
        loop {
            let Ok((mut s, _)) = l.accept().await else { break };
            // serve one connection at a time, bounded
            let mut buf = vec![0u8; 8192];
            let _ = tokio::time::timeout(Duration::from_millis(400), async {
                loop {
                    match s.read(&mut buf).await {
                        Ok(0) | Err(_) => break,
                        Ok(k) => {
                            if s.write_all(&buf[..k]).await.is_err() {
                                break;
                            }
                        }
                    }
                }
            })
            .await;
        }
    };
    let script_fut = async {
        let mut guards: BTreeMap<u8, (u32, RuleGuard)> = BTreeMap::new();
        let addr_of = |h: usize| -> SocketAddr {
            if lo {
                "127.0.0.1:9000".parse().unwrap()
            } else {
                SocketAddr::new(turmoil_net::lookup_host(&host_name(h)).expect("host registered"), 9000)
            }
        };
        for a in script {
            match a {
                Act::Sleep(k) => tokio::time::sleep(Duration::from_millis(k as u64)).await,
                Act::Send { to, n } => {
                    let t = (to as usize) % nh;
                    for _ in 0..n {
                        let tag = MAGIC | sh.next_tag.get();
                        sh.next_tag.set(sh.next_tag.get() + 1);
                        let dst = addr_of(t);
                        let local = t == me || lo;
                        if local {
                            sh.local_tags.borrow_mut().insert(tag);
                        }
                        let _ = sock.send_to(&tag.to_be_bytes(), dst).await;
                        sh.log.borrow_mut().push(Ev::Sent { host: me, tag, to: dst, at: clock(), local });
                    }
                }
                Act::SendLoop => {
                    let tag = MAGIC | sh.next_tag.get();
                    sh.next_tag.set(sh.next_tag.get() + 1);
                    let dst: SocketAddr = "127.0.0.1:9000".parse().unwrap();
                    sh.local_tags.borrow_mut().insert(tag);
                    let _ = sock.send_to(&tag.to_be_bytes(), dst).await;
                    sh.log.borrow_mut().push(Ev::Sent { host: me, tag, to: dst, at: clock(), local: true });
                }
                Act::Install { slot, spec } => {
                    if let Some((rid, g)) = guards.remove(&slot) {
                        drop(g);
                        sh.log.borrow_mut().push(Ev::Uninstall { rid, how: "task" });
                    }
                    let rid = sh.next_rid.get();
                    sh.next_rid.set(rid + 1);
                    sh.specs.borrow_mut().insert(rid, spec.clone());
                    let g = turmoil_net::rule(make_rule(&sh.log, rid, spec, true, clock.clone()));
                    sh.log.borrow_mut().push(Ev::Install { rid, how: "task" });
                    guards.insert(slot, (rid, g));
                }
                Act::DropGuard { slot } => {
                    if let Some((rid, g)) = guards.remove(&slot) {
                        drop(g);
                        sh.log.borrow_mut().push(Ev::Uninstall { rid, how: "task" });
                    }
                }
                Act::Forget { slot } => {
                    if let Some((rid, g)) = guards.remove(&slot) {
                        g.forget();
                        sh.log.borrow_mut().push(Ev::Forget { rid });
                    }
                }
                Act::TcpEcho { n } => {
                    let dst = SocketAddr::new(addr_of(0).ip(), 9100);
                    let data = vcore::rng::keyed_bytes(n as u64, 0, n as usize);
                    let r = tokio::time::timeout(Duration::from_millis(300), async {
                        let mut s = TcpStream::connect(dst).await?;
                        s.write_all(&data).await?;
                        let mut back = vec![0u8; data.len()];
                        s.read_exact(&mut back).await?;
                        Ok::<bool, std::io::Error>(back == data)
                    })
                    .await;
                    let k = match r {
                        Ok(Ok(true)) => "tcp_echo_ok",
                        Ok(Ok(false)) => "tcp_echo_corrupt",
                        Ok(Err(_)) => "tcp_echo_error",
                        Err(_) => "tcp_echo_timeout",
                    };
                    *sh.counters.borrow_mut().entry(k.to_string()).or_default() += 1;
                }
            }
        }
        // remaining guards stay installed while late packets arrive
        if is_client {
            tokio::time::sleep(Duration::from_millis(25)).await;
        } else {
            std::future::pending::<()>().await;
        }
        for (_, (rid, g)) in guards {
            drop(g);
            sh.log.borrow_mut().push(Ev::Uninstall { rid, how: "task" });
        }
    };
    tokio::select! {
        _ = recv_loop => {}
        _ = echo => {}
        _ = script_fut => {}
    }
}

pub struct FixRun {
    pub log: Vec<Ev>,
    pub analysis: Analysis,
}

pub fn execute(s: &FixScn) -> FixRun {
    let log: Log = Rc::new(RefCell::new(vec![]));
    let tapped: Rc<RefCell<Vec<Tag>>> = Rc::new(RefCell::new(vec![]));
    let t2 = tapped.clone();
    turmoil_net::verif::set_loopback_tap(Some(Box::new(move |_, p| t2.borrow_mut().push(tag_of(p)))));
    let shared: Rc<RefCell<Option<Rc<Shared>>>> = Rc::new(RefCell::new(None));
    let mut an = Analysis::default();
    let nh = if s.lo { 1 } else { s.servers + 1 };
    let mk_shared = {
        let (log, shared) = (log.clone(), shared.clone());
        move || -> Rc<Shared> {
            let mut b = shared.borrow_mut();
            if b.is_none() {
                *b = Some(Rc::new(Shared {
                    log: log.clone(),
                    t0: Instant::now(),
                    next_rid: Cell::new(1),
                    next_tag: Cell::new(1),
                    specs: RefCell::new(BTreeMap::new()),
                    local_tags: RefCell::new(BTreeSet::new()),
                    counters: RefCell::new(BTreeMap::new()),
                }));
            }
            b.as_ref().unwrap().clone()
        }
    };
    let r = crate::engine::guarded_fixture(|| {
        if s.lo {
            let script = s.scripts.first().cloned().unwrap_or_default();
            let mk = mk_shared.clone();
            fixture::lo(async move {
                let sh = mk();
                actor(sh, 0, 1, true, script, true).await;
            });
        } else {
            let mut cs = ClientServer::new();
            for h in 0..s.servers {
                let script = s.scripts.get(h).cloned().unwrap_or_default();
                let mk = mk_shared.clone();
                cs = cs.server(host_name(h), async move {
                    let sh = mk();
                    actor(sh, h, nh, false, script, false).await;
                });
            }
            let script = s.scripts.get(s.servers).cloned().unwrap_or_default();
            let mk = mk_shared.clone();
            let ci = s.servers;
            cs.run(host_name(ci), async move {
                let sh = mk();
                actor(sh, ci, nh, false, script, true).await;
            });
        }
    });
    turmoil_net::verif::set_loopback_tap(None);
    let logv = log.borrow().clone();
    if let Err(msg) = r {
        let what = msg.split(" @ ").next().unwrap_or("?").to_string();
        an.complaint = Some((format!("fixture-panic:{what}"), format!("panic while the fixture was running: {msg}")));
        return FixRun { log: logv, analysis: an };
    }
    let Some(sh) = shared.borrow().clone() else {
        return FixRun { log: logv, analysis: an };
    };
    for (k, v) in sh.counters.borrow().iter() {
        an.counters.insert(k.clone(), *v);
    }
    let specs = sh.specs.borrow().clone();
    let evals = check_chain(&logv, &specs, true, false, &mut an);
    if an.complaint.is_none() {
        timing(&logv, &evals, &sh.local_tags.borrow(), &tapped.borrow(), &mut an);
    }
    FixRun { log: logv, analysis: an }
}

/// Delivery-time, ordering, drop and loopback oracles over the log.
fn timing(log: &[Ev], evals: &[Evaluation], local_tags: &BTreeSet<u64>, tapped: &[Tag], an: &mut Analysis) {
    let count = |an: &mut Analysis, k: &str, n: u64| *an.counters.entry(k.to_string()).or_default() += n;
    // loopback
    let tapped_udp: BTreeSet<u64> = tapped.iter().filter(|t| t.udp).map(|t| t.id).collect();
    let tapped_all: BTreeSet<&Tag> = tapped.iter().collect();
    count(an, "loopback_packets_tapped", tapped.len() as u64);
    count(an, "loopback_datagrams_sent", local_tags.len() as u64);
    for e in evals {
        if (e.tag.udp && (local_tags.contains(&e.tag.id) || tapped_udp.contains(&e.tag.id))) || tapped_all.contains(&e.tag) {
            an.complaint = Some(("loopback-shown-to-rules".into(), format!("rules {:?} were shown the loopback packet {}", e.rids, e.tag.desc)));
            return;
        }
    }
    // index
    let mut sent: BTreeMap<u64, (usize, usize, Duration, bool, SocketAddr)> = BTreeMap::new(); // tag -> (pos, host, at, local, to)
    let mut recvs: BTreeMap<u64, Vec<(usize, usize, Duration)>> = BTreeMap::new(); // tag -> (pos, host, at)
    let mut end = Duration::ZERO;
    for (i, ev) in log.iter().enumerate() {
        match ev {
            Ev::Sent { host, tag, to, at, local } => {
                sent.insert(*tag, (i, *host, *at, *local, *to));
                end = end.max(*at);
            }
            Ev::Recv { host, tag, at, .. } => {
                recvs.entry(*tag).or_default().push((i, *host, *at));
                end = end.max(*at);
            }
            Ev::Invoke { at, .. } => end = end.max(*at),
            _ => {}
        }
    }
    let mut eval_of: BTreeMap<u64, &Evaluation> = BTreeMap::new();
    for e in evals {
        if e.tag.udp {
            if eval_of.insert(e.tag.id, e).is_some() {
                an.complaint = Some(("packet-evaluated-twice".into(), format!("datagram {} was shown to the rule chain twice", e.tag.desc)));
                return;
            }
        }
    }
    // chain version per log position (for the "must have been evaluated" check)
    let mut chain_len = 0usize;
    let mut chain_len_at = Vec::with_capacity(log.len());
    let mut change_pos: Vec<usize> = vec![];
    for (i, ev) in log.iter().enumerate() {
        match ev {
            Ev::Install { .. } => {
                chain_len += 1;
                change_pos.push(i);
            }
            Ev::Uninstall { .. } => {
                chain_len = chain_len.saturating_sub(1);
                change_pos.push(i);
            }
            _ => {}
        }
        chain_len_at.push(chain_len);
    }
    let at_of = |ev: &Ev| -> Option<Duration> {
        match ev {
            Ev::Sent { at, .. } | Ev::Recv { at, .. } | Ev::Invoke { at, .. } => Some(*at),
            _ => None,
        }
    };
    struct D {
        tag: u64,
        dst_host: usize,
        deadline: Duration,
        eval_pos: usize,
        recv_pos: usize,
    }
    let mut delivered: Vec<D> = vec![];
    for (tag, (pos, host, t_sent, local, to)) in &sent {
        let rx = recvs.get(tag).cloned().unwrap_or_default();
        if rx.len() > 1 {
            an.complaint = Some(("datagram-duplicated".into(), format!("datagram #{:x} was received {} times", tag & 0xffff_ffff, rx.len())));
            return;
        }
        if *local {
            // loopback: never evaluated (checked above), delivered, seen by tap
            if !tapped_udp.contains(tag) {
                an.complaint = Some(("loopback-not-tapped".into(), format!("local datagram #{:x} was never seen folding back inside its kernel", tag & 0xffff_ffff)));
                return;
            }
            if rx.len() == 1 && rx[0].1 == *host {
                count(an, "loopback_datagrams_received", 1);
            } else if *t_sent + Duration::from_millis(4) < end {
                an.complaint = Some(("loopback-not-delivered".into(), format!("local datagram #{:x} sent by h{host} to {to} was not received by its own socket", tag & 0xffff_ffff)));
                return;
            }
            continue;
        }
        match eval_of.get(tag) {
            None => {
                // no rule saw it: only legal when the chain was empty
                let mut stable = chain_len_at[*pos] > 0;
                let mut far = false;
                for (j, ev) in log.iter().enumerate().skip(*pos + 1) {
                    if change_pos.binary_search(&j).is_ok() {
                        stable = false;
                        break;
                    }
                    if let Some(a) = at_of(ev) {
                        if a >= *t_sent + 2 * TICK {
                            far = true;
                            break;
                        }
                    }
                }
                if stable && far {
                    an.complaint = Some(("rule-skipped".into(), format!("datagram #{:x} (h{host} -> {to}) left its host while {} rules were installed but no rule was invoked", tag & 0xffff_ffff, chain_len_at[*pos])));
                    return;
                }
                if rx.len() == 1 {
                    count(an, "unruled_datagrams_received", 1);
                    let dt = rx[0].2.saturating_sub(*t_sent);
                    if chain_len_at[*pos] == 0 && dt > 2 * TICK && change_pos.iter().all(|c| *c < *pos) {
                        an.complaint = Some(("undelayed-packet-late".into(), format!("datagram #{:x} with no rule installed took {dt:?}", tag & 0xffff_ffff)));
                        return;
                    }
                } else if chain_len_at[*pos] == 0 && change_pos.iter().all(|c| *c < *pos) && *t_sent + Duration::from_millis(4) < end {
                    an.complaint = Some(("undropped-packet-lost".into(), format!("datagram #{:x} (h{host} -> {to}) with no rule installed was never received", tag & 0xffff_ffff)));
                    return;
                }
            }
            Some(e) => {
                let fate = *e.verdicts.last().unwrap();
                let t_eval = e.at.unwrap();
                match fate {
                    Verdict::Drop => {
                        count(an, "drop_verdicts_checked", 1);
                        if !rx.is_empty() {
                            an.complaint = Some(("dropped-packet-delivered".into(), format!("datagram {} got verdict Drop from r{} but was received at {:?}", e.tag.desc, e.rids.last().unwrap(), rx[0].2)));
                            return;
                        }
                    }
                    v => {
                        let d = match v {
                            Verdict::Deliver(d) => d,
                            _ => Duration::ZERO,
                        };
                        let Some(deadline) = t_eval.checked_add(d) else {
                            // no representable deadline: held for ever
                            count(an, "delay_forever_checked", 1);
                            if !rx.is_empty() {
                                an.complaint = Some(("delivered-before-deadline".into(), format!("datagram {} got {v:?} (held for ever) but was received at {:?}", e.tag.desc, rx[0].2)));
                                return;
                            }
                            continue;
                        };
                        if rx.is_empty() {
                            if deadline + 3 * TICK < end {
                                an.complaint = Some(("delivery-missing".into(), format!("datagram {} got {v:?} at {t_eval:?} but was never received (log ends {end:?})", e.tag.desc)));
                                return;
                            }
                            count(an, "undetermined_run_ended_before_deadline", 1);
                            continue;
                        }
                        let t_recv = rx[0].2;
                        count(an, "delay_window_evaluations", 1);
                        count(an, &format!("delay_{}us", d.as_micros()), 1);
                        if t_recv < deadline {
                            an.complaint = Some(("delivered-before-deadline".into(), format!("datagram {} got {v:?} at {t_eval:?} (deadline {deadline:?}) but was received at {t_recv:?}", e.tag.desc)));
                            return;
                        }
                        if t_recv > deadline + TICK {
                            an.complaint = Some(("delivered-late".into(), format!("datagram {} got {v:?} at {t_eval:?} (deadline {deadline:?}) but was received only at {t_recv:?}, more than one tick late", e.tag.desc)));
                            return;
                        }
                        delivered.push(D { tag: *tag, dst_host: rx[0].1, deadline, eval_pos: e.pos, recv_pos: rx[0].0 });
                    }
                }
            }
        }
    }
    // ordering per receiving socket
    let mut by_host: BTreeMap<usize, Vec<&D>> = BTreeMap::new();
    for d in &delivered {
        by_host.entry(d.dst_host).or_default().push(d);
    }
    for (h, v) in by_host {
        for i in 0..v.len() {
            for j in 0..v.len() {
                let (p, q) = (v[i], v[j]);
                if p.eval_pos >= q.eval_pos {
                    continue;
                }
                // p evaluated before q
                if p.deadline == q.deadline {
                    count(an, "equal_deadline_pairs", 1);
                    if p.recv_pos > q.recv_pos {
                        an.complaint = Some(("equal-deadline-reordered".into(), format!("h{h}: datagrams #{:x} and #{:x} share deadline {:?}; the one evaluated first was received second", p.tag & 0xffff_ffff, q.tag & 0xffff_ffff, p.deadline)));
                        return;
                    }
                } else if p.deadline > q.deadline {
                    count(an, "crossing_deadline_pairs", 1);
                    if p.recv_pos < q.recv_pos {
                        an.complaint = Some(("deadline-order-violated".into(), format!("h{h}: datagram #{:x} (deadline {:?}) was received before #{:x} (deadline {:?})", p.tag & 0xffff_ffff, p.deadline, q.tag & 0xffff_ffff, q.deadline)));
                        return;
                    }
                } else if p.recv_pos > q.recv_pos {
                    an.complaint = Some(("deadline-order-violated".into(), format!("h{h}: datagram #{:x} (deadline {:?}) was received after #{:x} (deadline {:?})", p.tag & 0xffff_ffff, p.deadline, q.tag & 0xffff_ffff, q.deadline)));
                    return;
                }
            }
        }
    }
}
