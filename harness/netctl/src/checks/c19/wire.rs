//! C19 own-driver mode: the harness calls `evaluate` for every packet that
//! leaves a host; permanent rules, scheduler-side guards, task-side guards,
//! forgotten guards, UDP + TCP + loopback traffic from 2-3 hosts.

use std::cell::RefCell;
use std::collections::{BTreeMap, BTreeSet, VecDeque};
use std::net::{IpAddr, SocketAddr};
use std::rc::Rc;
use std::time::Duration;

use serde_json::{json, Value};
use tokio::sync::Notify;
use turmoil_net::shim::tokio::net::{TcpListener, TcpStream, UdpSocket};
use turmoil_net::{KernelConfig, RuleGuard, Verdict};
use vcore::Rng;

use super::common::*;
use crate::engine::{self, ip, now, Scoped, World};

#[derive(Clone, Debug, PartialEq)]
pub enum WStep {
    /// install from the scheduler side (EnterGuard::rule)
    InstallSched { slot: u8, spec: RuleSpec },
    /// install from inside a task of `host` (turmoil_net::rule)
    InstallTask { host: u8, slot: u8, spec: RuleSpec },
    DropGuard { slot: u8 },
    Forget { slot: u8 },
    /// `n` tagged datagrams from host `from` to (host `to`'s address #0 | its own loopback | its own address)
    Send { from: u8, to: u8, n: u8 },
    SendLoop { from: u8, own_addr: bool },
    TcpWrite { n: u16 },
    /// drop one guard that was issued by an earlier, already finished Net of
    /// this thread
    DropStale,
    Round,
}

impl WStep {
    pub fn to_json(&self) -> Value {
        match self {
            WStep::InstallSched { slot, spec } => json!({"s":"isched","slot":slot,"spec":spec.to_json()}),
            WStep::InstallTask { host, slot, spec } => json!({"s":"itask","host":host,"slot":slot,"spec":spec.to_json()}),
            WStep::DropGuard { slot } => json!({"s":"drop","slot":slot}),
            WStep::Forget { slot } => json!({"s":"forget","slot":slot}),
            WStep::Send { from, to, n } => json!({"s":"send","from":from,"to":to,"n":n}),
            WStep::SendLoop { from, own_addr } => json!({"s":"sendloop","from":from,"own":own_addr}),
            WStep::TcpWrite { n } => json!({"s":"tcpw","n":n}),
            WStep::DropStale => json!({"s":"dropstale"}),
            WStep::Round => json!({"s":"round"}),
        }
    }
    pub fn from_json(v: &Value) -> Option<WStep> {
        let u = |k: &str| v[k].as_u64().map(|x| x as u8);
        Some(match v["s"].as_str()? {
            "isched" => WStep::InstallSched { slot: u("slot")?, spec: RuleSpec::from_json(&v["spec"]) },
            "itask" => WStep::InstallTask { host: u("host")?, slot: u("slot")?, spec: RuleSpec::from_json(&v["spec"]) },
            "drop" => WStep::DropGuard { slot: u("slot")? },
            "forget" => WStep::Forget { slot: u("slot")? },
            "send" => WStep::Send { from: u("from")?, to: u("to")?, n: u("n")? },
            "sendloop" => WStep::SendLoop { from: u("from")?, own_addr: v["own"].as_bool().unwrap_or(false) },
            "tcpw" => WStep::TcpWrite { n: v["n"].as_u64()? as u16 },
            "dropstale" => WStep::DropStale,
            "round" => WStep::Round,
            _ => return None,
        })
    }
    pub fn canon(&self) -> String {
        match self {
            WStep::InstallSched { slot, spec } => format!("is{slot}:{}", spec.canon()),
            WStep::InstallTask { slot, spec, .. } => format!("it{slot}:{}", spec.canon()),
            WStep::DropGuard { slot } => format!("dg{slot}"),
            WStep::Forget { slot } => format!("fg{slot}"),
            WStep::Send { from, to, n } => format!("u{from}>{to}x{n}"),
            WStep::SendLoop { from, own_addr } => format!("lo{from}{}", if *own_addr { "o" } else { "" }),
            WStep::TcpWrite { .. } => "tw".into(),
            WStep::DropStale => "ds".into(),
            WStep::Round => "R".into(),
        }
    }
}

#[derive(Clone, Debug, PartialEq)]
pub struct WireScn {
    pub hosts: usize,
    /// guards left over from a previous simulation on the same thread
    pub stale: u8,
    pub perm: Vec<RuleSpec>,
    pub steps: Vec<WStep>,
}

impl WireScn {
    pub fn to_json(&self) -> Value {
        json!({"kind":"wire","hosts":self.hosts,"stale":self.stale,"perm":self.perm.iter().map(|s| s.to_json()).collect::<Vec<_>>(),
               "steps": self.steps.iter().map(|s| s.to_json()).collect::<Vec<_>>()})
    }
    pub fn from_json(v: &Value) -> WireScn {
        WireScn {
            hosts: v["hosts"].as_u64().unwrap_or(2) as usize,
            stale: v["stale"].as_u64().unwrap_or(0) as u8,
            perm: v["perm"].as_array().map(|a| a.iter().map(RuleSpec::from_json).collect()).unwrap_or_default(),
            steps: v["steps"].as_array().map(|a| a.iter().filter_map(WStep::from_json).collect()).unwrap_or_default(),
        }
    }
    pub fn canon(&self) -> String {
        let p: Vec<String> = self.perm.iter().map(|s| s.canon()).collect();
        let s: Vec<String> = self.steps.iter().map(|s| s.canon()).collect();
        format!("wire:h{}{}|perm[{}]|{}", self.hosts, if self.stale > 0 { format!("+stale{}", self.stale) } else { String::new() }, p.join(","), s.join(","))
    }
    pub fn generate(seed: u64) -> WireScn {
        let mut rng = Rng::new(seed);
        let hosts = rng.range(2, 3) as usize;
        let perm: Vec<RuleSpec> = (0..rng.below(3)).map(|_| RuleSpec::generate(&mut rng)).collect();
        let stale = if rng.chance(0.3) { rng.range(1, 3) as u8 } else { 0 };
        let mut steps = vec![];
        let n = rng.range(8, 40);
        for _ in 0..n {
            let w = rng.below(100);
            let h = rng.below(hosts as u64) as u8;
            steps.push(match w {
                0..=11 => WStep::InstallSched { slot: rng.below(6) as u8, spec: RuleSpec::generate(&mut rng) },
                12..=21 => WStep::InstallTask { host: h, slot: rng.below(6) as u8, spec: RuleSpec::generate(&mut rng) },
                22..=33 => WStep::DropGuard { slot: rng.below(6) as u8 },
                34..=37 => WStep::Forget { slot: rng.below(6) as u8 },
                38..=62 => {
                    let mut to = rng.below(hosts as u64) as u8;
                    if to == h {
                        to = (to + 1) % hosts as u8;
                    }
                    WStep::Send { from: h, to, n: rng.range(1, 4) as u8 }
                }
                63..=70 => WStep::SendLoop { from: h, own_addr: rng.coin() },
                71..=76 => WStep::TcpWrite { n: *rng.pick(&[1u16, 100, 3000]) },
                77..=78 if stale > 0 => WStep::DropStale,
                77..=78 => WStep::Round,
                _ => WStep::Round,
            });
        }
        WireScn { hosts, stale, perm, steps }
    }
}

pub struct WireRun {
    pub log: Vec<Ev>,
    pub analysis: Analysis,
}

struct TaskCmd {
    slot: u8,
    rid: u32,
    spec: RuleSpec,
}

pub fn execute(s: &WireScn) -> WireRun {
    let log: Log = Rc::new(RefCell::new(vec![]));
    let mut an = Analysis::default();
    let mut specs: BTreeMap<u32, RuleSpec> = BTreeMap::new();
    let r = engine::guarded(|| run_inner(s, &log, &mut specs, &mut an));
    turmoil_net::verif::set_loopback_tap(None);
    let logv = log.borrow().clone();
    if let Err(msg) = r {
        an.complaint = Some(("kernel-panic".into(), format!("panic inside turmoil-net: {msg}")));
    }
    if an.complaint.is_none() {
        check_chain(&logv, &specs, false, true, &mut an);
    }
    WireRun { log: logv, analysis: an }
}

fn run_inner(s: &WireScn, log: &Log, specs: &mut BTreeMap<u32, RuleSpec>, an: &mut Analysis) {
    let addrs: Vec<Vec<IpAddr>> = (0..s.hosts)
        .map(|h| if h == 2 { vec![ip("10.0.2.1"), ip("10.0.2.2")] } else { vec![ip(&format!("10.0.{h}.1"))] })
        .collect();
    // an earlier simulation on this thread whose guards outlive its Net
    let mut stale_guards: Vec<RuleGuard> = vec![];
    if s.stale > 0 {
        let w0 = World::new(KernelConfig::default(), &[vec![ip("10.9.0.1")]], |_| {});
        for _ in 0..s.stale {
            stale_guards.push(w0.guard().rule(|_: &turmoil_net::Packet| Verdict::Pass));
        }
        drop(w0);
    }
    let round_cell = Rc::new(std::cell::Cell::new(0u64));
    let rc2 = round_cell.clone();
    let clock: Rc<dyn Fn() -> Duration> = Rc::new(move || Duration::from_millis(rc2.get()));
    let mut next_rid = 0u32;
    // permanent rules: Net::rule before enter
    let perm: Vec<(u32, RuleSpec)> = s
        .perm
        .iter()
        .map(|sp| {
            next_rid += 1;
            (next_rid, sp.clone())
        })
        .collect();
    let (l2, c2) = (log.clone(), clock.clone());
    let perm2 = perm.clone();
    let mut w = World::new(KernelConfig::default(), &addrs, move |net| {
        for (rid, sp) in &perm2 {
            net.rule(make_rule(&l2, *rid, sp.clone(), false, c2.clone()));
            l2.borrow_mut().push(Ev::Install { rid: *rid, how: "permanent" });
        }
    });
    for (rid, sp) in perm {
        specs.insert(rid, sp);
    }
    // loopback tap
    let tapped: Rc<RefCell<Vec<Tag>>> = Rc::new(RefCell::new(vec![]));
    let t2 = tapped.clone();
    turmoil_net::verif::set_loopback_tap(Some(Box::new(move |_, p| t2.borrow_mut().push(tag_of(p)))));

    // sockets
    let mut udp: Vec<Scoped<UdpSocket>> = vec![];
    for h in 0..s.hosts {
        w.cur(h);
        let u = now(UdpSocket::bind("0.0.0.0:9000")).expect("udp bind");
        udp.push(w.scoped(h, u));
    }
    w.cur(1);
    let listener = w.scoped(1, now(TcpListener::bind("0.0.0.0:9100")).expect("listen"));
    let tcp_slot: Rc<RefCell<Option<TcpStream>>> = Rc::new(RefCell::new(None));
    let ts2 = tcp_slot.clone();
    let dst = SocketAddr::new(addrs[1][0], 9100);
    w.spawn(0, async move {
        if let Ok(st) = TcpStream::connect(dst).await {
            *ts2.borrow_mut() = Some(st);
        }
    });
    let mut tcp_client: Option<Scoped<TcpStream>> = None;
    let mut tcp_server: Vec<Scoped<TcpStream>> = vec![];

    // rule manager task per host: installs/drops task-side guards on command
    let task_guards: Rc<RefCell<BTreeMap<u8, (u32, RuleGuard)>>> = Rc::new(RefCell::new(BTreeMap::new()));
    let mut queues: Vec<(Rc<RefCell<VecDeque<TaskCmd>>>, Rc<Notify>)> = vec![];
    for h in 0..s.hosts {
        let q: Rc<RefCell<VecDeque<TaskCmd>>> = Rc::new(RefCell::new(VecDeque::new()));
        let n = Rc::new(Notify::new());
        let (q2, n2, l2, c2, tg) = (q.clone(), n.clone(), log.clone(), clock.clone(), task_guards.clone());
        w.spawn(h, async move {
            loop {
                n2.notified().await;
                while let Some(cmd) = q2.borrow_mut().pop_front() {
                    let g = turmoil_net::rule(make_rule(&l2, cmd.rid, cmd.spec, false, c2.clone()));
                    l2.borrow_mut().push(Ev::Install { rid: cmd.rid, how: "task" });
                    tg.borrow_mut().insert(cmd.slot, (cmd.rid, g));
                }
            }
        });
        queues.push((q, n));
    }
    let mut sched_guards: BTreeMap<u8, (u32, RuleGuard)> = BTreeMap::new();
    let mut held: Vec<(u64, turmoil_net::Packet)> = vec![];
    let mut tag_ctr = 0u64;
    let mut local_tags: BTreeSet<u64> = BTreeSet::new();

    let free_slot = |slot: u8, sched: &mut BTreeMap<u8, (u32, RuleGuard)>, log: &Log| {
        // a slot is reused: drop whatever guard lives there first
        if let Some((rid, g)) = sched.remove(&slot) {
            drop(g);
            log.borrow_mut().push(Ev::Uninstall { rid, how: "scheduler" });
        }
        let tgv = task_guards.borrow_mut().remove(&slot);
        if let Some((rid, g)) = tgv {
            drop(g);
            log.borrow_mut().push(Ev::Uninstall { rid, how: "task" });
        }
    };

    let mut steps: Vec<WStep> = s.steps.clone();
    for _ in 0..9 {
        steps.push(WStep::Round);
    }
    for st in &steps {
        match st {
            WStep::InstallSched { slot, spec } => {
                free_slot(*slot, &mut sched_guards, log);
                next_rid += 1;
                specs.insert(next_rid, spec.clone());
                let g = w.guard().rule(make_rule(log, next_rid, spec.clone(), false, clock.clone()));
                log.borrow_mut().push(Ev::Install { rid: next_rid, how: "scheduler" });
                sched_guards.insert(*slot, (next_rid, g));
            }
            WStep::InstallTask { host, slot, spec } => {
                free_slot(*slot, &mut sched_guards, log);
                next_rid += 1;
                specs.insert(next_rid, spec.clone());
                let h = (*host as usize) % s.hosts;
                queues[h].0.borrow_mut().push_back(TaskCmd { slot: *slot, rid: next_rid, spec: spec.clone() });
                queues[h].1.notify_one();
                w.settle();
            }
            WStep::DropGuard { slot } => free_slot(*slot, &mut sched_guards, log),
            WStep::Forget { slot } => {
                if let Some((rid, g)) = sched_guards.remove(slot) {
                    g.forget();
                    log.borrow_mut().push(Ev::Forget { rid });
                } else {
                    let tgv = task_guards.borrow_mut().remove(slot);
                    if let Some((rid, g)) = tgv {
                        g.forget();
                        log.borrow_mut().push(Ev::Forget { rid });
                    }
                }
            }
            WStep::Send { from, to, n } => {
                let (f, t) = ((*from as usize) % s.hosts, (*to as usize) % s.hosts);
                for _ in 0..*n {
                    tag_ctr += 1;
                    let tag = MAGIC | tag_ctr;
                    let dst = SocketAddr::new(addrs[t][0], 9000);
                    let _ = udp[f].on().try_send_to(&tag.to_be_bytes(), dst);
                    let local = f == t;
                    if local {
                        local_tags.insert(tag);
                    }
                    log.borrow_mut().push(Ev::Sent { host: f, tag, to: dst, at: clock(), local });
                }
            }
            WStep::SendLoop { from, own_addr } => {
                let f = (*from as usize) % s.hosts;
                tag_ctr += 1;
                let tag = MAGIC | tag_ctr;
                let a = if *own_addr { *addrs[f].last().unwrap() } else { ip("127.0.0.1") };
                let dst = SocketAddr::new(a, 9000);
                let _ = udp[f].on().try_send_to(&tag.to_be_bytes(), dst);
                local_tags.insert(tag);
                log.borrow_mut().push(Ev::Sent { host: f, tag, to: dst, at: clock(), local: true });
            }
            WStep::TcpWrite { n } => {
                if let Some(c) = tcp_client.as_ref() {
                    let data = vec![0x5au8; *n as usize];
                    let _ = c.on().try_write(&data);
                }
            }
            WStep::DropStale => {
                if let Some(g) = stale_guards.pop() {
                    drop(g);
                    an.counters.entry("stale_guard_drops".into()).and_modify(|x| *x += 1).or_insert(1);
                }
            }
            WStep::Round => {
                w.settle();
                if tcp_client.is_none() {
                    if let Some(st) = tcp_slot.borrow_mut().take() {
                        tcp_client = Some(w.scoped(0, st));
                    }
                }
                let pkts = w.egress();
                round_cell.set(round_cell.get() + 1);
                let r = round_cell.get();
                let mut due = vec![];
                held.retain(|(d, p)| {
                    if *d <= r {
                        due.push(p.clone());
                        false
                    } else {
                        true
                    }
                });
                for p in due {
                    w.deliver(p);
                }
                for p in pkts {
                    // loopback / own-address traffic must never reach the wire
                    let src_host = w.host_of(p.src);
                    let dst_local = p.dst.is_loopback() || (src_host.is_some() && src_host == w.host_of(p.dst));
                    if dst_local {
                        an.complaint = Some(("loopback-on-wire".into(), format!("egress_all returned a packet whose destination is local to its sender: {}", tag_of(&p).desc)));
                        return;
                    }
                    let tag = tag_of(&p);
                    log.borrow_mut().push(Ev::EvalBegin { tag: tag.clone() });
                    let v = w.guard().evaluate(&p);
                    log.borrow_mut().push(Ev::EvalEnd { tag, verdict: v });
                    match v {
                        Verdict::Drop => {}
                        Verdict::Pass => w.deliver(p),
                        Verdict::Deliver(d) if d.is_zero() => w.deliver(p),
                        Verdict::Deliver(d) => held.push((r.saturating_add(d.as_micros().div_ceil(1000).min(u64::MAX as u128) as u64), p)),
                    }
                }
                // accept + drain TCP server side, drain UDP
                for _ in 0..4 {
                    let std::task::Poll::Ready(Ok((st, _))) = listener.on().poll_accept(&mut engine::noop_cx()) else { break };
                    tcp_server.push(w.scoped(1, st));
                }
                let mut buf = [0u8; 4096];
                for srv in &tcp_server {
                    while let Ok(k) = srv.on().try_read(&mut buf) {
                        if k == 0 {
                            break;
                        }
                    }
                }
                for (h, u) in udp.iter().enumerate() {
                    while let Ok((k, from)) = u.on().try_recv_from(&mut buf) {
                        if k == 8 {
                            let tag = u64::from_be_bytes(buf[..8].try_into().unwrap());
                            log.borrow_mut().push(Ev::Recv { host: h, tag, from, at: clock() });
                        }
                    }
                }
            }
        }
    }
    // loopback oracle: packets seen by the tap never appear in a rule log
    let tapped_tags: BTreeSet<u64> = tapped.borrow().iter().filter(|t| t.udp).map(|t| t.id).collect();
    let tapped_all: BTreeSet<Tag> = tapped.borrow().iter().cloned().collect();
    an.counters.insert("loopback_packets_tapped".into(), tapped.borrow().len() as u64);
    let mut local_received = 0u64;
    for ev in log.borrow().iter() {
        match ev {
            Ev::Invoke { tag, rid, .. } => {
                if (tag.udp && (tapped_tags.contains(&tag.id) || local_tags.contains(&tag.id))) || tapped_all.contains(tag) {
                    an.complaint = Some(("loopback-shown-to-rules".into(), format!("rule r{rid} was shown the loopback packet {}", tag.desc)));
                    break;
                }
            }
            Ev::Recv { tag, .. } if local_tags.contains(tag) => local_received += 1,
            _ => {}
        }
    }
    an.counters.insert("loopback_datagrams_sent".into(), local_tags.len() as u64);
    an.counters.insert("loopback_datagrams_received".into(), local_received);
    if an.complaint.is_none() {
        for t in &local_tags {
            if !tapped_tags.contains(t) {
                an.complaint = Some(("loopback-not-tapped".into(), format!("local datagram #{:x} was never seen folding back inside its kernel", t & 0xffff_ffff)));
                break;
            }
        }
    }
    // release guards and sockets in scope
    sched_guards.clear();
    task_guards.borrow_mut().clear();
    drop(tcp_client);
    tcp_server.clear();
    drop(listener);
    udp.clear();
}
