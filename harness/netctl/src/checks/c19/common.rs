//! C19 shared pieces: rule specs with pure verdict functions, the event log,
//! packet tags, and the chain / timing oracles that run over the log.

use std::cell::RefCell;
use std::collections::{BTreeMap, BTreeSet};
use std::net::SocketAddr;
use std::rc::Rc;
use std::time::Duration;

use serde_json::{json, Value};
use turmoil_net::{Packet, Transport, Verdict};

pub const DELAYS_US: [u64; 5] = [0, 300, 1000, 2500, 7000];
pub const TICK: Duration = Duration::from_millis(1);
pub const MAGIC: u64 = 0xC19D_0000_0000_0000;

#[derive(Clone, Debug, PartialEq)]
pub struct RuleSpec {
    pub seed: u64,
    pub pass_pct: u8,
    pub drop_pct: u8,
    /// Some(i): every Deliver uses DELAYS_US[i]; None: delay picked by hash
    pub const_delay: Option<u8>,
}

impl RuleSpec {
    pub fn to_json(&self) -> Value {
        json!({"seed": self.seed, "pass": self.pass_pct, "drop": self.drop_pct, "const_delay": self.const_delay})
    }
    pub fn from_json(v: &Value) -> RuleSpec {
        RuleSpec {
            seed: v["seed"].as_u64().unwrap_or(0),
            pass_pct: v["pass"].as_u64().unwrap_or(50) as u8,
            drop_pct: v["drop"].as_u64().unwrap_or(0) as u8,
            const_delay: v["const_delay"].as_u64().map(|x| x as u8),
        }
    }
    pub fn canon(&self) -> String {
        format!("p{}d{}{}", self.pass_pct, self.drop_pct, self.const_delay.map(|c| format!("c{c}")).unwrap_or_default())
    }
    pub fn generate(rng: &mut vcore::Rng) -> RuleSpec {
        let (pass_pct, drop_pct) = *rng.pick(&[(100u8, 0u8), (70, 10), (50, 15), (30, 20), (0, 0), (0, 100), (60, 0), (85, 5)]);
        RuleSpec {
            seed: rng.next_u64() >> 1,
            pass_pct,
            drop_pct,
            // index 5 = Duration::MAX ("hold for ever")
            const_delay: if rng.chance(0.35) { Some(if rng.chance(0.1) { 5 } else { rng.below(5) as u8 }) } else { None },
        }
    }
}

/// Identity of a packet as seen by rules / tap / receivers.
#[derive(Clone, Debug, PartialEq, Eq, PartialOrd, Ord)]
pub struct Tag {
    pub udp: bool,
    /// UDP: the 64-bit tag in the payload; TCP: hash of the header fields
    pub id: u64,
    pub desc: String,
}

pub fn tag_of(p: &Packet) -> Tag {
    match &p.payload {
        Transport::Udp(d) => {
            let id = if d.payload.len() == 8 {
                u64::from_be_bytes(d.payload[..8].try_into().unwrap())
            } else {
                vcore::digest_str(&format!("{:?}", d.payload))
            };
            Tag { udp: true, id, desc: format!("udp {}:{}->{}:{} #{:x}", p.src, d.src_port, p.dst, d.dst_port, id & 0xffff_ffff) }
        }
        Transport::Tcp(s) => {
            let desc = format!(
                "tcp {}:{}->{}:{} seq={} ack={} len={} {}{}{}{}",
                p.src, s.src_port, p.dst, s.dst_port, s.seq, s.ack, s.payload.len(),
                if s.flags.syn { "S" } else { "" }, if s.flags.ack { "A" } else { "" },
                if s.flags.fin { "F" } else { "" }, if s.flags.rst { "R" } else { "" }
            );
            Tag { udp: false, id: vcore::digest_str(&desc), desc }
        }
    }
}

/// Pure verdict function of a rule. `tcp_safe`: TCP packets are never dropped
/// (fixture mode keeps streams alive; C06 owns loss).
pub fn verdict_of(spec: &RuleSpec, tag: &Tag, tcp_safe: bool) -> Verdict {
    let h = vcore::rng::mix(spec.seed ^ tag.id.wrapping_mul(0x9e3779b97f4a7c15));
    let r = (h % 100) as u8;
    if r < spec.pass_pct {
        return Verdict::Pass;
    }
    if r < spec.pass_pct.saturating_add(spec.drop_pct) {
        if tcp_safe && !tag.udp {
            return Verdict::Pass;
        }
        return Verdict::Drop;
    }
    let i = spec.const_delay.map(|c| c as usize).unwrap_or(((h >> 8) % 5) as usize);
    if i == 5 {
        return Verdict::Deliver(Duration::MAX);
    }
    Verdict::Deliver(Duration::from_micros(DELAYS_US[i % 5]))
}

#[derive(Clone, Debug)]
pub enum Ev {
    Install { rid: u32, how: &'static str },
    Uninstall { rid: u32, how: &'static str },
    Forget { rid: u32 },
    Invoke { rid: u32, tag: Tag, verdict: Verdict, at: Duration },
    EvalBegin { tag: Tag },
    EvalEnd { tag: Tag, verdict: Verdict },
    Sent { host: usize, tag: u64, to: SocketAddr, at: Duration, local: bool },
    Recv { host: usize, tag: u64, from: SocketAddr, at: Duration },
}

pub type Log = Rc<RefCell<Vec<Ev>>>;

pub fn fmt_ev(e: &Ev) -> String {
    match e {
        Ev::Install { rid, how } => format!("install r{rid} ({how})"),
        Ev::Uninstall { rid, how } => format!("uninstall r{rid} ({how})"),
        Ev::Forget { rid } => format!("forget r{rid}"),
        Ev::Invoke { rid, tag, verdict, at } => format!("r{rid} {} -> {verdict:?} @{at:?}", tag.desc),
        Ev::EvalBegin { tag } => format!("evaluate {}", tag.desc),
        Ev::EvalEnd { verdict, .. } => format!("  => {verdict:?}"),
        Ev::Sent { host, tag, to, at, local } => format!("h{host} send #{:x} to {to}{} @{at:?}", tag & 0xffff_ffff, if *local { " (local)" } else { "" }),
        Ev::Recv { host, tag, from, at } => format!("h{host} recv #{:x} from {from} @{at:?}", tag & 0xffff_ffff),
    }
}

/// Build a logging rule closure.
pub fn make_rule(log: &Log, rid: u32, spec: RuleSpec, tcp_safe: bool, clock: Rc<dyn Fn() -> Duration>) -> impl FnMut(&Packet) -> Verdict + 'static {
    let log = log.clone();
    move |p: &Packet| {
        let tag = tag_of(p);
        let v = verdict_of(&spec, &tag, tcp_safe);
        log.borrow_mut().push(Ev::Invoke { rid, tag, verdict: v, at: clock() });
        v
    }
}

#[derive(Default)]
pub struct Analysis {
    pub complaint: Option<(String, String)>,
    pub counters: BTreeMap<String, u64>,
    pub max_chain: usize,
}

impl Analysis {
    fn count(&mut self, k: &str, n: u64) {
        *self.counters.entry(k.to_string()).or_default() += n;
    }
}

fn vkind(v: &Verdict) -> &'static str {
    match v {
        Verdict::Pass => "pass",
        Verdict::Drop => "drop",
        Verdict::Deliver(d) if d.is_zero() => "deliver0",
        Verdict::Deliver(_) => "deliver_delayed",
    }
}

/// One evaluation reconstructed from the log.
pub struct Evaluation {
    pub tag: Tag,
    pub rids: Vec<u32>,
    pub verdicts: Vec<Verdict>,
    pub at: Option<Duration>,
    /// index in the log of the first Invoke (evaluation order)
    pub pos: usize,
    /// verdict returned by evaluate(), when bracketed by the harness
    pub returned: Option<Verdict>,
}

/// Chain oracle. `specs[rid]` gives each rule's verdict function. With
/// `bracketed` the log has EvalBegin/EvalEnd around every evaluate call (own
/// driver); otherwise evaluations are reconstructed from runs of Invoke
/// entries (fixtures).
pub fn check_chain(log: &[Ev], specs: &BTreeMap<u32, RuleSpec>, tcp_safe: bool, bracketed: bool, an: &mut Analysis) -> Vec<Evaluation> {
    let mut chain: Vec<u32> = vec![];
    let mut dropped: BTreeSet<u32> = BTreeSet::new();
    let mut evals: Vec<Evaluation> = vec![];
    let mut cur: Option<Evaluation> = None;
    let mut open = false;

    // validate one finished evaluation against the chain as it was
    fn validate(e: &Evaluation, chain: &[u32], specs: &BTreeMap<u32, RuleSpec>, tcp_safe: bool, an: &mut Analysis) {
        if an.complaint.is_some() {
            return;
        }
        let mut want: Vec<u32> = vec![];
        let mut fate = Verdict::Pass;
        for rid in chain {
            want.push(*rid);
            let v = verdict_of(&specs[rid], &e.tag, tcp_safe);
            if v != Verdict::Pass {
                fate = v;
                break;
            }
        }
        if e.rids != want {
            let class = if e.rids.len() > want.len() && e.rids[..want.len()] == want[..] {
                "rule-invoked-after-decision"
            } else if e.rids.len() < want.len() && want[..e.rids.len()] == e.rids[..] {
                "rule-skipped"
            } else {
                "rule-order"
            };
            an.complaint = Some((
                class.into(),
                format!("packet {}: rules invoked {:?}, installed chain {:?} requires exactly {:?} (first non-Pass decides)", e.tag.desc, e.rids, chain, want),
            ));
            return;
        }
        if let Some(r) = e.returned {
            if r != fate {
                an.complaint = Some(("wrong-verdict".into(), format!("packet {}: evaluate returned {r:?}, first non-Pass verdict of chain {:?} is {fate:?}", e.tag.desc, chain)));
                return;
            }
        }
        an.count("evaluations_checked", 1);
        an.count(&format!("fate_{}", vkind(&fate)), 1);
        an.count(&format!("evaluations_{}", if e.tag.udp { "udp" } else { "tcp" }), 1);
        an.count("rule_invocations", e.rids.len() as u64);
        if e.rids.len() > 1 {
            an.count("evaluations_passing_through_several_rules", 1);
        }
        if want.len() < chain.len() {
            an.count("evaluations_short_circuited", 1);
        }
    }

    let mut chain_at_open: Vec<u32> = vec![];
    for (i, ev) in log.iter().enumerate() {
        if an.complaint.is_some() {
            break;
        }
        match ev {
            Ev::Install { rid, .. } => {
                if let Some(e) = cur.take() {
                    validate(&e, &chain_at_open, specs, tcp_safe, an);
                    evals.push(e);
                }
                chain.push(*rid);
                an.max_chain = an.max_chain.max(chain.len());
                an.count("rule_installs", 1);
            }
            Ev::Uninstall { rid, how } => {
                if let Some(e) = cur.take() {
                    validate(&e, &chain_at_open, specs, tcp_safe, an);
                    evals.push(e);
                }
                let pos = chain.iter().position(|r| r == rid);
                if let Some(p) = pos {
                    if p + 1 < chain.len() {
                        an.count("guard_drops_not_last_in_chain", 1);
                    }
                    chain.remove(p);
                }
                dropped.insert(*rid);
                an.count("guard_drops", 1);
                an.count(&format!("guard_drops_{how}"), 1);
            }
            Ev::Forget { .. } => an.count("guards_forgotten", 1),
            Ev::EvalBegin { tag } => {
                open = true;
                chain_at_open = chain.clone();
                cur = Some(Evaluation { tag: tag.clone(), rids: vec![], verdicts: vec![], at: None, pos: i, returned: None });
            }
            Ev::EvalEnd { verdict, .. } => {
                open = false;
                if let Some(mut e) = cur.take() {
                    e.returned = Some(*verdict);
                    validate(&e, &chain_at_open, specs, tcp_safe, an);
                    evals.push(e);
                }
            }
            Ev::Invoke { rid, tag, verdict, at } => {
                if dropped.contains(rid) {
                    an.complaint = Some(("rule-invoked-after-guard-drop".into(), format!("rule r{rid} was invoked for {} after its guard had been dropped", tag.desc)));
                    break;
                }
                if bracketed {
                    match cur.as_mut() {
                        Some(e) if open && e.tag == *tag => {
                            e.rids.push(*rid);
                            e.verdicts.push(*verdict);
                            e.at = Some(*at);
                        }
                        _ => {
                            an.complaint = Some(("rule-invoked-outside-evaluate".into(), format!("rule r{rid} invoked for {} outside an evaluate call of that packet", tag.desc)));
                        }
                    }
                } else {
                    // same evaluation iff same packet and the rule sits later
                    // in the chain than the previous one
                    let cont = match cur.as_ref() {
                        Some(e) if e.tag == *tag => {
                            let last = *e.rids.last().unwrap();
                            let (a, b) = (chain_at_open.iter().position(|r| *r == last), chain_at_open.iter().position(|r| r == rid));
                            matches!((a, b), (Some(a), Some(b)) if b > a) && e.at == Some(*at)
                        }
                        _ => false,
                    };
                    if cont {
                        let e = cur.as_mut().unwrap();
                        e.rids.push(*rid);
                        e.verdicts.push(*verdict);
                    } else {
                        if let Some(e) = cur.take() {
                            validate(&e, &chain_at_open, specs, tcp_safe, an);
                            evals.push(e);
                        }
                        chain_at_open = chain.clone();
                        cur = Some(Evaluation { tag: tag.clone(), rids: vec![*rid], verdicts: vec![*verdict], at: Some(*at), pos: i, returned: None });
                    }
                }
            }
            _ => {}
        }
    }
    if let Some(e) = cur.take() {
        validate(&e, &chain_at_open, specs, tcp_safe, an);
        evals.push(e);
    }
    evals
}
