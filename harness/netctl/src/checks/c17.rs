pub fn run(ctx: &vcore::Ctx) -> ! {
    println!("INCONCLUSIVE property={} not implemented yet", ctx.prop);
    std::process::exit(2)
}
