//! Engine "netctl": own-the-wire driver + monitors for turmoil-net
//! connection lifecycle (C13), socket table / routing (C17), rule chains (C19).
mod checks;
mod engine;

fn main() {
    let args: Vec<String> = std::env::args().collect();
    let ctx = vcore::Ctx::from_args(&args[1..]);
    vcore::install_quiet_panic_hook();
    match ctx.prop.as_str() {
        "C13" => checks::c13::run(&ctx),
        "C17" => checks::c17::run(&ctx),
        "C19" => checks::c19::run(&ctx),
        other => {
            println!("INCONCLUSIVE property={other} not served by netctl");
            std::process::exit(2);
        }
    }
}
