//! Recording `tracing` subscriber: captures every event with target "turmoil"
//! (Send / Delivered / Recv / Drop / Hold / step N / Bind / Crash ...) together
//! with its fields and the enclosing `node` span, into a per-thread buffer.
//! This is the wire-level view of the `turmoil` crate.

use std::cell::RefCell;
use std::collections::BTreeMap;
use std::fmt::Debug;
use std::rc::Rc;
use std::sync::atomic::{AtomicU64, Ordering};
use std::sync::{Arc, Mutex};
use tracing::field::{Field, Visit};
use tracing::span::{Attributes, Id, Record};
use tracing::{Event, Metadata, Subscriber};

#[derive(Clone, Debug, PartialEq, Eq)]
pub struct TraceEv {
    /// position in the per-thread total order shared with `Log` entries
    pub seq: u64,
    /// harness step counter when the event was emitted
    pub step: u64,
    /// name of the enclosing `node` span ("" when emitted outside a host turn)
    pub node: String,
    /// the event message: "Send", "Delivered", "Recv", "Drop", "Hold", "step 3", ...
    pub msg: String,
    pub src: String,
    pub dst: String,
    pub protocol: String,
    /// any other fields, `k=v` joined
    pub other: String,
}

impl TraceEv {
    pub fn line(&self) -> String {
        format!(
            "{}|{}|{}|{}|{}|{}|{}",
            self.step, self.node, self.msg, self.src, self.dst, self.protocol, self.other
        )
    }
}

thread_local! {
    static STEP: std::cell::Cell<u64> = const { std::cell::Cell::new(0) };
    static SEQ: std::cell::Cell<u64> = const { std::cell::Cell::new(0) };
}

/// Next position in the per-thread total order of harness-visible events
/// (trace events and `Log` entries share it, so the two can be merged).
pub fn next_seq() -> u64 {
    SEQ.with(|s| {
        s.set(s.get() + 1);
        s.get()
    })
}

/// The harness step counter (bumped by the controller before each `Sim::step`).
pub fn step() -> u64 {
    STEP.with(|s| s.get())
}
pub fn set_step(v: u64) {
    STEP.with(|s| s.set(v))
}
pub fn bump_step() -> u64 {
    STEP.with(|s| {
        s.set(s.get() + 1);
        s.get()
    })
}

#[derive(Default)]
struct Inner {
    spans: BTreeMap<u64, String>,
    stack: Vec<u64>,
    events: Vec<TraceEv>,
}

pub struct Recorder {
    inner: Arc<Mutex<Inner>>,
    next: AtomicU64,
    /// keep payload text (protocol field) — off saves memory for big runs
    keep_payload: bool,
}

#[derive(Clone)]
pub struct Handle {
    inner: Arc<Mutex<Inner>>,
}

impl Handle {
    pub fn take(&self) -> Vec<TraceEv> {
        std::mem::take(&mut self.inner.lock().unwrap().events)
    }
    pub fn len(&self) -> usize {
        self.inner.lock().unwrap().events.len()
    }
    pub fn snapshot(&self) -> Vec<TraceEv> {
        self.inner.lock().unwrap().events.clone()
    }
}

struct V<'a> {
    ev: &'a mut TraceEv,
    keep_payload: bool,
}

impl Visit for V<'_> {
    fn record_debug(&mut self, field: &Field, value: &dyn Debug) {
        let s = format!("{value:?}");
        match field.name() {
            "message" => self.ev.msg = s,
            "src" => self.ev.src = s,
            "dst" => self.ev.dst = s,
            "protocol" => {
                if self.keep_payload {
                    self.ev.protocol = s
                } else {
                    // keep the protocol kind, drop the hex payload
                    self.ev.protocol = s.split(' ').take(2).collect::<Vec<_>>().join(" ");
                }
            }
            name => {
                if !self.ev.other.is_empty() {
                    self.ev.other.push(' ');
                }
                self.ev.other.push_str(&format!("{name}={s}"));
            }
        }
    }
    fn record_str(&mut self, field: &Field, value: &str) {
        self.record_debug(field, &format_args!("{value}"));
    }
}

struct NameV(String);
impl Visit for NameV {
    fn record_debug(&mut self, field: &Field, value: &dyn Debug) {
        if field.name() == "name" {
            self.0 = format!("{value:?}").trim_matches('"').to_string();
        }
    }
    fn record_str(&mut self, field: &Field, value: &str) {
        if field.name() == "name" {
            self.0 = value.to_string();
        }
    }
}

impl Subscriber for Recorder {
    fn enabled(&self, metadata: &Metadata<'_>) -> bool {
        metadata.target() == "turmoil" || metadata.name() == "node"
    }
    fn new_span(&self, span: &Attributes<'_>) -> Id {
        let id = self.next.fetch_add(1, Ordering::Relaxed);
        let mut v = NameV(String::new());
        span.record(&mut v);
        self.inner.lock().unwrap().spans.insert(id, v.0);
        Id::from_u64(id)
    }
    fn record(&self, _span: &Id, _values: &Record<'_>) {}
    fn record_follows_from(&self, _span: &Id, _follows: &Id) {}
    fn event(&self, event: &Event<'_>) {
        if event.metadata().target() != "turmoil" {
            return;
        }
        let mut inner = self.inner.lock().unwrap();
        let node = inner
            .stack
            .last()
            .and_then(|id| inner.spans.get(id))
            .cloned()
            .unwrap_or_default();
        let mut ev = TraceEv {
            seq: next_seq(),
            step: step(),
            node,
            msg: String::new(),
            src: String::new(),
            dst: String::new(),
            protocol: String::new(),
            other: String::new(),
        };
        event.record(&mut V {
            ev: &mut ev,
            keep_payload: self.keep_payload,
        });
        // "step N" is emitted at the top of every Sim::step: keep the harness
        // step counter in sync even when the simulation is driven by Sim::run
        if let Some(n) = ev.msg.strip_prefix("step ") {
            if let Ok(n) = n.trim().parse::<u64>() {
                set_step(n);
                ev.step = n;
            }
        }
        inner.events.push(ev);
    }
    fn enter(&self, span: &Id) {
        self.inner.lock().unwrap().stack.push(span.into_u64());
    }
    fn exit(&self, span: &Id) {
        let mut inner = self.inner.lock().unwrap();
        if inner.stack.last() == Some(&span.into_u64()) {
            inner.stack.pop();
        }
    }
    fn try_close(&self, id: Id) -> bool {
        self.inner.lock().unwrap().spans.remove(&id.into_u64());
        true
    }
}

/// Run `f` with a recording subscriber installed for the current thread.
pub fn with_recorder<R>(keep_payload: bool, f: impl FnOnce(Handle) -> R) -> R {
    let inner = Arc::new(Mutex::new(Inner::default()));
    let rec = Recorder {
        inner: inner.clone(),
        next: AtomicU64::new(1),
        keep_payload,
    };
    let dispatch = tracing::Dispatch::new(rec);
    tracing::dispatcher::with_default(&dispatch, || f(Handle { inner }))
}

/// Generic per-scenario event log shared between controller and host programs
/// (all on one OS thread). Entries are stamped with a global sequence number =
/// position in the vector, and the harness step counter.
pub struct Log<E> {
    inner: Rc<RefCell<Vec<(u64, E)>>>,
    seqs: Rc<RefCell<Vec<u64>>>,
}

impl<E> Clone for Log<E> {
    fn clone(&self) -> Self {
        Log {
            inner: self.inner.clone(),
            seqs: self.seqs.clone(),
        }
    }
}

impl<E> Default for Log<E> {
    fn default() -> Self {
        Log {
            inner: Rc::new(RefCell::new(Vec::new())),
            seqs: Rc::new(RefCell::new(Vec::new())),
        }
    }
}

impl<E> Log<E> {
    pub fn new() -> Self {
        Self::default()
    }
    pub fn push(&self, e: E) {
        self.seqs.borrow_mut().push(next_seq());
        self.inner.borrow_mut().push((step(), e));
    }
    /// Entries as (seq, step, event); seq is comparable with `TraceEv::seq`.
    pub fn take_seq(&self) -> Vec<(u64, u64, E)> {
        let seqs = std::mem::take(&mut *self.seqs.borrow_mut());
        let evs = std::mem::take(&mut *self.inner.borrow_mut());
        seqs.into_iter().zip(evs).map(|(q, (st, e))| (q, st, e)).collect()
    }
    pub fn len(&self) -> usize {
        self.inner.borrow().len()
    }
    pub fn take(&self) -> Vec<(u64, E)> {
        self.seqs.borrow_mut().clear();
        std::mem::take(&mut *self.inner.borrow_mut())
    }
    pub fn with<R>(&self, f: impl FnOnce(&Vec<(u64, E)>) -> R) -> R {
        f(&self.inner.borrow())
    }
}
