//! C02 — turmoil::net TCP delivers an intact, ordered byte stream and then EOF.
//!
//! History per connection and direction: accepted writes, reads, peeks, EOF,
//! errors; payload byte i of a direction is a keyed PRNG byte so loss,
//! duplication, reordering or alteration is located by offset. Safety oracle:
//! reads form a prefix of accepted writes at every moment. Bounded-delivery
//! oracle (healthy link, graceful close): everything accepted is read, then EOF,
//! within a virtual-time bound. Exhaustive part: every delivery order of the
//! held segments (+FIN) of a small transfer via Sim::links / SentRef::deliver.

use crate::rec::{self, Log};
use crate::util::{self, epoch};
use serde_json::json;
use std::time::Duration;
use tokio::io::{AsyncReadExt, AsyncWriteExt};
use turmoil::net::{TcpListener, TcpStream};
use vcore::rng::keyed_bytes;
use vcore::{Ctx, Finish, Fnv, Rng, RunOpts, ScenarioOut};

#[derive(Clone, Debug)]
enum WOp {
    Write(usize),
    WriteAll(usize),
    Try(usize),
    Sleep(u64),
}

#[derive(Clone, Debug)]
enum ROp {
    Read(usize),
    Peek(usize),
    Sleep(u64),
}

#[derive(Clone, Copy, Debug, PartialEq)]
enum Mode {
    Owned,
    IoSplit,
    Whole,
}

#[derive(Clone, Copy, Debug, PartialEq)]
enum Close {
    Shutdown,
    DropWriteHalf,
}

#[derive(Clone, Debug)]
struct Side {
    mode: Mode,
    wops: Vec<WOp>,
    rops: Vec<ROp>,
    close: Close,
    /// abortive: drop the whole stream after this many read ops (safety only)
    abort_after_reads: Option<usize>,
    /// stop reading once this many bytes (everything the peer writes) were read,
    /// i.e. never consume the peer's FIN, then drop: still a graceful close
    stop_after_bytes: Option<u64>,
    /// owned halves: drop the read half at once (the peer never writes in that direction, so
    /// nothing is unread: still a graceful close) and keep writing through the write half
    drop_read_first: bool,
}

#[derive(Clone, Copy, Debug, PartialEq)]
enum Peer {
    Remote,
    SameHostByAddr,
    Loopback,
}

#[derive(Clone, Debug)]
enum Fault {
    None,
    HoldRelease(u64, u64),
    PartitionRepair(u64, u64),
}

#[derive(Clone, Debug)]
struct Scn {
    tick_ms: u64,
    min_ms: u64,
    max_ms: u64,
    cap: usize,
    v6: bool,
    peer: Peer,
    random_order: bool,
    rng_seed: u64,
    client: Side,
    server: Side,
    fault: Fault,
}

/// direction 0 = client->server, 1 = server->client
#[derive(Clone, Debug)]
enum Ev {
    WIntent { dir: u8, n: usize },
    WAccepted { dir: u8, n: usize },
    WouldBlock { dir: u8 },
    WErr { dir: u8, kind: String },
    Read { dir: u8, data: Vec<u8>, buf: usize },
    Peek { dir: u8, data: Vec<u8>, buf: usize },
    Eof { dir: u8 },
    RErr { dir: u8, kind: String },
    ShutdownDone { dir: u8, ok: bool },
    ConnErr { kind: String },
    Aborted { side: u8 },
    StoppedReading { dir: u8 },
}

fn key(seed: u64, dir: u8) -> u64 {
    vcore::rng::mix(seed ^ (0xC02 + dir as u64))
}

trait Rd {
    async fn rd(&mut self, buf: &mut [u8]) -> std::io::Result<usize>;
    /// None = peek not available on this half
    async fn pk(&mut self, buf: &mut [u8]) -> Option<std::io::Result<usize>>;
}
impl Rd for turmoil::net::tcp::OwnedReadHalf {
    async fn rd(&mut self, buf: &mut [u8]) -> std::io::Result<usize> {
        self.read(buf).await
    }
    async fn pk(&mut self, buf: &mut [u8]) -> Option<std::io::Result<usize>> {
        Some(self.peek(buf).await)
    }
}
impl Rd for tokio::io::ReadHalf<TcpStream> {
    async fn rd(&mut self, buf: &mut [u8]) -> std::io::Result<usize> {
        self.read(buf).await
    }
    async fn pk(&mut self, _buf: &mut [u8]) -> Option<std::io::Result<usize>> {
        None
    }
}
impl Rd for TcpStream {
    async fn rd(&mut self, buf: &mut [u8]) -> std::io::Result<usize> {
        self.read(buf).await
    }
    async fn pk(&mut self, buf: &mut [u8]) -> Option<std::io::Result<usize>> {
        Some(self.peek(buf).await)
    }
}

/// Reads until EOF / error / abort point. Returns true when it stopped for abort.
async fn reader<R: Rd>(r: &mut R, ops: &[ROp], dir: u8, log: &Log<Ev>, abort_after: Option<usize>, stop_after_bytes: Option<u64>) -> bool {
    let mut i = 0usize;
    let mut nreads = 0usize;
    let mut total = 0u64;
    loop {
        if let Some(n) = stop_after_bytes {
            if total >= n {
                log.push(Ev::StoppedReading { dir });
                return false;
            }
        }
        if let Some(a) = abort_after {
            if nreads >= a {
                return true;
            }
        }
        let op = if ops.is_empty() { ROp::Read(64) } else { ops[i % ops.len()].clone() };
        i += 1;
        match op {
            ROp::Sleep(ms) => tokio::time::sleep(Duration::from_millis(ms)).await,
            ROp::Read(n) => {
                let mut buf = vec![0u8; n];
                nreads += 1;
                match r.rd(&mut buf).await {
                    Ok(0) if n > 0 => {
                        log.push(Ev::Eof { dir });
                        // after EOF: one more read must still say EOF
                        let mut b2 = [0u8; 8];
                        match r.rd(&mut b2).await {
                            Ok(0) => {}
                            Ok(k) => log.push(Ev::Read { dir, data: b2[..k].to_vec(), buf: 8 }),
                            Err(e) => log.push(Ev::RErr { dir, kind: format!("{:?}", e.kind()) }),
                        }
                        return false;
                    }
                    Ok(k) => {
                        total += k as u64;
                        log.push(Ev::Read { dir, data: buf[..k].to_vec(), buf: n })
                    }
                    Err(e) => {
                        log.push(Ev::RErr { dir, kind: format!("{:?}", e.kind()) });
                        return false;
                    }
                }
            }
            ROp::Peek(n) => {
                let mut buf = vec![0u8; n];
                match r.pk(&mut buf).await {
                    None => {}
                    Some(Ok(k)) => log.push(Ev::Peek { dir, data: buf[..k].to_vec(), buf: n }),
                    Some(Err(e)) => {
                        log.push(Ev::RErr { dir, kind: format!("{:?}", e.kind()) });
                        return false;
                    }
                }
            }
        }
    }
}

async fn writer<W: tokio::io::AsyncWrite + Unpin>(w: &mut W, ops: &[WOp], dir: u8, seed: u64, log: &Log<Ev>) -> bool {
    let k = key(seed, dir);
    let mut off = 0u64;
    for op in ops {
        match op {
            WOp::Sleep(ms) => tokio::time::sleep(Duration::from_millis(*ms)).await,
            WOp::Write(n) | WOp::Try(n) => {
                let data = keyed_bytes(k, off, *n);
                log.push(Ev::WIntent { dir, n: *n });
                match w.write(&data).await {
                    Ok(a) => {
                        log.push(Ev::WAccepted { dir, n: a });
                        off += a as u64;
                    }
                    Err(e) => {
                        log.push(Ev::WErr { dir, kind: format!("{:?}", e.kind()) });
                        return false;
                    }
                }
            }
            WOp::WriteAll(n) => {
                // write_all = loop of writes; log progress through a tracking loop
                let data = keyed_bytes(k, off, *n);
                let mut done = 0;
                while done < data.len() {
                    log.push(Ev::WIntent { dir, n: data.len() - done });
                    match w.write(&data[done..]).await {
                        Ok(0) => {
                            log.push(Ev::WErr { dir, kind: "WriteZero".into() });
                            return false;
                        }
                        Ok(a) => {
                            log.push(Ev::WAccepted { dir, n: a });
                            done += a;
                            off += a as u64;
                        }
                        Err(e) => {
                            log.push(Ev::WErr { dir, kind: format!("{:?}", e.kind()) });
                            return false;
                        }
                    }
                }
            }
        }
    }
    true
}

/// Whole-stream writer using try_write / writable.
async fn writer_try(s: &TcpStream, ops: &[WOp], dir: u8, seed: u64, log: &Log<Ev>) -> bool {
    let k = key(seed, dir);
    let mut off = 0u64;
    for op in ops {
        match op {
            WOp::Sleep(ms) => tokio::time::sleep(Duration::from_millis(*ms)).await,
            WOp::Write(n) | WOp::Try(n) | WOp::WriteAll(n) => {
                let data = keyed_bytes(k, off, *n);
                loop {
                    log.push(Ev::WIntent { dir, n: *n });
                    match s.try_write(&data) {
                        Ok(a) => {
                            log.push(Ev::WAccepted { dir, n: a });
                            off += a as u64;
                            break;
                        }
                        Err(e) if e.kind() == std::io::ErrorKind::WouldBlock => {
                            log.push(Ev::WouldBlock { dir });
                            if let Err(e) = s.writable().await {
                                log.push(Ev::WErr { dir, kind: format!("{:?}", e.kind()) });
                                return false;
                            }
                        }
                        Err(e) => {
                            log.push(Ev::WErr { dir, kind: format!("{:?}", e.kind()) });
                            return false;
                        }
                    }
                }
            }
        }
    }
    true
}

async fn drive_side(stream: TcpStream, side: Side, wdir: u8, seed: u64, log: Log<Ev>) {
    let rdir = 1 - wdir;
    match side.mode {
        Mode::Owned => {
            let (mut r, mut w) = stream.into_split();
            let l2 = log.clone();
            let wops = side.wops.clone();
            let close = side.close;
            let wt = tokio::task::spawn_local(async move {
                let ok = writer(&mut w, &wops, wdir, seed, &l2).await;
                if ok {
                    match close {
                        Close::Shutdown => {
                            let r = w.shutdown().await;
                            l2.push(Ev::ShutdownDone { dir: wdir, ok: r.is_ok() });
                            // keep the half alive until the task ends
                        }
                        Close::DropWriteHalf => {
                            l2.push(Ev::ShutdownDone { dir: wdir, ok: true });
                        }
                    }
                }
                drop(w);
            });
            if side.drop_read_first {
                log.push(Ev::StoppedReading { dir: rdir });
                drop(r);
                let _ = wt.await;
                return;
            }
            let aborted = reader(&mut r, &side.rops, rdir, &log, side.abort_after_reads, side.stop_after_bytes).await;
            if aborted {
                log.push(Ev::Aborted { side: wdir });
                wt.abort();
                drop(r);
                let _ = wt.await;
                return;
            }
            let _ = wt.await;
            drop(r);
        }
        Mode::IoSplit => {
            let (mut r, mut w) = tokio::io::split(stream);
            let l2 = log.clone();
            let l3 = log.clone();
            let wops = side.wops.clone();
            let rops = side.rops.clone();
            let stop_after = side.stop_after_bytes;
            let wf = async move {
                if writer(&mut w, &wops, wdir, seed, &l2).await {
                    let r = w.shutdown().await;
                    l2.push(Ev::ShutdownDone { dir: wdir, ok: r.is_ok() });
                }
                w
            };
            let rf = async move {
                reader(&mut r, &rops, rdir, &l3, None, stop_after).await;
                r
            };
            let (w, r) = tokio::join!(wf, rf);
            drop(r.unsplit(w));
        }
        Mode::Whole => {
            let mut stream = stream;
            if writer_try(&stream, &side.wops, wdir, seed, &log).await {
                let r = stream.shutdown().await;
                log.push(Ev::ShutdownDone { dir: wdir, ok: r.is_ok() });
            }
            let aborted = reader(&mut stream, &side.rops, rdir, &log, side.abort_after_reads, side.stop_after_bytes).await;
            if aborted {
                log.push(Ev::Aborted { side: wdir });
            }
            drop(stream);
        }
    }
}

fn gen_side(r: &mut Rng, allow_whole: bool, writes: bool) -> Side {
    let mode = match r.below(if allow_whole { 3 } else { 2 }) {
        0 => Mode::Owned,
        1 => Mode::IoSplit,
        _ => Mode::Whole,
    };
    let mut wops = vec![];
    if writes {
        for _ in 0..r.range(1, 14) {
            wops.push(match r.below(10) {
                0 => WOp::Sleep(r.range(1, 7)),
                1 => WOp::Write(0),
                2..=5 => WOp::Write(if r.chance(0.04) { r.pick_copy(&[65_537usize, 100_000, 200_001]) } else { r.pick_copy(&[1usize, 2, 7, 64, 1000]) }),
                6..=7 => WOp::WriteAll(r.pick_copy(&[1usize, 7, 64, 1000])),
                _ => WOp::Try(r.pick_copy(&[1usize, 2, 7, 64])),
            });
        }
    }
    let mut rops = vec![];
    for _ in 0..r.range(1, 6) {
        rops.push(match r.below(10) {
            0 => ROp::Sleep(r.range(1, 9)),
            1 => ROp::Read(0),
            2..=3 => ROp::Peek(r.pick_copy(&[0usize, 1, 3, 64])),
            _ => ROp::Read(r.pick_copy(&[1usize, 3, 64, 4096])),
        });
    }
    if !rops.iter().any(|o| matches!(o, ROp::Read(n) if *n > 0)) {
        rops.push(ROp::Read(r.pick_copy(&[1usize, 3, 64])));
    }
    Side {
        mode,
        wops,
        rops,
        close: if r.coin() { Close::Shutdown } else { Close::DropWriteHalf },
        abort_after_reads: None,
        stop_after_bytes: None,
        drop_read_first: false,
    }
}

fn gen(seed: u64) -> Scn {
    let mut r = Rng::new(seed);
    let tick_ms = r.pick_copy(&[1u64, 5]);
    let min_ms = r.pick_copy(&[0u64, 1, 3]);
    let max_ms = min_ms + r.pick_copy(&[0u64, 4, 12, 30]);
    let peer = match r.below(6) {
        0 => Peer::SameHostByAddr,
        1 => Peer::Loopback,
        _ => Peer::Remote,
    };
    // Whole mode writes everything before reading, so its peer must not write
    let whole_side = r.below(4); // 0: client whole, 1: server whole, else none
    let mut client = gen_side(&mut r, false, whole_side != 1);
    let mut server = gen_side(&mut r, false, whole_side != 0);
    if whole_side == 0 {
        client.mode = Mode::Whole;
    } else if whole_side == 1 {
        server.mode = Mode::Whole;
    }
    // very large single writes: keep one per side and let the peer read them in
    // large chunks (a 1-byte reader over 200 kB only costs time)
    for turn in 0..2 {
        let (w, rd) = if turn == 0 { (&mut client, &mut server) } else { (&mut server, &mut client) };
        let mut seen_big = false;
        for op in w.wops.iter_mut() {
            if let WOp::Write(n) = op {
                if *n > 65_536 {
                    if seen_big {
                        *n = 1000;
                    }
                    seen_big = true;
                }
            }
        }
        if seen_big {
            rd.rops = vec![ROp::Read(65_536), ROp::Peek(64), ROp::Read(4096)];
        }
    }
    let mut fault = Fault::None;
    if peer == Peer::Remote {
        match r.below(8) {
            0 => fault = Fault::HoldRelease(r.range(3, 15), r.range(1, 25)),
            1 => fault = Fault::PartitionRepair(r.range(3, 15), r.range(1, 25)),
            2 => {
                if r.coin() {
                    client.abort_after_reads = Some(r.range(0, 4) as usize)
                } else {
                    server.abort_after_reads = Some(r.range(0, 4) as usize)
                }
            }
            _ => {}
        }
    }
    if matches!(fault, Fault::None) && client.abort_after_reads.is_none() && server.abort_after_reads.is_none() && r.chance(0.3) {
        let total = |side: &Side| -> u64 { side.wops.iter().map(|o| match o { WOp::Write(n) | WOp::WriteAll(n) | WOp::Try(n) => *n as u64, _ => 0 }).sum() };
        if r.coin() {
            client.stop_after_bytes = Some(total(&server));
        } else {
            server.stop_after_bytes = Some(total(&client));
        }
    }
    // write-only side: its read half is dropped at once, the peer is a pure sink that only closes
    if matches!(fault, Fault::None) && client.abort_after_reads.is_none() && server.abort_after_reads.is_none() && client.stop_after_bytes.is_none() && server.stop_after_bytes.is_none() && r.chance(0.12) {
        if r.coin() {
            client.mode = Mode::Owned;
            client.drop_read_first = true;
            server.wops.clear();
        } else {
            server.mode = Mode::Owned;
            server.drop_read_first = true;
            client.wops.clear();
        }
    }
    if client.mode == Mode::IoSplit {
        client.abort_after_reads = None;
    }
    if server.mode == Mode::IoSplit {
        server.abort_after_reads = None;
    }
    Scn {
        tick_ms,
        min_ms,
        max_ms,
        cap: r.pick_copy(&[1usize, 2, 3, 8, 64]),
        v6: r.chance(0.25),
        peer,
        random_order: r.coin(),
        rng_seed: r.next_u64(),
        client,
        server,
        fault,
    }
}

fn segments(side: &Side) -> u64 {
    side.wops.iter().filter(|o| !matches!(o, WOp::Sleep(_))).count() as u64 + 1
}

fn sleeps(side: &Side) -> u64 {
    side.wops.iter().map(|o| if let WOp::Sleep(ms) = o { *ms } else { 0 }).sum::<u64>() + side.rops.iter().map(|o| if let ROp::Sleep(ms) = o { *ms } else { 0 }).sum::<u64>()
}

struct Exec {
    evs: Vec<(u64, Ev)>,
    result: Result<(), String>,
    overtakes: u64,
    steps: u64,
}

fn execute(s: &Scn) -> Exec {
    let big = s.client.wops.iter().chain(s.server.wops.iter()).any(|o| matches!(o, WOp::Write(n) if *n > 65_536));
    rec::with_recorder(!big, |h| {
        let log: Log<Ev> = Log::new();
        rec::set_step(0);
        // virtual-time bound, derived from the scripts with a 4x margin: a
        // reader makes progress of at least one byte per non-empty read of its
        // cycle; a writer needs at most one credit round trip per segment
        let fault_ms = match s.fault {
            Fault::HoldRelease(a, b) | Fault::PartitionRepair(a, b) => (a + b) * s.tick_ms,
            Fault::None => 0,
        };
        let bytes_of = |side: &Side| -> u64 { side.wops.iter().map(|o| match o { WOp::Write(n) | WOp::WriteAll(n) | WOp::Try(n) => *n as u64, _ => 0 }).sum() };
        let rtt = 2 * s.max_ms + 4 * s.tick_ms;
        let reader_ms = |side: &Side, incoming: u64, segs: u64| -> u64 {
            let k = side.rops.iter().filter(|o| matches!(o, ROp::Read(n) if *n > 0)).count().max(1) as u64;
            let sleep: u64 = side.rops.iter().map(|o| if let ROp::Sleep(ms) = o { *ms + s.tick_ms } else { 0 }).sum();
            (incoming / k + segs + 4) * (sleep + s.tick_ms) + segs * rtt
        };
        let writer_ms = |side: &Side| -> u64 { side.wops.iter().map(|o| if let WOp::Sleep(ms) = o { *ms + s.tick_ms } else { rtt }).sum::<u64>() + rtt };
        let bound_ms = 4 * (reader_ms(&s.client, bytes_of(&s.server), segments(&s.server)) + reader_ms(&s.server, bytes_of(&s.client), segments(&s.client)) + writer_ms(&s.client) + writer_ms(&s.server) + fault_ms + 50 * s.tick_ms) + 200;
        let mut b = turmoil::Builder::new();
        b.tick_duration(Duration::from_millis(s.tick_ms))
            .epoch(epoch(0))
            .rng_seed(s.rng_seed)
            .min_message_latency(Duration::from_millis(s.min_ms))
            .max_message_latency(Duration::from_millis(s.max_ms))
            .tcp_capacity(s.cap)
            .simulation_duration(Duration::from_millis(bound_ms));
        if s.random_order {
            b.enable_random_order();
        }
        if s.v6 {
            b.ip_version(turmoil::IpVersion::V6);
        }
        let mut sim = b.build();
        let any = if s.v6 { "::" } else { "0.0.0.0" };
        let seed = s.rng_seed;
        let server_side = s.server.clone();
        let client_side = s.client.clone();
        let peer = s.peer;
        let v6 = s.v6;
        let tick_ms = s.tick_ms;
        let lg = log.clone();
        let server_prog = {
            let lg = lg.clone();
            move || {
                let lg = lg.clone();
                let side = server_side.clone();
                async move {
                    let l = TcpListener::bind((any, 7000)).await?;
                    let (st, _) = l.accept().await?;
                    drive_side(st, side, 1, seed, lg).await;
                    Ok::<(), Box<dyn std::error::Error>>(())
                }
            }
        };
        let client_prog = {
            let lg = lg.clone();
            move |target: String| {
                let lg = lg.clone();
                let side = client_side.clone();
                async move {
                    // the listener binds in the first step
                    tokio::time::sleep(Duration::from_millis(2 * tick_ms)).await;
                    match TcpStream::connect((target.as_str(), 7000)).await {
                        Ok(st) => drive_side(st, side, 0, seed, lg).await,
                        Err(e) => lg.push(Ev::ConnErr { kind: format!("{:?}", e.kind()) }),
                    }
                    Ok::<(), Box<dyn std::error::Error>>(())
                }
            }
        };
        match peer {
            Peer::Remote => {
                sim.client("server", server_prog());
                sim.client("client", client_prog("server".to_string()));
            }
            Peer::SameHostByAddr | Peer::Loopback => {
                let target = if peer == Peer::Loopback { if v6 { "::1".to_string() } else { "127.0.0.1".to_string() } } else { "node".to_string() };
                let sp = server_prog();
                let cp = client_prog(target);
                sim.client("node", async move {
                    let h = tokio::task::spawn_local(sp);
                    cp.await?;
                    h.await.map_err(|e| e.to_string())??;
                    Ok(())
                });
            }
        }
        let mut result = Ok(());
        let mut steps = 0u64;
        loop {
            match &s.fault {
                Fault::HoldRelease(at, len) => {
                    if steps == *at {
                        sim.hold("client", "server");
                    }
                    if steps == at + len {
                        sim.release("client", "server");
                    }
                }
                Fault::PartitionRepair(at, len) => {
                    if steps == *at {
                        sim.partition("client", "server");
                    }
                    if steps == at + len {
                        sim.repair("client", "server");
                    }
                }
                Fault::None => {}
            }
            steps += 1;
            match util::step_catch(&mut sim) {
                Err(p) => {
                    result = Err(format!("panic: {p}"));
                    break;
                }
                Ok(Err(e)) => {
                    result = Err(e.to_string());
                    break;
                }
                Ok(Ok(true)) => break,
                Ok(Ok(false)) => {}
            }
        }
        drop(sim);
        // overtaking: order of Delivered payloads differs from order of Send payloads
        let tr = h.take();
        let mut overtakes = 0;
        for (a, bb) in [("client", "server"), ("server", "client")] {
            let _ = (a, bb);
        }
        let sends: Vec<&crate::rec::TraceEv> = tr.iter().filter(|e| e.msg == "Send" && e.protocol.starts_with("TCP [")).collect();
        let delivered: Vec<&crate::rec::TraceEv> = tr.iter().filter(|e| e.msg == "Delivered" && e.protocol.starts_with("TCP [")).collect();
        for dirsrc in sends.iter().map(|e| e.src.clone()).collect::<std::collections::BTreeSet<_>>() {
            let s1: Vec<&String> = sends.iter().filter(|e| e.src == dirsrc).map(|e| &e.protocol).collect();
            let d1: Vec<&String> = delivered.iter().filter(|e| e.src == dirsrc).map(|e| &e.protocol).collect();
            if d1.len() == s1.len() && d1 != s1 {
                overtakes += 1;
            }
        }
        Exec { evs: log.take(), result, overtakes, steps }
    })
}

fn check(s: &Scn, ex: &Exec, out: &mut ScenarioOut, tag: &str) {
    let desc = json!({"scenario": format!("{s:?}"), "tag": tag});
    let abortive = s.client.abort_after_reads.is_some() || s.server.abort_after_reads.is_some();
    let partition = matches!(s.fault, Fault::PartitionRepair(..));
    let healthy = !abortive && !partition;
    let shape = format!("peer={:?}|cap={}|fault={}", s.peer, s.cap, match s.fault { Fault::None => "none", Fault::HoldRelease(..) => "hold", Fault::PartitionRepair(..) => "partition" });
    for dir in 0u8..2 {
        let k = key(s.rng_seed, dir);
        let mut intent = 0u64;
        let mut accepted = 0u64;
        let mut pos = 0u64;
        let mut eof = false;
        let mut stopped = false;
        let mut rerr: Option<String> = None;
        for (step, e) in &ex.evs {
            match e {
                Ev::WIntent { dir: d, n } if *d == dir => intent = accepted + *n as u64,
                Ev::WAccepted { dir: d, n } if *d == dir => {
                    accepted += *n as u64;
                    out.count("writes_accepted", 1);
                    if *n > 65_536 {
                        out.count("writes_larger_than_64k", 1);
                    }
                    if *n == 0 {
                        out.count("zero_length_writes", 1);
                    }
                }
                Ev::WouldBlock { dir: d } if *d == dir => out.count("wouldblock_observed", 1),
                Ev::WErr { dir: d, kind } if *d == dir => {
                    out.count("write_errors", 1);
                    if healthy || !(kind == "BrokenPipe" || kind == "ConnectionReset") {
                        out.violate(
                            "write-error",
                            format!("C02|write-error|{kind}|{shape}|healthy={healthy}"),
                            format!("dir {dir}: write failed with {kind} in step {step} (healthy={healthy})"),
                            desc.clone(),
                        );
                    }
                }
                Ev::Read { dir: d, data, buf } if *d == dir => {
                    out.count("reads", 1);
                    if *buf == 0 || data.is_empty() {
                        out.count("empty_buffer_reads", 1);
                    }
                    if eof && !data.is_empty() {
                        out.violate("data-after-eof", format!("C02|data-after-eof|{shape}"), format!("dir {dir}: {} bytes read after EOF", data.len()), desc.clone());
                    }
                    let want = keyed_bytes(k, pos, data.len());
                    if pos + data.len() as u64 > intent.max(accepted) {
                        out.violate(
                            "read-beyond-written",
                            format!("C02|read-beyond-written|{shape}"),
                            format!("dir {dir}: read reaches offset {} but only {} bytes were written", pos + data.len() as u64, intent.max(accepted)),
                            desc.clone(),
                        );
                    } else if *data != want {
                        let first = data.iter().zip(want.iter()).position(|(a, b)| a != b).unwrap_or(0);
                        out.violate(
                            "stream-corrupted",
                            format!("C02|stream-corrupted|{shape}"),
                            format!("dir {dir}: read of {} bytes at offset {pos} differs from the written stream at offset {} (step {step})", data.len(), pos + first as u64),
                            desc.clone(),
                        );
                    }
                    pos += data.len() as u64;
                }
                Ev::Peek { dir: d, data, buf } if *d == dir => {
                    out.count("peeks", 1);
                    let want = keyed_bytes(k, pos, data.len());
                    if *data != want || pos + data.len() as u64 > intent.max(accepted) {
                        out.violate("peek-mismatch", format!("C02|peek-mismatch|{shape}"), format!("dir {dir}: peek of {} bytes at offset {pos} is not a prefix of the unread remainder", data.len()), desc.clone());
                    }
                    if data.is_empty() && *buf > 0 {
                        // peek reporting 0 on a non-empty buffer = EOF seen
                        out.count("peek_saw_eof", 1);
                    }
                }
                Ev::StoppedReading { dir: d } if *d == dir => {
                    stopped = true;
                    out.count("readers_stopped_before_eof", 1);
                }
                Ev::Eof { dir: d } if *d == dir => {
                    eof = true;
                    out.count("eof_observed", 1);
                }
                Ev::RErr { dir: d, kind } if *d == dir => {
                    rerr = Some(kind.clone());
                    out.count("read_errors", 1);
                    if healthy || !(kind == "ConnectionReset" || kind == "BrokenPipe") {
                        out.violate(
                            "read-error",
                            format!("C02|read-error|{kind}|{shape}|healthy={healthy}"),
                            format!("dir {dir}: read failed with {kind} in step {step} (healthy={healthy})"),
                            desc.clone(),
                        );
                    }
                }
                Ev::ConnErr { kind } if dir == 0 && !(partition && kind == "ConnectionRefused") => {
                    out.violate("connect-error", format!("C02|connect-error|{kind}|{shape}"), format!("connect failed with {kind}"), desc.clone());
                }
                _ => {}
            }
        }
        if eof && pos != accepted {
            out.violate(
                "eof-before-all-bytes",
                format!("C02|eof-before-all-bytes|{shape}"),
                format!("dir {dir}: EOF after {pos} bytes but {accepted} bytes were accepted"),
                desc.clone(),
            );
        }
        if healthy {
            if pos != accepted || (!eof && !stopped) {
                let class = if pos != accepted { "bytes-missing" } else { "eof-missing" };
                out.violate(
                    class,
                    format!("C02|{class}|{shape}"),
                    format!(
                        "dir {dir}: healthy link, graceful close: read {pos} of {accepted} accepted bytes, eof={eof}, read error {rerr:?}; run result {:?} after {} steps (tick {} ms, latency {}..{} ms, cap {})",
                        ex.result, ex.steps, s.tick_ms, s.min_ms, s.max_ms, s.cap
                    ),
                    desc.clone(),
                );
            }
        }
    }
    if healthy {
        if let Err(e) = &ex.result {
            let class = if e.starts_with("panic") { "panic" } else { "not-finished-in-bound" };
            out.violate(
                class,
                format!("C02|{class}|{shape}"),
                format!("healthy scenario did not complete: {e} after {} steps", ex.steps),
                desc.clone(),
            );
        }
    } else if let Err(e) = &ex.result {
        if e.starts_with("panic") {
            out.violate("panic", format!("C02|panic|{shape}"), format!("simulation panicked: {e}"), desc.clone());
        }
    }
}

fn scenario(s: Scn, tag: &str) -> ScenarioOut {
    let mut out = ScenarioOut::default();
    let ex = execute(&s);
    check(&s, &ex, &mut out, tag);
    out.count("segments_overtaken_directions", ex.overtakes);
    out.saw("peer", format!("{:?}", s.peer));
    out.saw("capacity", s.cap.to_string());
    out.saw("modes", format!("{:?}/{:?}", s.client.mode, s.server.mode));
    out.saw("fault", format!("{:?}", s.fault).split('(').next().unwrap().to_string());
    if s.v6 {
        out.count("ipv6_scenarios", 1);
    }
    let mut h = Fnv::new();
    h.write_str(tag);
    for (st, e) in &ex.evs {
        h.write_u64(*st);
        h.write_str(&format!("{e:?}"));
    }
    out.digest = h.finish();
    let wb = ex.evs.iter().any(|e| matches!(e.1, Ev::WouldBlock { .. }));
    out.nontrivial = ex.overtakes > 0 || wb || tag.starts_with("perm");
    out.sample = Some(json!({
        "tag": tag, "tick_ms": s.tick_ms, "latency_ms": [s.min_ms, s.max_ms], "capacity": s.cap, "peer": format!("{:?}", s.peer),
        "client": format!("{:?}", s.client), "server": format!("{:?}", s.server), "fault": format!("{:?}", s.fault),
        "result": format!("{:?}", ex.result), "steps": ex.steps,
        "log_excerpt": ex.evs.iter().take(10).map(|e| {
            let t = format!("{:?}", e.1);
            format!("step {}: {}", e.0, &t[..t.len().min(120)])
        }).collect::<Vec<_>>(),
    }));
    out
}

// ---------------------------------------------------------------------------
// Exhaustive delivery orders of a held transfer.

#[derive(Clone, Debug)]
struct Perm {
    nseg: usize,
    cap: usize,
    writer_is_client: bool,
    reader_idle: bool,
    order: Vec<usize>, // permutation of 0..=nseg (index nseg = FIN)
    seg_len: usize,
    rng_seed: u64,
}

fn perm_scenario(p: Perm) -> ScenarioOut {
    let mut out = ScenarioOut::default();
    let tag = format!("perm:n={} cap={} idle={} client_writes={} order={:?}", p.nseg, p.cap, p.reader_idle, p.writer_is_client, p.order);
    let desc = json!({"perm": format!("{p:?}")});
    let log: Log<Ev> = Log::new();
    rec::set_step(0);
    let mut b = turmoil::Builder::new();
    b.tick_duration(Duration::from_millis(1))
        .epoch(epoch(0))
        .rng_seed(p.rng_seed)
        .min_message_latency(Duration::from_millis(1))
        .max_message_latency(Duration::from_millis(1))
        .tcp_capacity(p.cap)
        .simulation_duration(Duration::from_secs(100));
    let mut sim = b.build();
    let seed = p.rng_seed;
    let wdir: u8 = if p.writer_is_client { 0 } else { 1 };
    let deliveries_done_ms = 12 + p.nseg as u64 + 1 + 4;
    let (nseg, seg_len, idle) = (p.nseg, p.seg_len, p.reader_idle);
    let mk = move |is_writer: bool, lg: Log<Ev>| {
        move |st: TcpStream| {
            let lg = lg.clone();
            async move {
                let (mut r, mut w) = st.into_split();
                if is_writer {
                    // write at t=10ms (link held since step 6)
                    let now = turmoil::elapsed().as_millis() as u64;
                    tokio::time::sleep(Duration::from_millis(10u64.saturating_sub(now))).await;
                    let ops: Vec<WOp> = (0..nseg).map(|_| WOp::Write(seg_len)).collect();
                    if writer(&mut w, &ops, wdir, seed, &lg).await {
                        let r2 = w.shutdown().await;
                        lg.push(Ev::ShutdownDone { dir: wdir, ok: r2.is_ok() });
                    }
                    // then read the peer's EOF
                    reader(&mut r, &[ROp::Read(64)], 1 - wdir, &lg, None, None).await;
                } else {
                    let _ = w.shutdown().await;
                    if idle {
                        let now = turmoil::elapsed().as_millis() as u64;
                        tokio::time::sleep(Duration::from_millis(deliveries_done_ms.saturating_sub(now))).await;
                    }
                    reader(&mut r, &[ROp::Read(3), ROp::Read(64)], wdir, &lg, None, None).await;
                }
                drop(w);
            }
        }
    };
    let srv = mk(!p.writer_is_client, log.clone());
    let cli = mk(p.writer_is_client, log.clone());
    sim.client("server", async move {
        let l = TcpListener::bind(("0.0.0.0", 7000)).await?;
        let (st, _) = l.accept().await?;
        srv(st).await;
        Ok(())
    });
    sim.client("client", async move {
        tokio::time::sleep(Duration::from_millis(2)).await;
        let st = TcpStream::connect(("server", 7000)).await?;
        cli(st).await;
        Ok(())
    });
    let mut result: Result<(), String> = Ok(());
    let mut delivered = 0usize;
    let mut listed_ok = true;
    for k in 0..400u64 {
        if k == 6 {
            sim.hold("client", "server");
        }
        // after the writer has written (t=10ms -> step 11), deliver one per step
        if k >= 12 && delivered < p.order.len() {
            let want = p.order[delivered];
            // find the held TCP segment with this index among writer->reader segments
            let mut found = false;
            sim.links(|links| {
                for link in links {
                    for sent in link {
                        let idx = match sent.protocol() {
                            turmoil::Protocol::Tcp(turmoil::Segment::Data(seq, _)) => Some(*seq as usize - 1),
                            turmoil::Protocol::Tcp(turmoil::Segment::Fin(seq)) => Some(*seq as usize - 1),
                            _ => None,
                        };
                        // the reader's own FIN (seq 1, opposite direction) was sent before the hold
                        if idx == Some(want) && !found {
                            let (src, _) = sent.pair();
                            let from_writer = (src.port() == 7000) != (wdir == 0);
                            if from_writer {
                                sent.deliver();
                                found = true;
                            }
                        }
                    }
                }
            });
            listed_ok &= found;
            delivered += 1;
        }
        if k == 12 + p.order.len() as u64 + 3 {
            sim.release("client", "server");
        }
        match util::step_catch(&mut sim) {
            Err(pn) => {
                result = Err(format!("panic: {pn}"));
                break;
            }
            Ok(Err(e)) => {
                result = Err(e.to_string());
                break;
            }
            Ok(Ok(true)) => break,
            Ok(Ok(false)) => {
                if k == 399 {
                    result = Err("not finished after 400 steps".into());
                }
            }
        }
    }
    drop(sim);
    let evs = log.take();
    if !listed_ok {
        out.violate("links-missing-segment", "C02|perm|links-missing-segment".into(), format!("{tag}: a held segment was not listed by Sim::links"), desc.clone());
    }
    let s = Scn {
        tick_ms: 1,
        min_ms: 1,
        max_ms: 1,
        cap: p.cap,
        v6: false,
        peer: Peer::Remote,
        random_order: false,
        rng_seed: p.rng_seed,
        client: Side { mode: Mode::Owned, wops: vec![], rops: vec![], close: Close::Shutdown, abort_after_reads: None, stop_after_bytes: None, drop_read_first: false },
        server: Side { mode: Mode::Owned, wops: vec![], rops: vec![], close: Close::Shutdown, abort_after_reads: None, stop_after_bytes: None, drop_read_first: false },
        fault: Fault::None,
    };
    let ex = Exec { evs, result, overtakes: 0, steps: 0 };
    check(&s, &ex, &mut out, &tag);
    // canonical signatures for the permutation space: class + (n, cap==n, idle)
    for v in out.violations.iter_mut() {
        v.signature = format!("C02|perm|{}|n={}|cap_eq_n={}|reader_idle={}", v.class, p.nseg, p.cap == p.nseg, p.reader_idle);
        v.witness = json!({"perm": {"nseg": p.nseg, "cap": p.cap, "writer_is_client": p.writer_is_client, "reader_idle": p.reader_idle, "order": p.order, "seg_len": p.seg_len, "rng_seed": p.rng_seed}});
    }
    let identity = p.order.windows(2).all(|w| w[0] < w[1]);
    out.count("permutations_executed", 1);
    if !identity {
        out.count("reordered_permutations", 1);
    }
    if p.cap == p.nseg && p.reader_idle {
        out.count("fin_arrives_while_queue_full_cases", 1);
    }
    let mut h = Fnv::new();
    h.write_str(&tag);
    out.digest = h.finish();
    out.nontrivial = !identity;
    out.sample = Some(json!({"tag": tag, "result": format!("{:?}", ex.result), "events": ex.evs.iter().take(8).map(|e| { let t = format!("{:?}", e.1); format!("step {}: {}", e.0, &t[..t.len().min(100)]) }).collect::<Vec<_>>() }));
    out
}

fn all_perms(n: usize) -> Vec<Vec<usize>> {
    let mut res = vec![];
    let mut a: Vec<usize> = (0..n).collect();
    fn rec_(k: usize, a: &mut Vec<usize>, res: &mut Vec<Vec<usize>>) {
        if k == a.len() {
            res.push(a.clone());
            return;
        }
        for i in k..a.len() {
            a.swap(k, i);
            rec_(k + 1, a, res);
            a.swap(k, i);
        }
    }
    rec_(0, &mut a, &mut res);
    res
}

fn perm_space(max_k: usize) -> Vec<Perm> {
    let mut v = vec![];
    for k in 2..=max_k {
        let nseg = k - 1;
        for order in all_perms(k) {
            for (cap, idle) in [(nseg, true), (nseg, false), (nseg + 3, true)] {
                for writer_is_client in [true, false] {
                    v.push(Perm { nseg, cap, writer_is_client, reader_idle: idle, order: order.clone(), seg_len: 5, rng_seed: 7 });
                }
            }
        }
    }
    v
}


/// Directed family: two successive connections of one client on the same address pair (a
/// one-port ephemeral range). The first is closed gracefully on both sides while its last
/// segments are still on the held link; the second is established by handing over only its SYN.
/// Whatever the second connection's reader reads must be a prefix of what was written on the
/// second connection.
fn successive_connections_scenario(seed: u64) -> ScenarioOut {
    use std::cell::Cell;
    use std::rc::Rc;
    let mut out = ScenarioOut::default();
    let mut r = Rng::new(seed);
    let tick_ms = r.pick_copy(&[1u64, 2]);
    let (min_ms, max_ms) = r.pick_copy(&[(1u64, 2u64), (1, 1), (0, 3)]);
    let old_len = r.range(1, 9) as usize;
    let new_len = r.range(1, 9) as usize;
    rec::set_step(0);
    let mut b = turmoil::Builder::new();
    b.tick_duration(Duration::from_millis(tick_ms))
        .epoch(epoch(0))
        .rng_seed(r.next_u64())
        .ephemeral_ports(49152..=49152)
        .min_message_latency(Duration::from_millis(min_ms))
        .max_message_latency(Duration::from_millis(max_ms))
        .simulation_duration(Duration::from_secs(1000));
    let mut sim = b.build();
    let phase = Rc::new(Cell::new(0u32));
    let server_read: Rc<std::cell::RefCell<Option<Result<Vec<u8>, String>>>> = Rc::new(std::cell::RefCell::new(None));
    let sr = server_read.clone();
    sim.host("server", move || {
        let sr = sr.clone();
        async move {
            let listener = TcpListener::bind("0.0.0.0:9000").await?;
            // connection 1: nothing to say, nothing received: a graceful close
            let (s1, _) = listener.accept().await?;
            drop(s1);
            // connection 2: read everything the peer writes on it
            let (mut s2, _) = listener.accept().await?;
            let mut got = Vec::new();
            let res = s2.read_to_end(&mut got).await;
            *sr.borrow_mut() = Some(res.map(|_| got).map_err(|e| format!("{:?}", e.kind())));
            std::future::pending::<()>().await;
            Ok(())
        }
    });
    let ph = phase.clone();
    let old: Vec<u8> = (0..old_len).map(|i| 0xA0 + i as u8).collect();
    let new: Vec<u8> = (0..new_len).map(|i| 0x10 + i as u8).collect();
    let (old2, new2) = (old.clone(), new.clone());
    sim.client("client", async move {
        let mut c1 = TcpStream::connect("server:9000").await?;
        tokio::time::sleep(Duration::from_millis(10)).await; // the server's FIN has arrived
        ph.set(1);
        while ph.get() != 2 {
            tokio::time::sleep(Duration::from_millis(1)).await;
        }
        // the link is held: write, then close (the only inbound item is a FIN: nothing unread)
        c1.write_all(&old2).await?;
        drop(c1);
        let mut c2 = TcpStream::connect("server:9000").await?;
        ph.set(3);
        while ph.get() != 4 {
            tokio::time::sleep(Duration::from_millis(1)).await;
        }
        c2.write_all(&new2).await?;
        c2.shutdown().await?;
        tokio::time::sleep(Duration::from_millis(50)).await;
        Ok(())
    });
    let desc = json!({"family": "successive-connections", "successive_seed": seed, "old": vcore::hex(&old), "new": vcore::hex(&new)});
    let mut guard = 0;
    let mut step = |sim: &mut turmoil::Sim<'_>| -> bool {
        guard += 1;
        guard < 2000 && matches!(util::step(sim), Ok(false))
    };
    while phase.get() != 1 {
        if !step(&mut sim) {
            out.discarded = Some("connection 1 was not established".into());
            return out;
        }
    }
    sim.hold("client", "server");
    phase.set(2);
    for _ in 0..(4 + 2 * max_ms / tick_ms) {
        step(&mut sim);
    }
    // hand over the second connection's SYN only: one admissible delivery order
    let mut n = 0;
    sim.links(|links| {
        for link in links {
            for sent in link {
                if matches!(sent.protocol(), turmoil::Protocol::Tcp(turmoil::Segment::Syn(_))) {
                    sent.deliver();
                    n += 1;
                }
            }
        }
    });
    out.count("successive_connection_syns_delivered_by_hand", n);
    while phase.get() != 3 {
        if !step(&mut sim) {
            out.discarded = Some("connection 2 was not established (refused?)".into());
            out.count("successive_connections_second_refused", 1);
            return out;
        }
    }
    sim.release("client", "server");
    phase.set(4);
    for _ in 0..(60 / tick_ms + 20) {
        if server_read.borrow().is_some() {
            break;
        }
        step(&mut sim);
    }
    let got = server_read.borrow().clone();
    drop(sim);
    out.count("successive_connection_scenarios", 1);
    match got {
        Some(Ok(bytes)) if bytes == new => out.count("second_connection_read_exactly_its_own_bytes", 1),
        Some(Ok(bytes)) if new.starts_with(&bytes) => out.count("second_connection_read_a_prefix", 1),
        Some(Err(kind)) => {
            // an error ends the stream early; nothing foreign was read
            out.count("second_connection_reset", 1);
            out.saw("second_connection_errors", kind);
        }
        other => out.violate(
            "stream-corrupted",
            "C02|stream-corrupted|segments-of-the-previous-connection-on-the-same-address-pair".into(),
            format!("second connection on the same address pair: {} was written on it, the reader read {:?} (the previous connection's last write was {})", vcore::hex(&new), other.map(|x| x.map(|b| vcore::hex(&b))), vcore::hex(&old)),
            desc.clone(),
        ),
    }
    out.digest = vcore::digest_str(&format!("succ{tick_ms}{min_ms}{max_ms}{old_len}{new_len}"));
    out.nontrivial = true;
    out.sample = Some(desc);
    out
}

pub fn run(ctx: &Ctx) -> ! {
    if ctx.replay.is_some() {
        let w = vcore::read_replay(ctx).expect("replay file");
        let report = if let Some(p) = w.get("perm") {
            let p = Perm {
                nseg: p["nseg"].as_u64().unwrap() as usize,
                cap: p["cap"].as_u64().unwrap() as usize,
                writer_is_client: p["writer_is_client"].as_bool().unwrap(),
                reader_idle: p["reader_idle"].as_bool().unwrap(),
                order: p["order"].as_array().unwrap().iter().map(|x| x.as_u64().unwrap() as usize).collect(),
                seg_len: p["seg_len"].as_u64().unwrap() as usize,
                rng_seed: p["rng_seed"].as_u64().unwrap(),
            };
            vcore::run_single(ctx, move |_| perm_scenario(p.clone()))
        } else if let Some(seed) = w.get("successive_seed").and_then(|x| x.as_u64()) {
            vcore::run_single(ctx, move |_| successive_connections_scenario(seed))
        } else {
            let seed = w["scenario_seed"].as_u64().unwrap_or(0);
            vcore::run_single(ctx, move |_| scenario(gen(seed), "random"))
        };
        vcore::finish(ctx, report, fin());
    }
    let space = perm_space(ctx.pick(4, 6));
    let nperm = space.len() as u64;
    let nrandom = ctx.pick(20_000u64, 300_000);
    let nsucc = ctx.pick(40u64, 600);
    let c2 = ctx.clone();
    let mut report = vcore::run_parallel(
        ctx,
        nperm + nrandom + nsucc,
        RunOpts { budget_s: ctx.pick(60.0, 700.0), scenario_timeout_s: 120.0 },
        move |idx| {
            if idx >= nperm + nrandom {
                let seed = c2.scenario_seed("c02succ", idx);
                return successive_connections_scenario(seed);
            }
            if idx < nperm {
                let mut p = space[idx as usize].clone();
                p.rng_seed = c2.scenario_seed("c02perm", 0);
                perm_scenario(p)
            } else {
                let seed = c2.scenario_seed("c02", idx);
                let mut out = scenario(gen(seed), "random");
                for v in out.violations.iter_mut() {
                    v.witness["scenario_seed"] = json!(seed);
                }
                out
            }
        },
    );
    report.extra.insert("delivery_order_space".into(), json!({"max_messages": ctx.pick(4, 6), "cases": nperm, "exhaustive": !report.budget_exhausted}));
    vcore::finish(ctx, report, fin());
}

fn fin() -> Finish<'static> {
    Finish {
        level: "exploration",
        rule: "random scenarios: write chunkings {0,1,2,7,64,1000, rarely 65537/100000/200001} via write/write_all/try_write+writable, read buffers {0,1,3,64,4096} with peeks, both directions, into_split / tokio::io::split / whole stream, tcp_capacity {1,2,3,8,64}, tick {1,5 ms}, latency ranges with min<max, remote / same-host / 127.0.0.1 peers, IPv4/IPv6, mid-stream hold/release, partition/repair and abortive drops (safety half only for the last two); plus every delivery permutation of the held data segments+FIN of a transfer (k<=4 quick, k<=6 thorough) x {capacity = #segments with idle or eager reader, larger capacity} x both directions via Sim::links; plus a directed family of two successive connections on one address pair (one-port ephemeral range) whose segments meet on a held link; non-trivial = a segment overtook another on the wire, or a writer saw WouldBlock, or a non-identity permutation; distinct = digest of the full API history",
        assumptions: vec![
            "pending SYNs never exceed tcp_capacity (documented panic)".into(),
            "delivery half only asserted for graceful closes on healthy (or held-then-released) links".into(),
        ],
        min_distinct: 100,
        required_counters: vec!["reordered_permutations", "fin_arrives_while_queue_full_cases", "segments_overtaken_directions", "wouldblock_observed", "peeks", "empty_buffer_reads", "eof_observed", "zero_length_writes", "ipv6_scenarios", "readers_stopped_before_eof", "writes_larger_than_64k", "successive_connection_scenarios"],
    }
}
