//! C01 — same seed, configuration and programs give the same execution.
//!
//! Trace-equality monitor: every scenario (seeded builder knobs, 1-5 hosts,
//! program families TCP / UDP incl. broadcast+multicast / tokio select-spawn-
//! timeout-interval / fs std+tokio shims incl. read_dir / io_uring batches /
//! crash-bounce-partition-hold controller scripts) is executed twice in this
//! process (second run on another OS thread) and twice in separate child
//! processes; the complete traces (every `turmoil` tracing event with payload
//! and virtual step, every value a program read, controller observations,
//! final result) must be identical.

use crate::rec::{self, Log};
use crate::util::{self, epoch};
use serde_json::json;
use std::cell::Cell;
use std::os::fd::AsRawFd;
use std::rc::Rc;
use std::os::unix::fs::FileExt;
use std::time::Duration;
use tokio::io::{AsyncReadExt, AsyncWriteExt};
use turmoil::fs::shim::std::fs as sfs;
use turmoil::fs::shim::tokio::fs as tfs;
use turmoil::io_uring::{opcode, types, AsyncFd, IoUring};
use turmoil::net::{TcpListener, TcpStream, UdpSocket};
use vcore::{Ctx, Finish, Fnv, Rng, RunOpts, ScenarioOut};

#[derive(Clone, Debug)]
struct Scn {
    seed: u64,
    tick_ms: u64,
    min_ms: u64,
    max_ms: u64,
    lambda10: u32,
    fail_rate: f64,
    repair_rate: f64,
    random_order: bool,
    v6: bool,
    tcp_cap: usize,
    udp_cap: usize,
    nhosts: usize,
    fam_tcp: bool,
    fam_udp: bool,
    fam_tokio: bool,
    fam_fs: bool,
    fam_uring: bool,
    fs_sync_p: f64,
    fs_ioerr_p: f64,
    fs_short_p: f64,
    fs_corrupt_p: f64,
    fs_latency: bool,
    fs_cache: bool,
    fs_block: u64, // 0 = no torn writes
    ctl: Vec<(u64, u8, usize, usize)>, // (after step, action code, host a, host b)
    steps: u64,
}

fn gen(seed: u64) -> Scn {
    let mut r = Rng::new(seed);
    let nhosts = r.range(1, 5) as usize;
    let min_ms = r.pick_copy(&[0u64, 0, 1, 5]);
    let steps = r.range(40, 140);
    let mut ctl = vec![];
    if nhosts >= 2 {
        let mut k = 0;
        for _ in 0..r.range(0, 6) {
            k += r.range(1, steps / 3);
            if k >= steps {
                break;
            }
            let a = r.usize_below(nhosts);
            let mut b = r.usize_below(nhosts);
            if a == b {
                b = (a + 1) % nhosts;
            }
            // 0 crash, 1 bounce, 2 partition, 3 repair, 4 hold, 5 release, 6 oneway
            ctl.push((k, r.below(7) as u8, a, b));
        }
    }
    let fams = r.below(32) as u32 | (1 << r.below(5));
    let faulty_fs = r.chance(0.4);
    Scn {
        seed,
        tick_ms: r.pick_copy(&[1u64, 2, 3, 5, 10]),
        min_ms,
        max_ms: min_ms + r.pick_copy(&[0u64, 3, 20, 100]),
        lambda10: r.pick_copy(&[5u32, 50, 500]),
        fail_rate: if r.chance(0.4) { r.pick_copy(&[0.01, 0.05, 0.3]) } else { 0.0 },
        repair_rate: r.pick_copy(&[0.1, 0.5, 1.0]),
        random_order: r.coin(),
        v6: r.chance(0.25),
        tcp_cap: r.pick_copy(&[1usize, 2, 8, 64]),
        udp_cap: r.pick_copy(&[1usize, 4, 64]),
        nhosts,
        fam_tcp: fams & 1 != 0,
        fam_udp: fams & 2 != 0,
        fam_tokio: fams & 4 != 0,
        fam_fs: fams & 8 != 0,
        fam_uring: fams & 16 != 0,
        fs_sync_p: if faulty_fs { r.pick_copy(&[0.0, 0.1, 0.5]) } else { 0.0 },
        fs_ioerr_p: if faulty_fs { r.pick_copy(&[0.0, 0.05, 0.3]) } else { 0.0 },
        fs_short_p: if faulty_fs { r.pick_copy(&[0.0, 0.3]) } else { 0.0 },
        fs_corrupt_p: if faulty_fs { r.pick_copy(&[0.0, 0.2]) } else { 0.0 },
        fs_latency: r.chance(0.4),
        fs_cache: r.chance(0.3),
        fs_block: r.pick_copy(&[0u64, 0, 16, 64, 512]),
        ctl,
        steps,
    }
}

fn hname(i: usize) -> String {
    format!("n{i}")
}

fn now() -> String {
    format!("{:?}/{:?}", turmoil::elapsed(), turmoil::sim_elapsed())
}

struct RingFd(std::os::fd::RawFd);
impl AsRawFd for RingFd {
    fn as_raw_fd(&self) -> std::os::fd::RawFd {
        self.0
    }
}

async fn fam_tcp(log: Log<String>, me: usize, s: Scn) {
    let any = if s.v6 { "::" } else { "0.0.0.0" };
    if let Ok(l) = TcpListener::bind((any, 7000)).await {
        let lg = log.clone();
        tokio::task::spawn_local(async move {
            loop {
                let Ok((st, peer)) = l.accept().await else { break };
                lg.push(format!("n{me} accept {peer} @{}", now()));
                let lg = lg.clone();
                tokio::task::spawn_local(async move {
                    let (mut r, mut w) = st.into_split();
                    let mut buf = [0u8; 37];
                    loop {
                        match r.read(&mut buf).await {
                            Ok(0) => {
                                lg.push(format!("n{me} srv eof {peer} @{}", now()));
                                break;
                            }
                            Ok(n) => {
                                lg.push(format!("n{me} srv read {peer} {} @{}", vcore::hex(&buf[..n]), now()));
                                if w.write_all(&buf[..n]).await.is_err() {
                                    break;
                                }
                            }
                            Err(e) => {
                                lg.push(format!("n{me} srv err {peer} {:?} @{}", e.kind(), now()));
                                break;
                            }
                        }
                    }
                });
            }
        });
    }
    tokio::time::sleep(Duration::from_millis(2 * s.tick_ms)).await;
    let mut r = Rng::new(s.seed ^ (me as u64 * 7919));
    for round in 0..3 {
        let dst = r.usize_below(s.nhosts);
        match TcpStream::connect((hname(dst), 7000)).await {
            Ok(mut st) => {
                log.push(format!("n{me} connected {:?}->{:?} @{}", st.local_addr().ok(), st.peer_addr().ok(), now()));
                for k in 0..r.range(1, 5) {
                    let data = vcore::rng::keyed_bytes(s.seed ^ me as u64, round * 100 + k, r.range(1, 90) as usize);
                    if st.write_all(&data).await.is_err() {
                        break;
                    }
                    let mut back = vec![0u8; data.len()];
                    match tokio::time::timeout(Duration::from_millis(300), st.read_exact(&mut back)).await {
                        Ok(Ok(_)) => log.push(format!("n{me} echo {} @{}", vcore::hex(&back), now())),
                        Ok(Err(e)) => {
                            log.push(format!("n{me} echo err {:?} @{}", e.kind(), now()));
                            break;
                        }
                        Err(_) => {
                            log.push(format!("n{me} echo timeout @{}", now()));
                            break;
                        }
                    }
                }
                let _ = st.shutdown().await;
            }
            Err(e) => log.push(format!("n{me} connect n{dst} err {:?} @{}", e.kind(), now())),
        }
        tokio::time::sleep(Duration::from_millis(r.range(1, 15))).await;
    }
}

async fn fam_udp(log: Log<String>, me: usize, s: Scn) {
    let any = if s.v6 { "::" } else { "0.0.0.0" };
    let Ok(sock) = UdpSocket::bind((any, 9000)).await else { return };
    let sock = std::rc::Rc::new(sock);
    let _ = sock.set_broadcast(true);
    let group: std::net::IpAddr = if s.v6 { "ff08::7".parse().unwrap() } else { "239.7.7.7".parse().unwrap() };
    match group {
        std::net::IpAddr::V4(g) => {
            let _ = sock.join_multicast_v4(g, std::net::Ipv4Addr::UNSPECIFIED);
        }
        std::net::IpAddr::V6(g) => {
            let _ = sock.join_multicast_v6(&g, 0);
        }
    }
    {
        let (sock, lg) = (sock.clone(), log.clone());
        tokio::task::spawn_local(async move {
            let mut b = [0u8; 20];
            loop {
                match sock.recv_from(&mut b).await {
                    Ok((n, from)) => lg.push(format!("n{me} udp {} from {from} @{}", vcore::hex(&b[..n]), now())),
                    Err(_) => break,
                }
            }
        });
    }
    tokio::time::sleep(Duration::from_millis(2 * s.tick_ms)).await;
    let mut r = Rng::new(s.seed ^ (me as u64 * 104729));
    for k in 0..r.range(3, 12) {
        let payload = vcore::rng::keyed_bytes(s.seed ^ (me as u64) << 8, k, r.range(1, 24) as usize);
        let res = match r.below(4) {
            0 if !s.v6 => sock.send_to(&payload, ("255.255.255.255", 9000)).await,
            1 => sock.send_to(&payload, (group, 9000)).await,
            _ => sock.send_to(&payload, (hname(r.usize_below(s.nhosts)), 9000)).await,
        };
        log.push(format!("n{me} udp send#{k} {:?}", res.map_err(|e| e.kind())));
        tokio::time::sleep(Duration::from_millis(r.range(0, 6))).await;
    }
}

async fn fam_tokio(log: Log<String>, me: usize, s: Scn) {
    let (tx, mut rx) = tokio::sync::mpsc::channel::<u32>(4);
    let (tx2, mut rx2) = tokio::sync::mpsc::channel::<u32>(4);
    for (i, t) in [tx, tx2].into_iter().enumerate() {
        let mut r = Rng::new(s.seed ^ (me as u64 * 31 + i as u64));
        tokio::task::spawn_local(async move {
            for k in 0..12u32 {
                tokio::time::sleep(Duration::from_millis(r.range(0, 4))).await;
                if t.send(k * 2 + i as u32).await.is_err() {
                    break;
                }
            }
        });
    }
    let mut iv = tokio::time::interval(Duration::from_millis(3));
    let mut branches = String::new();
    for _ in 0..40 {
        // all branches can be ready at once: the pick is tokio's seeded rng
        tokio::select! {
            Some(v) = rx.recv() => branches.push_str(&format!("a{v},")),
            Some(v) = rx2.recv() => branches.push_str(&format!("b{v},")),
            _ = iv.tick() => branches.push_str("t,"),
            _ = tokio::time::sleep(Duration::from_millis(2)) => branches.push_str("s,"),
        }
    }
    log.push(format!("n{me} select {branches} @{}", now()));
    let r = tokio::time::timeout(Duration::from_millis(5), std::future::pending::<()>()).await;
    log.push(format!("n{me} timeout {:?} @{}", r.is_err(), now()));
}

async fn fam_fs(log: Log<String>, me: usize, s: Scn) {
    let mut r = Rng::new(s.seed ^ (me as u64 * 15485863));
    // what survived an earlier incarnation (crash + bounce): torn writes, random syncs
    if let Ok(rd) = sfs::read_dir("/w/d") {
        let mut seen = vec![];
        for e in rd.filter_map(|e| e.ok()) {
            let name = e.file_name().to_string_lossy().to_string();
            let content = sfs::read(e.path()).map(|v| format!("{}:{:016x}", v.len(), vcore::digest_str(&vcore::hex(&v)))).unwrap_or_else(|e| format!("{:?}", e.kind()));
            seen.push(format!("{name}={content}"));
        }
        log.push(format!("n{me} survived {seen:?}"));
    }
    let _ = sfs::create_dir_all("/w/d");
    let _ = sfs::sync_dir("/w");
    let _ = sfs::sync_dir("/");
    for i in 0..r.range(8, 14) {
        let name = format!("/w/d/{}-{}", ["alpha", "beta", "gamma", "delta"][i as usize % 4], i * 37 % 11);
        let res = sfs::write(&name, vcore::rng::keyed_bytes(s.seed, i, r.range(1, 300) as usize));
        if res.is_err() {
            log.push(format!("n{me} fs write {name} {:?}", res.map_err(|e| e.kind())));
        }
        if r.chance(0.3) {
            if let Ok(f) = sfs::File::open(&name) {
                let _ = f.sync_all();
            }
        }
    }
    // timestamps are results too: they come from the simulated clock, never from the machine
    for name in ["/w", "/w/d", "/w/d/alpha-0", "/w/d/beta-4", "/w/d/gamma-8"] {
        if let Ok(m) = sfs::metadata(name) {
            let t = |x: std::io::Result<std::time::SystemTime>| x.ok().and_then(|t| t.duration_since(std::time::SystemTime::UNIX_EPOCH).ok());
            log.push(format!("n{me} stat {name} len {} created {:?} modified {:?} accessed {:?}", m.len(), t(m.created()), t(m.modified()), t(m.accessed())));
        }
    }
    let _ = sfs::create_dir("/w/d/sub");
    let _ = sfs::rename("/w/d/alpha-0", "/w/d/renamed");
    let _ = sfs::sync_dir("/w/d");
    match sfs::read_dir("/w/d") {
        Ok(rd) => {
            let names: Vec<String> = rd.filter_map(|e| e.ok()).map(|e| e.file_name().to_string_lossy().to_string()).collect();
            log.push(format!("n{me} read_dir {names:?}"));
        }
        Err(e) => log.push(format!("n{me} read_dir err {:?}", e.kind())),
    }
    // reads through the std shim (short reads / io errors / corruption are seeded)
    for k in 0..6 {
        let name = format!("/w/d/{}-{}", ["alpha", "beta", "gamma", "delta"][k % 4], (k as u64 * 37) % 11);
        match sfs::File::open(&name) {
            Ok(f) => {
                let mut buf = vec![0u8; 64];
                let res = f.read_at(&mut buf, r.range(0, 40));
                log.push(format!("n{me} read_at {name} {:?} {}", res.as_ref().map_err(|e| e.kind()), vcore::hex(&buf[..res.as_ref().copied().unwrap_or(0).min(64)])));
            }
            Err(e) => log.push(format!("n{me} open {name} {:?}", e.kind())),
        }
    }
    // tokio shim (latency + page cache are seeded)
    let res = tfs::write("/w/t1", b"tokio shim data").await;
    log.push(format!("n{me} tfs write {:?} @{}", res.map_err(|e| e.kind()), now()));
    let res = tfs::read("/w/t1").await;
    log.push(format!("n{me} tfs read {:?} @{}", res.map(|v| vcore::hex(&v)).map_err(|e| e.kind()), now()));
    if let Ok(rd) = tfs::read_dir("/w/d").await {
        let names: Vec<String> = rd.filter_map(|e| e.ok()).map(|e| e.file_name().to_string_lossy().to_string()).collect();
        log.push(format!("n{me} tfs read_dir {names:?} @{}", now()));
    }
}

async fn fam_uring(log: Log<String>, me: usize, s: Scn) {
    let mut r = Rng::new(s.seed ^ (me as u64 * 32452843));
    let _ = sfs::create_dir_all("/u");
    let Ok(file) = sfs::OpenOptions::new().read(true).write(true).create(true).open("/u/data") else { return };
    let fd = types::Fd(file.as_raw_fd());
    let Ok(mut ring) = IoUring::new(8) else { return };
    let Ok(afd) = AsyncFd::new(RingFd(ring.as_raw_fd())) else { return };
    for batch in 0..3u64 {
        let n = r.range(1, 6);
        // operation buffers are leaked on purpose: the task can be cancelled by a
        // crash while operations are pending, and C01 is not about buffer lifetimes
        let bufs: &'static mut Vec<Vec<u8>> = Box::leak(Box::new((0..n).map(|i| vcore::rng::keyed_bytes(s.seed ^ batch, i, r.range(1, 100) as usize)).collect()));
        let rbufs: &'static mut Vec<Vec<u8>> = Box::leak(Box::new((0..n).map(|_| vec![0u8; 50]).collect()));
        for i in 0..n as usize {
            let e = match r.below(3) {
                0 => opcode::Read::new(fd, rbufs[i].as_mut_ptr(), 50).offset(r.range(0, 60)).build(),
                1 => opcode::Fsync::new(fd).build(),
                _ => opcode::Write::new(fd, bufs[i].as_ptr(), bufs[i].len() as u32).offset(r.range(0, 80)).build(),
            }
            .user_data(batch * 100 + i as u64);
            let pushed = unsafe { ring.submission().push(&e).is_ok() };
            if !pushed {
                log.push(format!("n{me} uring push full"));
            }
        }
        let sub = ring.submit();
        log.push(format!("n{me} uring submit {:?} @{}", sub.map_err(|e| e.kind()), now()));
        let mut got = 0;
        let mut spins = 0;
        while got < n && spins < 200 {
            let cqes: Vec<(u64, i32)> = {
                let mut cq = ring.completion();
                cq.sync();
                let mut v = vec![];
                while let Some(c) = cq.next() {
                    v.push((c.user_data(), c.result()));
                }
                v
            };
            if cqes.is_empty() {
                spins += 1;
                if tokio::time::timeout(Duration::from_millis(50), afd.readable()).await.is_err() {
                    continue;
                }
            }
            for (ud, res) in cqes {
                got += 1;
                log.push(format!("n{me} uring cqe {ud} {res} @{}", now()));
            }
        }
    }
    drop(file);
}

/// Logs the host's clocks when it is dropped: destructors run by `Sim::crash` / `Sim::bounce`
/// observe virtual time only.
struct ClockOnDrop(Log<String>, usize, tokio::time::Instant);
impl Drop for ClockOnDrop {
    fn drop(&mut self) {
        // only inside a host context (a Sim that is dropped tears its hosts down outside of one)
        if let Some(se) = turmoil::sim_elapsed() {
            // turmoil's clocks and tokio's own clock (time since this incarnation started)
            self.0.push(format!("n{} dropped: sim_elapsed {:?} since_epoch {:?} tokio {:?}", self.1, se, turmoil::since_epoch(), self.2.elapsed()));
        }
    }
}

fn host_program(log: Log<String>, me: usize, s: Scn, restarts: Rc<Cell<u32>>) -> impl std::future::Future<Output = turmoil::Result> + 'static {
    // the software factory runs at registration and again at every bounce; from the second run
    // on the host has a clock, and reading it here must give virtual time
    let n = restarts.get();
    restarts.set(n + 1);
    if n > 0 {
        log.push(format!("n{me} restart #{n}: sim_elapsed {:?} since_epoch {:?}", turmoil::sim_elapsed(), turmoil::since_epoch()));
    }
    async move {
        let _clock_on_drop = ClockOnDrop(log.clone(), me, tokio::time::Instant::now());
        let mut hs = vec![];
        if s.fam_tcp {
            hs.push(tokio::task::spawn_local(fam_tcp(log.clone(), me, s.clone())));
        }
        if s.fam_udp {
            hs.push(tokio::task::spawn_local(fam_udp(log.clone(), me, s.clone())));
        }
        if s.fam_tokio {
            hs.push(tokio::task::spawn_local(fam_tokio(log.clone(), me, s.clone())));
        }
        if s.fam_fs {
            hs.push(tokio::task::spawn_local(fam_fs(log.clone(), me, s.clone())));
        }
        if s.fam_uring {
            hs.push(tokio::task::spawn_local(fam_uring(log.clone(), me, s.clone())));
        }
        for h in hs {
            let _ = h.await;
        }
        log.push(format!("n{me} done @{}", now()));
        std::future::pending::<()>().await;
        Ok(())
    }
}

/// Execute the scenario once and return the complete trace.
pub fn run_trace(seed: u64) -> Vec<String> {
    let mut s = gen(seed);
    if let Ok(m) = std::env::var("VERIF_C01_FAMS") {
        let m: u32 = m.parse().unwrap_or(31);
        s.fam_tcp &= m & 1 != 0;
        s.fam_udp &= m & 2 != 0;
        s.fam_tokio &= m & 4 != 0;
        s.fam_fs &= m & 8 != 0;
        s.fam_uring &= m & 16 != 0;
        if m & 32 != 0 {
            s.fs_latency = false;
        }
        if m & 64 != 0 {
            s.fs_cache = false;
        }
        if m & 128 != 0 {
            s.nhosts = 1;
            s.ctl.clear();
        }
    }
    rec::with_recorder(true, |h| {
        let log: Log<String> = Log::new();
        rec::set_step(0);
        let mut b = turmoil::Builder::new();
        b.tick_duration(Duration::from_millis(s.tick_ms))
            // one scenario in eight starts the clock at exactly UNIX_EPOCH (simulated time zero)
            .epoch(if s.seed % 8 == 5 { std::time::SystemTime::UNIX_EPOCH } else { epoch(s.seed % 1000) })
            .rng_seed(s.seed)
            .min_message_latency(Duration::from_millis(s.min_ms))
            .max_message_latency(Duration::from_millis(s.max_ms))
            .fail_rate(s.fail_rate)
            .repair_rate(s.repair_rate)
            .tcp_capacity(s.tcp_cap)
            .udp_capacity(s.udp_cap)
            .simulation_duration(Duration::from_secs(100_000));
        if s.random_order {
            b.enable_random_order();
        }
        if s.v6 {
            b.ip_version(turmoil::IpVersion::V6);
        }
        {
            let f = b.fs();
            f.sync_probability(s.fs_sync_p).io_error_probability(s.fs_ioerr_p).short_read_probability(s.fs_short_p).corruption_probability(s.fs_corrupt_p);
            if s.fs_latency {
                f.io_latency().min_latency(Duration::from_micros(200)).max_latency(Duration::from_millis(4));
            }
            if s.fs_cache {
                f.page_cache().max_pages(4).random_eviction_probability(0.2);
            }
            if s.fs_block > 0 {
                f.block_size(s.fs_block);
            }
        }
        let mut sim = b.build();
        sim.set_message_latency_curve(s.lambda10 as f64 / 10.0);
        for i in 0..s.nhosts {
            let (log, sc) = (log.clone(), s.clone());
            let restarts = Rc::new(Cell::new(0u32));
            sim.host(hname(i), move || host_program(log.clone(), i, sc.clone(), restarts.clone()));
        }
        let mut down = vec![false; s.nhosts];
        for k in 0..s.steps {
            for (at, code, a, bb) in &s.ctl {
                if *at == k {
                    match code {
                        0 => {
                            if !down[*a] {
                                sim.crash(hname(*a));
                                down[*a] = true;
                            }
                        }
                        1 => {
                            sim.bounce(hname(*a));
                            down[*a] = false;
                        }
                        2 => sim.partition(hname(*a), hname(*bb)),
                        3 => sim.repair(hname(*a), hname(*bb)),
                        4 => sim.hold(hname(*a), hname(*bb)),
                        5 => sim.release(hname(*a), hname(*bb)),
                        _ => sim.partition_oneway(hname(*a), hname(*bb)),
                    }
                    log.push(format!("ctl after step {k}: code {code} {a} {bb}"));
                }
            }
            let r = util::step_catch(&mut sim);
            let r = match r {
                Ok(Ok(f)) => format!("ok {f}"),
                Ok(Err(e)) => format!("err {e}"),
                Err(p) => format!("panic {p}"),
            };
            let mut links = String::new();
            if k % 7 == 0 {
                sim.links(|ls| {
                    for l in ls {
                        let pair = l.pair();
                        let msgs: Vec<String> = l.map(|m| format!("{:?}:{}", m.pair(), m.protocol())).collect();
                        if !msgs.is_empty() {
                            links.push_str(&format!("{pair:?}={msgs:?};"));
                        }
                    }
                });
            }
            log.push(format!("step {} -> {r} elapsed {:?} epoch {:?} links {links}", k + 1, sim.elapsed(), sim.since_epoch()));
            if r.starts_with("panic") {
                break;
            }
        }
        drop(sim);
        // merge the program/controller log and the wire trace by sequence number
        let mut lines: Vec<(u64, String)> = log.take_seq().into_iter().map(|(q, st, l)| (q, format!("L|{st}|{l}"))).collect();
        lines.extend(h.take().into_iter().map(|t| (t.seq, format!("T|{}", t.line()))));
        lines.sort_by_key(|x| x.0);
        lines.into_iter().map(|x| x.1).collect()
    })
}

fn digest(lines: &[String]) -> u64 {
    let mut h = Fnv::new();
    for l in lines {
        h.write_str(l);
    }
    h.finish()
}

/// `simnet C01 --child <seed>...` prints `<seed> <digest> <nlines>` per seed;
/// `--dump <seed>` prints the whole trace.
fn child_main(ctx: &Ctx) -> ! {
    let mut i = 0;
    while i < ctx.rest.len() {
        match ctx.rest[i].as_str() {
            "--child" => {}
            "--dump" => {
                i += 1;
                let seed: u64 = ctx.rest[i].parse().unwrap_or(0);
                for l in run_trace(seed) {
                    println!("{l}");
                }
                std::process::exit(0);
            }
            x => {
                if let Ok(seed) = x.parse::<u64>() {
                    // run on a fresh thread like the parent does
                    let t = std::thread::Builder::new().stack_size(16 << 20).spawn(move || run_trace(seed)).unwrap();
                    match t.join() {
                        Ok(lines) => println!("{seed} {} {}", digest(&lines), lines.len()),
                        Err(_) => println!("{seed} PANIC 0"),
                    }
                }
            }
        }
        i += 1;
    }
    std::process::exit(0)
}

fn run_children(seeds: &[u64], pad: usize) -> Result<std::collections::BTreeMap<u64, (String, u64)>, String> {
    let exe = std::env::current_exe().map_err(|e| e.to_string())?;
    let mut out = std::collections::BTreeMap::new();
    for chunk in seeds.chunks(64) {
        let mut cmd = std::process::Command::new(&exe);
        cmd.arg("C01").arg("--child");
        for s in chunk {
            cmd.arg(s.to_string());
        }
        // a different environment size shifts the child's stack and heap layout
        cmd.env("VERIF_PAD", "x".repeat(pad));
        let o = cmd.output().map_err(|e| e.to_string())?;
        if !o.status.success() {
            return Err(format!("child exited with {:?}: {}", o.status.code(), String::from_utf8_lossy(&o.stderr).chars().take(300).collect::<String>()));
        }
        for l in String::from_utf8_lossy(&o.stdout).lines() {
            let p: Vec<&str> = l.split(' ').collect();
            if p.len() == 3 {
                if let Ok(seed) = p[0].parse::<u64>() {
                    out.insert(seed, (p[1].to_string(), p[2].parse().unwrap_or(0)));
                }
            }
        }
    }
    Ok(out)
}

pub fn run(ctx: &Ctx) -> ! {
    if ctx.rest.iter().any(|a| a == "--child" || a == "--dump") {
        child_main(ctx);
    }
    let n = ctx.pick(3000u64, 60_000);
    let seeds: Vec<u64> = if ctx.replay.is_some() {
        let w = vcore::read_replay(ctx).expect("replay file");
        vec![w["scenario_seed"].as_u64().unwrap_or(0)]
    } else {
        (0..n).map(|i| ctx.scenario_seed("c01", i)).collect()
    };
    // phase 1: in-process, two executions on two different OS threads
    let seeds2 = seeds.clone();
    let mut c1 = ctx.clone();
    c1.replay = None;
    let mut report = vcore::run_parallel(
        &c1,
        seeds.len() as u64,
        RunOpts { budget_s: ctx.pick(45.0, 500.0), scenario_timeout_s: 120.0 },
        move |idx| {
            let seed = seeds2[idx as usize];
            let mut out = ScenarioOut::default();
            let a = run_trace(seed);
            if std::env::var("VERIF_DUMP_SEED").ok().and_then(|x| x.parse::<u64>().ok()) == Some(seed) {
                let _ = std::fs::write(format!("/tmp/c01-parent-{seed}.txt"), a.join("\n"));
            }
            let b = std::thread::Builder::new().stack_size(16 << 20).spawn(move || run_trace(seed)).unwrap().join().unwrap_or_default();
            let s = gen(seed);
            let desc = json!({"scenario_seed": seed, "scenario": format!("{s:?}")});
            // a second execution on the SAME thread: state that outlives a Sim in a
            // thread-local must not influence the next simulation on that thread
            let a2 = run_trace(seed);
            if a2 != a {
                let i = a.iter().zip(a2.iter()).position(|(x, y)| x != y).unwrap_or(a.len().min(a2.len()));
                let site = a.get(i).map(|l| l.split(' ').take(3).collect::<Vec<_>>().join(" ")).unwrap_or_default();
                let fam = if site.contains("uring") { "io_uring" } else if site.contains("select") { "select" } else if site.starts_with("T|") { "wire" } else { "program" };
                out.violate(
                    "same-thread-rerun-divergence",
                    format!("C01|same-thread-rerun-divergence|{fam}"),
                    format!("re-running the scenario on the same OS thread differs at trace line {i}: {:?} vs {:?}", a.get(i).map(|l| &l[..l.len().min(200)]), a2.get(i).map(|l| &l[..l.len().min(200)])),
                    json!({"scenario_seed": seed, "scenario": format!("{:?}", gen(seed))}),
                );
            }
            out.count("same_thread_reruns", 1);
            if a != b {
                let i = a.iter().zip(b.iter()).position(|(x, y)| x != y).unwrap_or(a.len().min(b.len()));
                let site = a.get(i).map(|l| l.split(' ').take(3).collect::<Vec<_>>().join(" ")).unwrap_or_default();
                let fam = if site.contains("read_dir") { "read_dir" } else if site.contains("uring") { "io_uring" } else if site.contains("select") { "select" } else if site.starts_with("T|") { "wire" } else { "program" };
                out.violate(
                    "in-process-divergence",
                    format!("C01|in-process-divergence|{fam}"),
                    format!("two executions in one process differ at trace line {i}: {:?} vs {:?}", a.get(i).map(|l| &l[..l.len().min(200)]), b.get(i).map(|l| &l[..l.len().min(200)])),
                    desc.clone(),
                );
            }
            out.count("trace_lines", a.len() as u64);
            out.count("wire_events", a.iter().filter(|l| l.starts_with("T|")).count() as u64);
            out.count("read_dir_observations", a.iter().filter(|l| l.contains("read_dir [")).count() as u64);
            out.count("select_observations", a.iter().filter(|l| l.contains(" select ")).count() as u64);
            out.count("io_uring_completions", a.iter().filter(|l| l.contains("uring cqe")).count() as u64);
            out.count("broadcast_or_multicast_receipts", a.iter().filter(|l| l.contains(" udp ") && l.contains(" from ")).count() as u64);
            out.count("controller_actions", a.iter().filter(|l| l.contains("ctl after step")).count() as u64);
            out.count("post_crash_fs_readbacks", a.iter().filter(|l| l.contains(" survived [\"")).count() as u64);
            if s.fail_rate > 0.0 {
                out.count("scenarios_with_random_link_failures", 1);
            }
            if s.random_order {
                out.count("scenarios_with_random_order", 1);
            }
            if s.fs_sync_p + s.fs_ioerr_p + s.fs_short_p + s.fs_corrupt_p > 0.0 {
                out.count("scenarios_with_fs_fault_knobs", 1);
            }
            out.saw("families", format!("tcp={} udp={} tokio={} fs={} uring={}", s.fam_tcp, s.fam_udp, s.fam_tokio, s.fam_fs, s.fam_uring));
            out.digest = digest(&a);
            let net = a.iter().filter(|l| l.starts_with("T|")).count();
            let fsev = a.iter().filter(|l| l.contains(" fs ") || l.contains("read_dir") || l.contains("uring") || l.contains("tfs")).count();
            let knob = s.fail_rate > 0.0 || s.random_order || s.min_ms != s.max_ms || s.fs_sync_p + s.fs_ioerr_p + s.fs_short_p + s.fs_corrupt_p > 0.0 || s.fs_latency;
            out.nontrivial = (net >= 50 || fsev >= 20) && knob;
            out.sample = Some(json!({"scenario": format!("{s:?}"), "trace_lines": a.len(), "digest": format!("{:016x}", out.digest), "excerpt": a.iter().skip(a.len() / 2).take(5).map(|l| l[..l.len().min(160)].to_string()).collect::<Vec<_>>()}));
            // remember the digest for the cross-process comparison
            out.saw("digests", format!("{seed} {} {}", out.digest, a.len()));
            out
        },
    );
    // phase 2: two fresh processes (different environment sizes)
    let done: Vec<(u64, String, u64)> = report
        .seen
        .remove("digests")
        .unwrap_or_default()
        .into_iter()
        .filter_map(|l| {
            let p: Vec<&str> = l.split(' ').collect();
            Some((p[0].parse().ok()?, p[1].to_string(), p[2].parse().ok()?))
        })
        .collect();
    let child_seeds: Vec<u64> = done.iter().map(|d| d.0).collect();
    let mut child_runs = 0u64;
    for (ci, pad) in [(1, 7usize), (2, 4099)] {
        // split across workers by running several child processes in parallel
        let chunks: Vec<Vec<u64>> = child_seeds.chunks(child_seeds.len().div_ceil(ctx.threads.max(1)).max(1)).map(|c| c.to_vec()).collect();
        let handles: Vec<_> = chunks.into_iter().map(|c| std::thread::spawn(move || run_children(&c, pad))).collect();
        for hd in handles {
            match hd.join().unwrap_or_else(|_| Err("child runner panicked".into())) {
                Err(e) => report.harness_errors.push(format!("child process {ci}: {e}")),
                Ok(map) => {
                    for (seed, dg, n) in &done {
                        if let Some((cd, cn)) = map.get(seed) {
                            child_runs += 1;
                            if cd != dg || cn != n {
                                let s = gen(*seed);
                                let v = vcore::Violation {
                                    class: "cross-process-divergence".into(),
                                    signature: format!("C01|cross-process-divergence|fs={} uring={} udp={} tokio={} tcp={}", s.fam_fs, s.fam_uring, s.fam_udp, s.fam_tokio, s.fam_tcp),
                                    what: format!("scenario seed {seed}: trace digest {dg} ({n} lines) in this process but {cd} ({cn} lines) in fresh process #{ci}; re-run `simnet C01 --dump {seed}` twice and diff"),
                                    witness: json!({"scenario_seed": seed, "scenario": format!("{s:?}")}),
                                };
                                report.violation_count += 1;
                                report.violations.entry(v.signature.clone()).or_insert(v);
                            }
                        }
                    }
                }
            }
        }
    }
    report.extra.insert("executions_per_scenario".into(), json!(5));
    report.extra.insert("child_process_executions_compared".into(), json!(child_runs));
    if child_runs == 0 {
        report.harness_errors.push("no child process execution could be compared".into());
    }
    vcore::finish(ctx, report, fin());
}

fn fin() -> Finish<'static> {
    Finish {
        level: "exploration",
        rule: "seeded scenarios: builder knobs (tick, latency range + curve, fail/repair rate, random order, capacities, ip version, epoch, fs sync / io-error / short-read / corruption probabilities, fs latency, page cache), 1-5 hosts each running a seeded mix of program families (TCP echo with split halves, UDP unicast+broadcast+multicast, tokio select/spawn/timeout/interval, fs std+tokio shims with read_dir over >=8 entries, io_uring batches), controller script with crash/bounce/partition/one-way/hold/release; each scenario executed 3x in-process (twice on one OS thread, once on another) + 2x in fresh child processes with different environment sizes; complete traces compared; non-trivial = >=50 wire events or >=20 fs/io_uring events and at least one random knob active; distinct = trace digest",
        assumptions: vec![
            "Builder::epoch and Builder::rng_seed are always set (their defaults are wall clock / OS entropy by design)".into(),
            "the harness's own programs are deterministic functions of the scenario seed".into(),
        ],
        min_distinct: 50,
        required_counters: vec!["wire_events", "read_dir_observations", "select_observations", "io_uring_completions", "broadcast_or_multicast_receipts", "controller_actions", "scenarios_with_random_link_failures", "scenarios_with_fs_fault_knobs"],
    }
}
