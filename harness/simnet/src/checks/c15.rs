//! C15 — ports and simulated addresses are never handed out twice while in use.
//!
//! Part 1 (ports): a host with an ephemeral range of 3..8 ports executes a
//! history of bind / listen / connect (ok, refused, cancelled) / drop / crash
//! operations; an allocation model (udp_bound, tcp_listening, stream ports)
//! decides every result. Part 2 (DNS): random orders of registering and looking
//! up hundreds of names by name, literal address and regex, IPv4 and IPv6.

use crate::rec::{self, Log};
use crate::util::{self, epoch};
use serde_json::json;
use std::cell::{Cell, RefCell};
use std::collections::{BTreeMap, BTreeSet};
use std::rc::Rc;
use std::time::Duration;
use tokio::io::AsyncReadExt;
use turmoil::net::{TcpListener, TcpStream, UdpSocket};
use vcore::{Ctx, Finish, Fnv, Rng, RunOpts, ScenarioOut};

#[derive(Clone, Debug)]
enum Op {
    /// (port, bind to localhost instead of the wildcard address)
    UdpBind(u16, bool),
    TcpListen(u16, bool),
    ConnectOk,
    ConnectRefused,
    ConnectNoHost,
    ConnectCancelled,
    /// let the peer connect to the n-th live listener of this host and accept it
    /// (the accepted stream's local port is the listener's port)
    Accept(usize),
    /// drop the n-th live socket (index modulo number of live sockets)
    Drop(usize),
    Crash,
}

#[derive(Clone, Debug)]
struct Scn {
    lo: u16,
    hi: u16,
    tick_ms: u64,
    lat_ms: u64,
    v6: bool,
    rng_seed: u64,
    ops: Vec<Op>,
}

#[derive(Clone, Debug)]
enum Res {
    Port(u16),
    Err(String),
    Cancelled,
    Dropped(String, u16), // (kind, port)
    Nothing,
}

#[derive(Clone, Debug)]
enum Ev {
    Op { i: usize, res: Res },
    Crashed { after_op: usize },
}

enum Sock {
    Udp(UdpSocket, u16),
    Lis(TcpListener, u16),
    Str(TcpStream, u16),
    /// accepted stream (local port = the listener's port)
    Acc(TcpStream, u16),
}

fn gen(seed: u64) -> Scn {
    let mut r = Rng::new(seed);
    let lo = 50_000u16 + r.range(0, 100) as u16;
    let width = r.range(3, 8) as u16;
    let hi = lo + width - 1;
    let n = r.range(20, 200) as usize;
    // the generator tracks an upper bound of ports in use so the documented
    // "ports exhausted" panic is never provoked while the model has no free port
    let mut live: Vec<(bool, u16)> = vec![]; // (is_ephemeral_range_user, port or 0 when unknown)
    let mut ops = vec![];
    for _ in 0..n {
        let eph_used = live.iter().filter(|x| x.0).count() as u16;
        let room = eph_used + 1 < width; // keep one port spare
        let fixed = |r: &mut Rng| -> u16 {
            if r.chance(0.6) {
                lo + r.range(0, width as u64 - 1) as u16
            } else {
                r.pick_copy(&[9000u16, 9001, 9002])
            }
        };
        let op = match r.below(20) {
            0..=2 if room => Op::UdpBind(0, r.chance(0.3)),
            3..=4 => Op::UdpBind(fixed(&mut r), r.chance(0.4)),
            5..=6 if room => Op::TcpListen(0, r.chance(0.3)),
            7..=8 => Op::TcpListen(fixed(&mut r), r.chance(0.4)),
            9..=11 if room => Op::ConnectOk,
            12 if room => Op::ConnectRefused,
            13 if room => Op::ConnectNoHost,
            14 if room => Op::ConnectCancelled,
            15..=16 if !live.is_empty() => Op::Drop(r.usize_below(1000)),
            17..=18 if !live.is_empty() => if r.chance(0.5) { Op::Accept(r.usize_below(1000)) } else { Op::Drop(r.usize_below(1000)) },
            19 if r.chance(0.3) => Op::Crash,
            _ => {
                if live.is_empty() {
                    Op::UdpBind(fixed(&mut r), false)
                } else {
                    Op::Drop(r.usize_below(1000))
                }
            }
        };
        match &op {
            Op::UdpBind(p, _) | Op::TcpListen(p, _) => live.push((*p == 0 || (*p >= lo && *p <= hi), *p)),
            Op::ConnectOk => live.push((true, 0)),
            Op::Drop(_) => {
                // keep `live` an over-approximation of the sockets that occupy
                // ephemeral-range ports: explicit binds may have failed and the
                // real Drop(k) may hit another socket, so forget a socket outside
                // the range first
                if let Some(pos) = live.iter().position(|x| !x.0) {
                    live.remove(pos);
                } else if !live.is_empty() {
                    live.remove(0);
                }
            }
            Op::Crash => live.clear(),
            _ => {}
        }
        ops.push(op);
    }
    Scn { lo, hi, tick_ms: r.pick_copy(&[1u64, 2]), lat_ms: r.pick_copy(&[0u64, 1, 3]), v6: r.chance(0.25), rng_seed: r.next_u64(), ops }
}

struct Shared {
    /// ports on host h the peer is asked to connect to
    connect_requests: RefCell<std::collections::VecDeque<u16>>,
    next: Cell<usize>,
    want_crash: Cell<bool>,
    done: Cell<bool>,
}

async fn port_program(log: Log<Ev>, s: Scn, sh: Rc<Shared>) -> turmoil::Result {
    let any = if s.v6 { "::" } else { "0.0.0.0" };
    let lo = if s.v6 { "::1" } else { "127.0.0.1" };
    let nohost = if s.v6 { "fe80::9999" } else { "192.168.200.200" };
    let mut socks: Vec<Sock> = vec![];
    loop {
        let i = sh.next.get();
        if i >= s.ops.len() {
            sh.done.set(true);
            std::future::pending::<()>().await;
        }
        sh.next.set(i + 1);
        let res = match &s.ops[i] {
            Op::UdpBind(p, l) => match UdpSocket::bind((if *l { lo } else { any }, *p)).await {
                Ok(u) => {
                    let port = u.local_addr()?.port();
                    socks.push(Sock::Udp(u, port));
                    Res::Port(port)
                }
                Err(e) => Res::Err(format!("{:?}", e.kind())),
            },
            Op::TcpListen(p, l) => match TcpListener::bind((if *l { lo } else { any }, *p)).await {
                Ok(l) => {
                    let port = l.local_addr()?.port();
                    socks.push(Sock::Lis(l, port));
                    Res::Port(port)
                }
                Err(e) => Res::Err(format!("{:?}", e.kind())),
            },
            Op::ConnectOk => match TcpStream::connect(("peer", 8000)).await {
                Ok(st) => {
                    let port = st.local_addr()?.port();
                    socks.push(Sock::Str(st, port));
                    Res::Port(port)
                }
                Err(e) => Res::Err(format!("{:?}", e.kind())),
            },
            Op::ConnectRefused => match TcpStream::connect(("peer", 8001)).await {
                Ok(_) => Res::Err("unexpected success".into()),
                Err(e) => Res::Err(format!("{:?}", e.kind())),
            },
            Op::ConnectNoHost => match TcpStream::connect((nohost, 8000)).await {
                Ok(_) => Res::Err("unexpected success".into()),
                Err(e) => Res::Err(format!("{:?}", e.kind())),
            },
            Op::ConnectCancelled => {
                // "blackhole" accepts nothing: the request stays queued until we give up
                match tokio::time::timeout(Duration::from_millis(2 * s.lat_ms + 3 * s.tick_ms), TcpStream::connect(("peer", 8002))).await {
                    Err(_) => Res::Cancelled,
                    Ok(Ok(_)) => Res::Err("unexpected success".into()),
                    Ok(Err(e)) => Res::Err(format!("{:?}", e.kind())),
                }
            }
            Op::Accept(k) => {
                let listeners: Vec<usize> = socks.iter().enumerate().filter(|(_, x)| matches!(x, Sock::Lis(..))).map(|(i, _)| i).collect();
                // every accepted stream occupies one of the PEER's ephemeral ports (same tiny
                // range): keep at most two alive so the peer never runs out (documented panic)
                let accepted_live = socks.iter().filter(|x| matches!(x, Sock::Acc(..))).count();
                if listeners.is_empty() || accepted_live >= 2 {
                    Res::Nothing
                } else {
                    let idx = listeners[k % listeners.len()];
                    let Sock::Lis(l, port) = &socks[idx] else { unreachable!() };
                    let port = *port;
                    // a listener bound to localhost is not reachable from the peer
                    if l.local_addr().map(|a| a.ip().is_loopback()).unwrap_or(true) {
                        Res::Nothing
                    } else {
                        sh.connect_requests.borrow_mut().push_back(port);
                        match tokio::time::timeout(Duration::from_millis(2 * s.lat_ms + 6 * s.tick_ms + 4), l.accept()).await {
                            Ok(Ok((st, _))) => {
                                socks.push(Sock::Acc(st, port));
                                Res::Port(port)
                            }
                            Ok(Err(e)) => Res::Err(format!("{:?}", e.kind())),
                            Err(_) => Res::Nothing,
                        }
                    }
                }
            }
            Op::Drop(k) => {
                if socks.is_empty() {
                    Res::Nothing
                } else {
                    let idx = k % socks.len();
                    match socks.remove(idx) {
                        Sock::Udp(u, p) => {
                            drop(u);
                            Res::Dropped("udp".into(), p)
                        }
                        Sock::Lis(l, p) => {
                            drop(l);
                            Res::Dropped("listener".into(), p)
                        }
                        Sock::Str(st, p) | Sock::Acc(st, p) => {
                            drop(st);
                            Res::Dropped("stream".into(), p)
                        }
                    }
                }
            }
            Op::Crash => {
                log.push(Ev::Op { i, res: Res::Nothing });
                sh.want_crash.set(true);
                std::future::pending::<()>().await;
                Res::Nothing
            }
        };
        log.push(Ev::Op { i, res });
        // let FINs / RSTs of dropped streams settle and vary timing a little
        if i % 3 == 0 {
            tokio::time::sleep(Duration::from_millis(1)).await;
        }
    }
}

fn port_scenario(s: Scn) -> ScenarioOut {
    let mut out = ScenarioOut::default();
    let log: Log<Ev> = Log::new();
    rec::set_step(0);
    let mut b = turmoil::Builder::new();
    b.tick_duration(Duration::from_millis(s.tick_ms))
        .epoch(epoch(0))
        .rng_seed(s.rng_seed)
        .min_message_latency(Duration::from_millis(s.lat_ms))
        .max_message_latency(Duration::from_millis(s.lat_ms))
        .ephemeral_ports(s.lo..=s.hi)
        .tcp_capacity(4096)
        .simulation_duration(Duration::from_secs(100_000));
    if s.v6 {
        b.ip_version(turmoil::IpVersion::V6);
    }
    let mut sim = b.build();
    let v6 = s.v6;
    let sh = Rc::new(Shared { connect_requests: RefCell::new(Default::default()), next: Cell::new(0), want_crash: Cell::new(false), done: Cell::new(false) });
    let sh_peer0 = sh.clone();
    sim.host("peer", move || {
        let sh_peer = sh_peer0.clone();
        async move {
        let any = if v6 { "::" } else { "0.0.0.0" };
        let l = TcpListener::bind((any, 8000)).await?;
        let _blackhole = TcpListener::bind((any, 8002)).await?;
        {
            let sh = sh_peer.clone();
            tokio::task::spawn_local(async move {
                loop {
                    let req = sh.connect_requests.borrow_mut().pop_front();
                    match req {
                        Some(port) => {
                            tokio::task::spawn_local(async move {
                                if let Ok(mut st) = TcpStream::connect(("h", port)).await {
                                    let mut b = [0u8; 16];
                                    loop {
                                        match st.read(&mut b).await {
                                            Ok(0) | Err(_) => break,
                                            Ok(_) => {}
                                        }
                                    }
                                }
                            });
                        }
                        None => tokio::time::sleep(Duration::from_millis(1)).await,
                    }
                }
            });
        }
        loop {
            let (mut st, _) = l.accept().await?;
            tokio::task::spawn_local(async move {
                // hold the stream until the other side closes; never reset it
                let mut b = [0u8; 16];
                loop {
                    match st.read(&mut b).await {
                        Ok(0) | Err(_) => break,
                        Ok(_) => {}
                    }
                }
            });
        }
        }
    });
    {
        let log = log.clone();
        let sc = s.clone();
        let sh = sh.clone();
        sim.host("h", move || port_program(log.clone(), sc.clone(), sh.clone()));
    }
    let mut panic_msg = None;
    let mut steps = 0u64;
    let limit = 400 + s.ops.len() as u64 * (6 + 4 * s.lat_ms);
    while !sh.done.get() && steps < limit {
        steps += 1;
        match util::step_catch(&mut sim) {
            Err(p) => {
                panic_msg = Some(p);
                break;
            }
            Ok(Err(e)) => {
                panic_msg = Some(format!("step error: {e}"));
                break;
            }
            Ok(Ok(_)) => {}
        }
        if sh.want_crash.get() {
            sh.want_crash.set(false);
            sim.crash("h");
            let c = sim.verif_host_counts("h");
            log.push(Ev::Crashed { after_op: sh.next.get() - 1 });
            if c.0 + c.1 + c.2 != 0 {
                out.violate(
                    "crash-leaves-sockets",
                    "C15|crash-leaves-sockets".into(),
                    format!("after crash the host still has (udp binds, tcp binds, streams) = ({}, {}, {})", c.0, c.1, c.2),
                    json!({"scenario": format!("{s:?}")}),
                );
            }
            // leave the peer a few steps to see the resets
            for _ in 0..(2 + s.lat_ms / s.tick_ms) {
                steps += 1;
                let _ = util::step_catch(&mut sim);
            }
            sim.bounce("h");
        }
    }
    let table = sim.verif_host_counts("h");
    drop(sim);
    let evs = log.take();
    let desc = json!({"scenario": format!("{s:?}")});
    let mut exhausted_panic = false;
    if let Some(p) = &panic_msg {
        if p.contains("ports exhausted") && !p.contains("'h' ports exhausted") {
            out.discarded = Some("documented panic on the peer host (harness-side exhaustion)".into());
        } else if p.contains("ports exhausted") {
            // decided after the model has been replayed (documented panic when no port is free)
            exhausted_panic = true;
        } else {
            out.violate("panic", "C15|panic".into(), format!("simulation panicked after {} ops: {p}", evs.len()), desc.clone());
        }
    } else if !sh.done.get() {
        out.violate("history-stalled", "C15|history-stalled".into(), format!("history did not complete within {limit} steps ({} of {} ops done)", sh.next.get(), s.ops.len()), desc.clone());
    }
    // ---- allocation model ------------------------------------------------
    let mut udp: BTreeSet<u16> = BTreeSet::new();
    let mut lis: BTreeSet<u16> = BTreeSet::new();
    let mut strm: BTreeMap<u16, usize> = BTreeMap::new();
    let in_range = |p: u16| p >= s.lo && p <= s.hi;
    for (_, e) in &evs {
        match e {
            Ev::Crashed { .. } => {
                udp.clear();
                lis.clear();
                strm.clear();
                out.count("crashes", 1);
            }
            Ev::Op { i, res } => {
                let op = &s.ops[*i];
                let used = |p: u16, udp: &BTreeSet<u16>, lis: &BTreeSet<u16>, strm: &BTreeMap<u16, usize>| udp.contains(&p) || lis.contains(&p) || strm.contains_key(&p);
                let free_exists = (s.lo..=s.hi).any(|p| !used(p, &udp, &lis, &strm));
                match (op, res) {
                    (Op::UdpBind(0, _), Res::Port(p)) | (Op::TcpListen(0, _), Res::Port(p)) | (Op::ConnectOk, Res::Port(p)) => {
                        out.count("ephemeral_assignments", 1);
                        if !in_range(*p) {
                            out.violate("ephemeral-out-of-range", "C15|ephemeral-out-of-range".into(), format!("op #{i} {op:?}: ephemeral port {p} outside {}..={}", s.lo, s.hi), desc.clone());
                        }
                        if used(*p, &udp, &lis, &strm) {
                            let who = if udp.contains(p) { "udp socket" } else if lis.contains(p) { "tcp listener" } else { "live tcp stream" };
                            out.violate(
                                "ephemeral-port-in-use",
                                format!("C15|ephemeral-port-in-use|{}|{who}", match op { Op::UdpBind(..) => "udp-bind", Op::TcpListen(..) => "listen", _ => "connect" }),
                                format!("op #{i} {op:?}: assigned ephemeral port {p} which is currently used by a {who}"),
                                desc.clone(),
                            );
                        }
                        match op {
                            Op::UdpBind(..) => {
                                udp.insert(*p);
                            }
                            Op::TcpListen(..) => {
                                lis.insert(*p);
                            }
                            _ => {
                                *strm.entry(*p).or_default() += 1;
                            }
                        }
                    }
                    (Op::UdpBind(0, _) | Op::TcpListen(0, _) | Op::ConnectOk, Res::Err(k)) => {
                        let _ = free_exists;
                        out.violate("ephemeral-failed", format!("C15|ephemeral-failed|{k}"), format!("op #{i} {op:?} failed with {k} although the model has a free ephemeral port"), desc.clone());
                    }
                    (Op::UdpBind(want, _), r) => {
                        out.count("explicit_binds", 1);
                        let free = !udp.contains(want);
                        match r {
                            Res::Port(p) if free && p == want => {
                                udp.insert(*p);
                            }
                            Res::Err(k) if !free && k == "AddrInUse" => out.count("addr_in_use_observed", 1),
                            other => out.violate(
                                "explicit-bind-wrong",
                                format!("C15|explicit-bind-wrong|udp|free={free}"),
                                format!("op #{i} {op:?}: port free for UDP = {free}, result {other:?}"),
                                desc.clone(),
                            ),
                        }
                    }
                    (Op::TcpListen(want, _), r) => {
                        out.count("explicit_binds", 1);
                        let free = !lis.contains(want);
                        match r {
                            Res::Port(p) if free && p == want => {
                                lis.insert(*p);
                            }
                            Res::Err(k) if !free && k == "AddrInUse" => out.count("addr_in_use_observed", 1),
                            other => out.violate(
                                "explicit-bind-wrong",
                                format!("C15|explicit-bind-wrong|tcp|free={free}"),
                                format!("op #{i} {op:?}: port free for TCP listeners = {free}, result {other:?}"),
                                desc.clone(),
                            ),
                        }
                    }
                    (Op::Accept(_), Res::Port(p)) => {
                        out.count("accepted_streams", 1);
                        if !lis.contains(p) {
                            out.violate("accept-on-unknown-port", "C15|accept-on-unknown-port".into(), format!("op #{i}: accepted a stream on port {p} where the model has no listener"), desc.clone());
                        }
                        *strm.entry(*p).or_default() += 1;
                    }
                    (Op::ConnectRefused | Op::ConnectNoHost, Res::Err(k)) => {
                        out.count("refused_connects", 1);
                        if k != "ConnectionRefused" {
                            out.violate("refused-wrong-kind", format!("C15|refused-wrong-kind|{k}"), format!("op #{i} {op:?} returned {k}"), desc.clone());
                        }
                    }
                    (Op::ConnectCancelled, Res::Cancelled) => out.count("cancelled_connects", 1),
                    (Op::ConnectCancelled, Res::Err(k)) => {
                        out.violate("cancel-wrong", format!("C15|cancel-wrong|{k}"), format!("op #{i}: connect to a listener that never accepts ended with {k}"), desc.clone());
                    }
                    (Op::Drop(_), Res::Dropped(kind, p)) => {
                        out.count("drops", 1);
                        match kind.as_str() {
                            "udp" => {
                                udp.remove(p);
                            }
                            "listener" => {
                                lis.remove(p);
                            }
                            _ => {
                                if let Some(c) = strm.get_mut(p) {
                                    *c -= 1;
                                    if *c == 0 {
                                        strm.remove(p);
                                    }
                                }
                            }
                        }
                    }
                    _ => {}
                }
            }
        }
    }
    if exhausted_panic {
        let used = |p: u16| udp.contains(&p) || lis.contains(&p) || strm.contains_key(&p);
        let free: Vec<u16> = (s.lo..=s.hi).filter(|p| !used(*p)).collect();
        if free.is_empty() {
            out.discarded = Some("documented panic: ephemeral ports exhausted with no free port in the model".into());
        } else {
            out.violate(
                "ports-exhausted-panic",
                "C15|ports-exhausted-panic".into(),
                format!("host panicked 'ports exhausted' after {} ops although the model has free ephemeral ports {free:?} (udp {udp:?}, listeners {lis:?}, streams {:?})", evs.len(), strm.keys().collect::<Vec<_>>()),
                desc.clone(),
            );
        }
    }
    // quiescent table check at the end: (udp, listeners, streams) equal the model
    if panic_msg.is_none() && sh.done.get() {
        let want = (udp.len(), lis.len(), strm.values().sum::<usize>());
        if (table.0, table.1, table.2) != want {
            out.violate(
                "table-mismatch",
                format!("C15|table-mismatch|streams_delta={}", table.2 as i64 - want.2 as i64),
                format!("at the end of the history the host holds (udp, listeners, streams) = ({}, {}, {}), model expects {want:?}", table.0, table.1, table.2),
                desc.clone(),
            );
        }
        out.count("final_table_checks", 1);
    }
    let mut h = Fnv::new();
    for (st, e) in &evs {
        h.write_u64(*st);
        h.write_str(&format!("{e:?}"));
    }
    out.digest = h.finish();
    let eph = evs.iter().filter(|e| matches!(&e.1, Ev::Op { res: Res::Port(p), .. } if in_range(*p))).count();
    out.nontrivial = eph as u16 > (s.hi - s.lo + 1);
    if out.nontrivial {
        out.count("histories_with_wraparound", 1);
    }
    out.sample = Some(json!({
        "ephemeral_range": [s.lo, s.hi], "ops": s.ops.len(), "v6": s.v6,
        "history_excerpt": evs.iter().take(14).map(|e| match &e.1 { Ev::Op{i,res} => format!("{:?} -> {:?}", s.ops[*i], res), Ev::Crashed{..} => "crash+bounce".to_string() }).collect::<Vec<_>>(),
    }));
    out
}

// ---------------------------------------------------------------------------
// DNS

fn dns_scenario(seed: u64) -> ScenarioOut {
    let mut out = ScenarioOut::default();
    let mut r = Rng::new(seed);
    let v6 = r.coin();
    let n = r.range(5, 600) as usize;
    let mut b = turmoil::Builder::new();
    b.epoch(epoch(0)).rng_seed(seed);
    if v6 {
        b.ip_version(turmoil::IpVersion::V6);
    }
    let mut sim = b.build();
    let desc = json!({"dns_seed": seed, "v6": v6, "names": n});
    let name = |i: usize| format!("{}-{}", ["node", "db", "web", "cache"][i % 4], i);
    let mut known: BTreeMap<String, std::net::IpAddr> = BTreeMap::new();
    let mut literal_hosts: BTreeSet<std::net::IpAddr> = BTreeSet::new();
    let mut order: Vec<usize> = (0..n).collect();
    r.shuffle(&mut order);
    let in_host: Rc<RefCell<Vec<(String, std::net::IpAddr, Option<String>)>>> = Rc::new(RefCell::new(vec![]));
    let mut registered = 0;
    let nops = n * 3;
    for k in 0..nops {
        let i = if k < n { order[k] } else { r.usize_below(n) };
        let nm = name(i);
        // now and then a host is registered by literal address, a little ahead of what the
        // allocator has handed out so far: that address is in use from then on
        if registered < 40 && r.chance(0.04) {
            let kk = (known.len() + literal_hosts.len()) as u64 + r.range(1, 4);
            let lit: std::net::IpAddr = if v6 {
                std::net::IpAddr::V6(std::net::Ipv6Addr::new(0xfe80, 0, 0, 0, 0, 0, (kk >> 16) as u16, kk as u16))
            } else {
                std::net::IpAddr::V4(std::net::Ipv4Addr::new(192, 168, (kk / 256) as u8, (kk % 256) as u8))
            };
            if !known.values().any(|v| *v == lit) && !literal_hosts.contains(&lit) && (kk % 256) != 0 && (kk % 256) != 255 {
                sim.client(lit, async { Ok(()) });
                registered += 1;
                literal_hosts.insert(lit);
                out.count("hosts_registered_by_literal_address", 1);
            }
        }
        match r.below(10) {
            0..=4 => {
                let a = sim.lookup(nm.as_str());
                out.count("lookups_by_name", 1);
                if !known.contains_key(&nm) && literal_hosts.contains(&a) {
                    out.violate("duplicate-address", format!("C15|dns|duplicate-address|literal-host|v6={v6}"), format!("{nm} resolves to {a}, the address of a host that was registered by literal address"), desc.clone());
                }
                if let Some(prev) = known.get(&nm) {
                    if *prev != a {
                        out.violate("unstable-address", "C15|dns|unstable-address".into(), format!("{nm} resolved to {prev} and later to {a}"), desc.clone());
                    }
                } else {
                    if let Some((other, _)) = known.iter().find(|(_, v)| **v == a) {
                        out.violate("duplicate-address", format!("C15|dns|duplicate-address|v6={v6}"), format!("{nm} and {other} both resolve to {a}"), desc.clone());
                    }
                    known.insert(nm.clone(), a);
                }
                let ok_subnet = match a {
                    std::net::IpAddr::V4(x) => !v6 && x.octets()[0] == 192 && x.octets()[1] == 168,
                    std::net::IpAddr::V6(x) => v6 && x.segments()[0] == 0xfe80 && x.segments()[1..4] == [0, 0, 0],
                };
                if !ok_subnet {
                    out.violate("outside-subnet", format!("C15|dns|outside-subnet|v6={v6}"), format!("{nm} resolved to {a}"), desc.clone());
                }
            }
            5 => {
                // register a host under this name (allocates if new); hosts can only be registered once
                if registered < 40 && !known.contains_key(&nm) {
                    // allocate first: registering on top of another host's address would panic
                    let a0 = sim.lookup(nm.as_str());
                    if literal_hosts.contains(&a0) {
                        out.violate("duplicate-address", format!("C15|dns|duplicate-address|literal-host|v6={v6}"), format!("{nm} resolves to {a0}, the address of a host that was registered by literal address"), desc.clone());
                        known.insert(nm, a0);
                        continue;
                    }
                    let ih = in_host.clone();
                    let probe = name(r.usize_below(n));
                    sim.client(nm.as_str(), async move {
                        let a = turmoil::lookup(probe.as_str());
                        ih.borrow_mut().push((probe.clone(), a, turmoil::reverse_lookup(a)));
                        Ok(())
                    });
                    registered += 1;
                    let a = sim.lookup(nm.as_str());
                    if let Some((other, _)) = known.iter().find(|(_, v)| **v == a) {
                        out.violate("duplicate-address", format!("C15|dns|duplicate-address|v6={v6}"), format!("{nm} (registered) and {other} both resolve to {a}"), desc.clone());
                    }
                    known.insert(nm, a);
                }
            }
            6 => {
                if let Some(a) = known.get(&nm) {
                    out.count("reverse_lookups", 1);
                    let rv = sim.reverse_lookup(*a);
                    if rv.as_deref() != Some(nm.as_str()) {
                        out.violate("reverse-mismatch", "C15|dns|reverse-mismatch".into(), format!("reverse_lookup({a}) = {rv:?}, expected {nm}"), desc.clone());
                    }
                }
            }
            7 => {
                if let Some(a) = known.get(&nm) {
                    // literal address: must come back unchanged and allocate nothing
                    out.count("lookups_by_literal", 1);
                    let lit = a.to_string();
                    let got = sim.lookup(lit.as_str());
                    if got != *a {
                        out.violate("literal-changed", "C15|dns|literal-changed".into(), format!("lookup(\"{lit}\") = {got}"), desc.clone());
                    }
                }
            }
            _ => {
                let pat = match r.below(3) {
                    0 => format!("^{}-", ["node", "db", "web", "cache"][r.usize_below(4)]),
                    1 => format!("-{}$", r.below(10)),
                    _ => format!("^{}$", nm),
                };
                let re = regex::Regex::new(&pat).unwrap();
                let got: BTreeSet<std::net::IpAddr> = sim.lookup_many(re.clone()).into_iter().collect();
                let want: BTreeSet<std::net::IpAddr> = known.iter().filter(|(k, _)| re.is_match(k)).map(|(_, v)| *v).collect();
                out.count("regex_lookups", 1);
                if got != want {
                    out.violate(
                        "regex-mismatch",
                        "C15|dns|regex-mismatch".into(),
                        format!("lookup_many(/{pat}/) returned {} addresses, expected the {} known matching names ({} missing, {} extra)", got.len(), want.len(), want.difference(&got).count(), got.difference(&want).count()),
                        desc.clone(),
                    );
                }
            }
        }
    }
    // in-host lookups (may allocate new names; they must be consistent with the Sim handle afterwards)
    let _ = sim.run();
    for (probe, a, rv) in in_host.borrow().iter() {
        out.count("in_host_lookups", 1);
        let now = sim.lookup(probe.as_str());
        if now != *a {
            out.violate("unstable-address", "C15|dns|unstable-address|in-host".into(), format!("in-host lookup of {probe} gave {a}, Sim::lookup gives {now}"), desc.clone());
        }
        if let Some(prev) = known.get(probe) {
            if prev != a {
                out.violate("unstable-address", "C15|dns|unstable-address|in-host".into(), format!("{probe}: {prev} before the run, {a} inside a host"), desc.clone());
            }
        } else if let Some((other, _)) = known.iter().find(|(k, v)| **v == *a && *k != probe) {
            out.violate("duplicate-address", format!("C15|dns|duplicate-address|v6={v6}"), format!("{probe} (first resolved inside a host) and {other} both resolve to {a}"), desc.clone());
        }
        if rv.as_deref() != Some(probe.as_str()) {
            out.violate("reverse-mismatch", "C15|dns|reverse-mismatch|in-host".into(), format!("in-host reverse_lookup({a}) = {rv:?}, expected {probe}"), desc.clone());
        }
    }
    out.count("dns_names", known.len() as u64);
    out.saw("dns_ip_versions", if v6 { "v6" } else { "v4" }.to_string());
    let mut h = Fnv::new();
    h.write_u64(seed);
    h.write_u64(known.len() as u64);
    out.digest = h.finish();
    out.nontrivial = known.len() >= 20;
    out.sample = Some(json!({"dns": {"v6": v6, "names": n, "resolved": known.len(), "first": known.iter().take(4).map(|(k, v)| format!("{k}={v}")).collect::<Vec<_>>() }}));
    out
}

pub fn run(ctx: &Ctx) -> ! {
    if ctx.replay.is_some() {
        let w = vcore::read_replay(ctx).expect("replay file");
        let report = if let Some(seed) = w.get("dns_seed").and_then(|x| x.as_u64()) {
            vcore::run_single(ctx, move |_| dns_scenario(seed))
        } else {
            let seed = w["scenario_seed"].as_u64().unwrap_or(0);
            vcore::run_single(ctx, move |_| port_scenario(gen(seed)))
        };
        vcore::finish(ctx, report, fin());
    }
    let nports = ctx.pick(12_000u64, 200_000);
    let ndns = ctx.pick(1000u64, 12_000);
    let c2 = ctx.clone();
    let report = vcore::run_parallel(
        ctx,
        nports + ndns,
        RunOpts { budget_s: ctx.pick(60.0, 600.0), scenario_timeout_s: 120.0 },
        move |idx| {
            if idx < nports {
                let seed = c2.scenario_seed("c15", idx);
                let mut out = port_scenario(gen(seed));
                for v in out.violations.iter_mut() {
                    v.witness["scenario_seed"] = json!(seed);
                }
                out
            } else {
                dns_scenario(c2.scenario_seed("c15dns", idx))
            }
        },
    );
    vcore::finish(ctx, report, fin());
}

fn fin() -> Finish<'static> {
    Finish {
        level: "exploration",
        rule: "port histories: host with an ephemeral range of 3-8 ports runs 20-200 sequential ops (UDP bind / TCP listen on port 0 or a fixed port inside/outside the range, connect succeeding / refused / to an unowned address / cancelled by timeout, drop of any live socket, crash+bounce), one port always kept spare so the documented exhaustion panic is never legitimate; DNS histories: 5-600 names resolved in random order by name, literal, regex, registration and from inside hosts, IPv4 and IPv6; non-trivial = more ephemeral assignments than the range holds (wrap-around) resp. >=20 names; distinct = digest of the result history",
        assumptions: vec![
            "operations of one history are sequential (no concurrent allocation while a connect is pending)".into(),
            "the peer never resets streams, so a held TcpStream keeps its port until the harness drops it".into(),
        ],
        min_distinct: 100,
        required_counters: vec!["ephemeral_assignments", "addr_in_use_observed", "refused_connects", "cancelled_connects", "crashes", "histories_with_wraparound", "final_table_checks", "accepted_streams", "regex_lookups", "reverse_lookups", "in_host_lookups", "hosts_registered_by_literal_address"],
    }
}
