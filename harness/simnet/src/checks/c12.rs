//! C12 — turmoil::net pairs every connect with exactly one accept, or refuses it.
//!
//! The harness log (connect calls/returns/cancellations, bind/accept/unbind,
//! nonces) and the wire trace (Send / Delivered / Drop of SYNs) share one total
//! order. A small queue model driven by the wire trace says, for every connect,
//! what must happen at the API: success iff accepted, accepted in SYN-arrival
//! order skipping connectors that gave up, ConnectionRefused (promptly) when
//! the SYN met no matching listener / the listener was dropped / the SYN was
//! dropped by a partition / nobody owns the address. Stream tables must be
//! empty once everything is dropped.

use crate::rec::{self, Log, TraceEv};
use crate::util::{self, epoch};
use serde_json::json;
use std::collections::{BTreeMap, BTreeSet, VecDeque};
use std::time::Duration;
use tokio::io::AsyncReadExt;
use turmoil::net::{TcpListener, TcpStream};
use vcore::{Ctx, Finish, Fnv, Rng, RunOpts, ScenarioOut};

const PORT: u16 = 7000;

#[derive(Clone, Debug)]
struct Lifetime {
    bind_at: u64,
    loopback_bind: bool,
    /// gaps (ms) before each accept call
    accepts: Vec<u64>,
    drop_at: u64,
}

#[derive(Clone, Copy, Debug, PartialEq)]
enum Target {
    Listener,
    ListenerViaLoopback,
    DeadPort,
    NoHost,
}

#[derive(Clone, Debug)]
struct Conn {
    host: usize,
    target: Target,
    at: u64,
    timeout: Option<u64>,
    hold: u64,
}

#[derive(Clone, Debug)]
enum Fault {
    None,
    Partition { host: usize, at: u64, len: u64, oneway: u8 },
    Hold { host: usize, at: u64, len: u64 },
    /// hold the link, partition it while SYNs may be held, then repair + release
    HoldThenPartition { host: usize, at: u64, len1: u64, len2: u64 },
    /// hold the link, `repair` it while requests are parked (the state becomes healthy, the
    /// parked messages stay parked), then release: the parked requests must move again
    HoldThenRepair { host: usize, at: u64, len: u64, gap: u64 },
}

#[derive(Clone, Debug)]
struct Scn {
    tick_ms: u64,
    min_ms: u64,
    max_ms: u64,
    v6: bool,
    random_order: bool,
    rng_seed: u64,
    nhosts: usize,
    lifetimes: Vec<Lifetime>,
    conns: Vec<Conn>,
    fault: Fault,
    end_ms: u64,
    /// Builder::tcp_capacity (None = default 64)
    tcp_cap: Option<usize>,
    /// Builder::ephemeral_ports (None = default range): a tiny range makes a connector reuse
    /// the address pair of an earlier connection
    ephemeral: Option<(u16, u16)>,
    /// the accepting side keeps a stream this long after it saw the peer's close
    accept_linger_ms: u64,
    /// the accepting side never reads: it lingers and drops the stream with the nonce unread (RST)
    accept_rst: bool,
    /// the listener host's software returns Ok(()) after its last listener lifetime (the host
    /// stays registered but is no longer scheduled)
    listener_returns: bool,
}

#[derive(Clone, Debug)]
enum Ev {
    Bind { lt: usize, loopback: bool, ok: bool },
    Unbind { lt: usize },
    Accept { peer: String, local: String },
    /// the accepting side dropped the stream it had accepted from `peer`
    AcceptedDropped { peer: String },
    /// the listener host's software is about to return Ok(())
    ListenerHostReturns,
    Nonce { peer: String, nonce: u64 },
    ConnCall { id: usize, host: usize },
    ConnOk { id: usize, local: String, peer: String },
    ConnErr { id: usize, kind: String },
    Cancelled { id: usize },
    Counts { host: usize, public: usize },
    /// controller imposed a partition between `host` and h0 (oneway: 0 both, 1 host->h0, 2 h0->host)
    Partition { host: usize, oneway: u8 },
    /// controller imposed a hold between `host` and h0
    Hold { host: usize },
}

fn hname(i: usize) -> String {
    format!("h{i}")
}

async fn sleep_until_ms(t: u64) {
    let now = turmoil::elapsed().as_millis() as u64;
    if t > now {
        tokio::time::sleep(Duration::from_millis(t - now)).await;
    }
}

async fn listener_program(log: Log<Ev>, s: Scn) -> turmoil::Result {
    let any = if s.v6 { "::" } else { "0.0.0.0" };
    let lo = if s.v6 { "::1" } else { "127.0.0.1" };
    for (lt, l) in s.lifetimes.iter().enumerate() {
        sleep_until_ms(l.bind_at).await;
        let listener = match TcpListener::bind((if l.loopback_bind { lo } else { any }, PORT)).await {
            Ok(x) => {
                log.push(Ev::Bind { lt, loopback: l.loopback_bind, ok: true });
                x
            }
            Err(_) => {
                log.push(Ev::Bind { lt, loopback: l.loopback_bind, ok: false });
                continue;
            }
        };
        let deadline = tokio::time::Instant::now() + Duration::from_millis(l.drop_at.saturating_sub(turmoil::elapsed().as_millis() as u64));
        for gap in &l.accepts {
            if tokio::time::timeout_at(deadline, tokio::time::sleep(Duration::from_millis(*gap))).await.is_err() {
                break;
            }
            match tokio::time::timeout_at(deadline, listener.accept()).await {
                Ok(Ok((mut st, peer))) => {
                    let local = st.local_addr().map(|a| a.to_string()).unwrap_or_default();
                    log.push(Ev::Accept { peer: peer.to_string(), local });
                    let log = log.clone();
                    let end = s.end_ms;
                    let linger = s.accept_linger_ms;
                    if s.accept_rst {
                        let log = log.clone();
                        tokio::task::spawn_local(async move {
                            tokio::time::sleep(Duration::from_millis(linger + 6)).await;
                            drop(st); // the nonce is unread: the peer is reset
                            log.push(Ev::AcceptedDropped { peer: peer.to_string() });
                        });
                        continue;
                    }
                    tokio::task::spawn_local(async move {
                        let mut b = [0u8; 8];
                        let left = end.saturating_sub(turmoil::elapsed().as_millis() as u64);
                        if let Ok(Ok(_)) = tokio::time::timeout(Duration::from_millis(left), st.read_exact(&mut b)).await {
                            log.push(Ev::Nonce { peer: peer.to_string(), nonce: u64::from_le_bytes(b) });
                        }
                        // wait for the peer to close, then drop
                        let left = end.saturating_sub(turmoil::elapsed().as_millis() as u64);
                        let mut sink = [0u8; 8];
                        let _ = tokio::time::timeout(Duration::from_millis(left), st.read(&mut sink)).await;
                        if linger > 0 {
                            tokio::time::sleep(Duration::from_millis(linger)).await;
                        }
                        drop(st);
                        log.push(Ev::AcceptedDropped { peer: peer.to_string() });
                    });
                }
                Ok(Err(_)) => {}
                Err(_) => break,
            }
        }
        tokio::time::sleep_until(deadline).await;
        log.push(Ev::Unbind { lt });
        drop(listener);
    }
    if s.listener_returns {
        tokio::time::sleep(Duration::from_millis(1)).await;
        log.push(Ev::ListenerHostReturns);
        return Ok(());
    }
    std::future::pending::<()>().await;
    Ok(())
}

async fn connector(log: Log<Ev>, id: usize, c: Conn, s: Scn) {
    sleep_until_ms(c.at).await;
    let lo = if s.v6 { "::1" } else { "127.0.0.1" };
    let nohost = if s.v6 { "fe80::9999" } else { "192.168.200.200" };
    let (host, port): (String, u16) = match c.target {
        Target::Listener => (hname(0), PORT),
        Target::ListenerViaLoopback => (lo.to_string(), PORT),
        Target::DeadPort => (hname(0), PORT + 1),
        Target::NoHost => (nohost.to_string(), PORT),
    };
    let limit = c.timeout.unwrap_or(u64::MAX).min(s.end_ms.saturating_sub(c.at));
    log.push(Ev::ConnCall { id, host: c.host });
    match tokio::time::timeout(Duration::from_millis(limit), TcpStream::connect((host.as_str(), port))).await {
        Err(_) => log.push(Ev::Cancelled { id }),
        Ok(Err(e)) => log.push(Ev::ConnErr { id, kind: format!("{:?}", e.kind()) }),
        Ok(Ok(st)) => {
            log.push(Ev::ConnOk {
                id,
                local: st.local_addr().map(|a| a.to_string()).unwrap_or_default(),
                peer: st.peer_addr().map(|a| a.to_string()).unwrap_or_default(),
            });
            let _ = st.try_write(&(id as u64).to_le_bytes());
            tokio::time::sleep(Duration::from_millis(c.hold)).await;
            drop(st);
        }
    }
}

fn gen(seed: u64) -> Scn {
    let mut r = Rng::new(seed);
    let tick_ms = r.pick_copy(&[1u64, 1, 2, 5]);
    let (mut min_ms, mut max_ms) = match r.below(4) {
        0 => (0, 0),
        1 => (2, 2),
        2 => (0, 9),
        _ => (3, 12),
    };
    let nhosts = r.range(1, 4) as usize;
    let mut lifetimes: Vec<Lifetime> = vec![];
    let mut t = r.range(0, 6);
    for _ in 0..r.range(1, 3) {
        let bind_at = t;
        let mut accepts = vec![];
        for _ in 0..r.range(0, 5) {
            accepts.push(r.pick_copy(&[0u64, 0, 1, 3, 10, 25]));
        }
        let life = r.range(10, 80);
        lifetimes.push(Lifetime { bind_at, loopback_bind: r.chance(0.15), accepts, drop_at: bind_at + life });
        t = bind_at + life + r.range(1, 25);
    }
    let horizon = t + 10;
    let mut conns = vec![];
    for _ in 0..r.range(2, 6) {
        let host = r.usize_below(nhosts);
        let target = match r.below(12) {
            0 => Target::DeadPort,
            1 => Target::NoHost,
            2 | 3 if host == 0 => Target::ListenerViaLoopback,
            _ => Target::Listener,
        };
        conns.push(Conn {
            host,
            target,
            at: r.range(0, horizon),
            timeout: if r.chance(0.4) { Some(r.range(1, 30)) } else { None },
            hold: max_ms + 4 * tick_ms + r.range(0, 20),
        });
    }
    // "queue pressure" shape: the listener lets requests pile up before it accepts,
    // some of the waiting connectors give up meanwhile, a late request joins the queue
    if r.chance(0.25) {
        let first_gap = r.range(35, 80);
        lifetimes = vec![Lifetime { bind_at: 0, loopback_bind: false, accepts: std::iter::once(first_gap).chain((0..7).map(|_| r.pick_copy(&[0u64, 0, 1, 3]))).collect(), drop_at: first_gap + 60 }];
        conns.clear();
        let k = r.range(3, 5);
        for i in 0..k {
            let give_up = i < 2 && r.chance(0.7);
            conns.push(Conn {
                host: r.usize_below(nhosts),
                target: Target::Listener,
                at: 2 + 3 * i + r.range(0, 2),
                timeout: if give_up { Some(r.range(5, first_gap / 2)) } else { None },
                hold: max_ms + 4 * tick_ms + r.range(0, 20),
            });
        }
        conns.push(Conn { host: r.usize_below(nhosts), target: Target::Listener, at: first_gap - r.range(2, 10).min(first_gap - 1), timeout: None, hold: max_ms + 4 * tick_ms + 5 });
    }
    // "give-up flood" shape: the listener is parked in accept the whole time, more connectors
    // than tcp_capacity give up one after the other before their request arrives (never more
    // than one request pending), then a patient connector must still be accepted
    let mut tcp_cap = None;
    let mut flood = false;
    if nhosts >= 2 && r.chance(0.08) {
        flood = true;
        let cap = r.pick_copy(&[3usize, 4, 5]);
        tcp_cap = Some(cap);
        let lat = r.pick_copy(&[6u64, 8, 12]);
        (min_ms, max_ms) = (lat, lat);
        let n = cap as u64 + r.range(1, 4);
        conns.clear();
        let mut at = 3;
        for _ in 0..n {
            let to = r.range(1, lat - 3);
            conns.push(Conn { host: r.range(1, nhosts as u64 - 1) as usize, target: Target::Listener, at, timeout: Some(to), hold: 5 });
            at += to + r.range(1, 3);
        }
        at += 2 * lat + 5;
        conns.push(Conn { host: r.range(1, nhosts as u64 - 1) as usize, target: Target::Listener, at, timeout: None, hold: lat + 4 * tick_ms + 5 });
        lifetimes = vec![Lifetime { bind_at: 0, loopback_bind: false, accepts: vec![0, 0, 0], drop_at: at + 4 * lat + 40 }];
    }
    // "port wrap" shape: a two- or three-port ephemeral range; one host connects, closes and
    // connects again in quick succession while latencies reorder its FINs and SYNs, so a request
    // can reuse the address pair of a stream the listener side still holds
    let mut ephemeral = None;
    let mut accept_linger_ms = 0;
    let mut accept_rst = false;
    let mut listener_returns = false;
    if !flood && nhosts >= 2 && r.chance(0.08) {
        flood = true; // no link faults in this shape either
        let nports = r.range(2, 3) as u16;
        ephemeral = Some((49152, 49152 + nports - 1));
        (min_ms, max_ms) = r.pick_copy(&[(1u64, 1u64), (1, 20), (0, 12)]);
        conns.clear();
        let h = r.range(1, nhosts as u64 - 1) as usize;
        let mut at = 3;
        accept_linger_ms = r.pick_copy(&[0u64, 4, 25]);
        accept_rst = r.chance(0.4);
        if accept_rst {
            // aim the reset at the moment the connector's port comes round again
            let spacing = 2 * max_ms + 4 * tick_ms + 3;
            accept_linger_ms = (nports as u64 * spacing).saturating_sub(6 + r.range(0, 2 * max_ms + 3));
        }
        for _ in 0..r.range(4, 9) {
            // strictly one after the other: never more live streams than ports (documented panic)
            let hold = r.range(0, 3);
            conns.push(Conn { host: h, target: Target::Listener, at, timeout: None, hold });
            at += 2 * max_ms + hold + 4 * tick_ms + 2 + r.range(0, 3);
        }
        lifetimes = vec![Lifetime { bind_at: 0, loopback_bind: false, accepts: vec![0; 12], drop_at: at + 4 * max_ms + 60 }];
    }
    // "listener host returns" shape: the software of the listening host ends (dropping its
    // listener); later connectors must be refused like for any port nobody listens on
    if !flood && nhosts >= 2 && r.chance(0.05) {
        flood = true;
        listener_returns = true;
        (min_ms, max_ms) = (2, 2);
        let t_end = r.range(18, 34); // after the early stream is closed on both sides (tasks of a finished host are never run again)
        lifetimes = vec![Lifetime { bind_at: 0, loopback_bind: false, accepts: vec![0, 0], drop_at: t_end }];
        conns.clear();
        conns.push(Conn { host: r.range(1, nhosts as u64 - 1) as usize, target: Target::Listener, at: 2, timeout: None, hold: 3 });
        for _ in 0..r.range(1, 3) {
            // the request is sent before or after the software returns, it arrives afterwards or just before
            conns.push(Conn { host: r.range(1, nhosts as u64 - 1) as usize, target: Target::Listener, at: t_end + r.range(0, 12), timeout: None, hold: 3 });
        }
    }
    let horizon = horizon.max(lifetimes.last().map(|l| l.drop_at + 10).unwrap_or(0));
    let fault = if flood {
        Fault::None
    } else if nhosts >= 2 {
        match r.below(7) {
            0 => Fault::Partition { host: r.range(1, nhosts as u64 - 1) as usize, at: r.range(0, horizon / tick_ms), len: r.range(1, 40), oneway: r.below(3) as u8 },
            1 => Fault::Hold { host: r.range(1, nhosts as u64 - 1) as usize, at: r.range(0, horizon / tick_ms), len: r.range(1, 30) },
            2 => Fault::HoldThenPartition { host: r.range(1, nhosts as u64 - 1) as usize, at: r.range(0, horizon / tick_ms), len1: r.range(1, 20), len2: r.range(1, 20) },
            3 => Fault::HoldThenRepair { host: r.range(1, nhosts as u64 - 1) as usize, at: r.range(0, horizon / tick_ms), len: r.range(1, 20), gap: r.range(0, 3) },
            _ => Fault::None,
        }
    } else {
        Fault::None
    };
    Scn {
        tick_ms,
        min_ms,
        max_ms,
        v6: r.chance(0.25),
        random_order: r.coin(),
        rng_seed: r.next_u64(),
        nhosts,
        lifetimes,
        conns,
        fault,
        end_ms: horizon + 40 + 2 * max_ms,
        tcp_cap,
        ephemeral,
        accept_linger_ms,
        accept_rst,
        listener_returns,
    }
}

#[derive(Clone, Debug, PartialEq)]
enum CState {
    NotSent,
    InFlight,
    WireDropped,
    Unmatched { step: u64 },
    /// still in flight (or held) when its direction was partitioned
    PartitionDropped { step: u64 },
    Queued,
    ListenerDropped { step: u64 },
    Accepted { step: u64, seq: u64 },
}

#[derive(Clone, Debug)]
struct CModel {
    src: Option<String>,
    state: CState,
    call_step: u64,
    /// step in which the SYN was sent, and whether it is certainly parked on a held link
    sent_step: u64,
    held: bool,
    ret: Option<(u64, u64, Result<(String, String), String>)>, // (seq, step, result)
    cancel: Option<(u64, u64)>,
}

enum Item<'a> {
    H(u64, u64, &'a Ev),
    T(&'a TraceEv),
}

fn port_of(addr: &str) -> u16 {
    addr.rsplit(':').next().and_then(|p| p.parse().ok()).unwrap_or(0)
}
fn ip_is_loopback(addr: &str) -> bool {
    addr.starts_with("127.0.0.1:") || addr.starts_with("[::1]:")
}

fn scenario(s: Scn) -> ScenarioOut {
    let mut out = ScenarioOut::default();
    let (hev, trace, final_counts, result) = rec::with_recorder(false, |h| {
        let log: Log<Ev> = Log::new();
        rec::set_step(0);
        let mut b = turmoil::Builder::new();
        b.tick_duration(Duration::from_millis(s.tick_ms))
            .epoch(epoch(0))
            .rng_seed(s.rng_seed)
            .min_message_latency(Duration::from_millis(s.min_ms))
            .max_message_latency(Duration::from_millis(s.max_ms))
            .simulation_duration(Duration::from_secs(100_000));
        if let Some(c) = s.tcp_cap {
            b.tcp_capacity(c);
        }
        if let Some((lo, hi)) = s.ephemeral {
            b.ephemeral_ports(lo..=hi);
        }
        if s.random_order {
            b.enable_random_order();
        }
        if s.v6 {
            b.ip_version(turmoil::IpVersion::V6);
        }
        let mut sim = b.build();
        for hi in 0..s.nhosts {
            let log = log.clone();
            let sc = s.clone();
            sim.host(hname(hi), move || {
                let log = log.clone();
                let sc = sc.clone();
                async move {
                    for (id, c) in sc.conns.iter().enumerate() {
                        if c.host == hi {
                            tokio::task::spawn_local(connector(log.clone(), id, c.clone(), sc.clone()));
                        }
                    }
                    if hi == 0 {
                        listener_program(log, sc).await
                    } else {
                        std::future::pending::<()>().await;
                        Ok(())
                    }
                }
            });
        }
        {
            let log = log.clone();
            let sc = s.clone();
            sim.client("reporter", async move {
                // everything is dropped by end_ms; allow FINs/RSTs to land
                tokio::time::sleep(Duration::from_millis(sc.end_ms + sc.conns.iter().map(|c| c.hold).max().unwrap_or(0) + 2 * sc.max_ms + 6 * sc.tick_ms)).await;
                for hi in 0..sc.nhosts {
                    log.push(Ev::Counts { host: hi, public: turmoil::established_tcp_stream_count_on(hname(hi)) });
                }
                Ok(())
            });
        }
        let mut result = Ok(());
        let mut k = 0u64;
        loop {
            match &s.fault {
                Fault::HoldThenPartition { host, at, len1, len2 } => {
                    if k == *at {
                        log.push(Ev::Hold { host: *host });
                        sim.hold(hname(*host), hname(0));
                    }
                    if k == at + len1 {
                        log.push(Ev::Partition { host: *host, oneway: 0 });
                        sim.partition(hname(*host), hname(0));
                    }
                    if k == at + len1 + len2 {
                        sim.repair(hname(*host), hname(0));
                        sim.release(hname(*host), hname(0));
                    }
                }
                Fault::Partition { host, at, len, oneway } => {
                    if k == *at {
                        log.push(Ev::Partition { host: *host, oneway: *oneway });
                        match oneway {
                            0 => sim.partition(hname(*host), hname(0)),
                            1 => sim.partition_oneway(hname(*host), hname(0)),
                            _ => sim.partition_oneway(hname(0), hname(*host)),
                        }
                    }
                    if k == at + len {
                        sim.repair(hname(*host), hname(0));
                    }
                }
                Fault::Hold { host, at, len } => {
                    if k == *at {
                        sim.hold(hname(*host), hname(0));
                    }
                    if k == at + len {
                        sim.release(hname(*host), hname(0));
                    }
                }
                Fault::HoldThenRepair { host, at, len, gap } => {
                    if k == *at {
                        sim.hold(hname(*host), hname(0));
                    }
                    if k == at + len {
                        sim.repair(hname(*host), hname(0));
                    }
                    if k == at + len + gap {
                        sim.release(hname(*host), hname(0));
                    }
                }
                Fault::None => {}
            }
            k += 1;
            match util::step_catch(&mut sim) {
                Err(p) => {
                    result = Err(format!("panic: {p}"));
                    break;
                }
                Ok(Err(e)) => {
                    result = Err(e.to_string());
                    break;
                }
                Ok(Ok(true)) => break,
                Ok(Ok(false)) => {}
            }
        }
        let counts: Vec<(usize, usize, usize, usize)> = (0..s.nhosts).map(|hi| sim.verif_host_counts(hname(hi))).collect();
        drop(sim);
        (log.take_seq(), h.take(), counts, result)
    });
    let desc = json!({"scenario": format!("{s:?}")});
    let shape = format!(
        "fault={}|lat={}",
        match s.fault {
            Fault::None => "none",
            Fault::Partition { .. } => "partition",
            Fault::Hold { .. } => "hold",
            Fault::HoldThenPartition { .. } => "hold+partition",
            Fault::HoldThenRepair { .. } => "hold+repair",
        },
        if s.min_ms == s.max_ms { "fixed" } else { "ranged" }
    );
    if let Err(e) = &result {
        out.violate("run-failed", format!("C12|run-failed|{shape}"), format!("simulation ended with {e}"), desc.clone());
        return out;
    }
    if s.tcp_cap.is_some() {
        out.count("give_up_flood_scenarios", 1);
    }
    if s.ephemeral.is_some() {
        out.count("port_wrap_scenarios", 1);
        if s.accept_rst {
            out.count("port_wrap_scenarios_with_resetting_acceptor", 1);
        }
    }
    // merge
    let mut items: Vec<Item> = hev.iter().map(|(q, st, e)| Item::H(*q, *st, e)).collect();
    items.extend(trace.iter().filter(|t| t.protocol == "TCP SYN" || t.protocol == "TCP RST" || t.msg == "Bind" || t.msg == "Unbind").map(Item::T));
    items.sort_by_key(|i| match i {
        Item::H(q, _, _) => *q,
        Item::T(t) => t.seq,
    });
    let mut conns: Vec<CModel> = s.conns.iter().map(|_| CModel { src: None, state: CState::NotSent, call_step: 0, sent_step: 0, held: false, ret: None, cancel: None }).collect();
    let mut await_send: BTreeMap<String, usize> = BTreeMap::new(); // node name -> conn id whose Send comes next
    // peer address -> intervals (accept seq, drop seq) during which the listener host holds a stream accepted from it
    let mut held_pairs: BTreeMap<String, Vec<(u64, Option<u64>)>> = BTreeMap::new();
    let mut queued_at: BTreeMap<usize, u64> = BTreeMap::new();
    let mut listener_returned_step: Option<u64> = None;
    let mut reset_half_open: BTreeSet<usize> = BTreeSet::new();
    let mut lo_fifo: VecDeque<usize> = VecDeque::new(); // same-host connects awaiting loopback delivery
    let mut bound: Option<bool> = None; // Some(loopback_bind)
    let mut queue: VecDeque<usize> = VecDeque::new();
    let mut accepts: Vec<(String, String, Option<usize>)> = vec![]; // (peer, local, conn id)
    let mut nonces: BTreeMap<usize, Vec<u64>> = BTreeMap::new(); // accept index -> nonces read from that stream
    let mut skipped: Vec<(usize, u64, u64, String, bool)> = vec![]; // (conn id, accept seq, step, accepted peer, pair in use)
    let mut by_src: BTreeMap<String, usize> = BTreeMap::new(); // latest conn with this source address
    let mut link_held: std::collections::BTreeSet<usize> = Default::default(); // hosts whose link to h0 is held
    let min_steps = s.min_ms.div_ceil(s.tick_ms);
    let max_steps = s.max_ms.div_ceil(s.tick_ms);
    let last_step = hev.iter().map(|x| x.1).max().unwrap_or(0).max(trace.iter().map(|t| t.step).max().unwrap_or(0));
    for it in &items {
        match it {
            Item::H(seq, step, e) => match e {
                Ev::ConnCall { id, host } => {
                    conns[*id].call_step = *step;
                    let same_host = *host == 0 && matches!(s.conns[*id].target, Target::Listener | Target::ListenerViaLoopback | Target::DeadPort);
                    if same_host {
                        lo_fifo.push_back(*id);
                        conns[*id].state = CState::InFlight;
                    } else {
                        await_send.insert(hname(*host), *id);
                    }
                }
                Ev::ConnOk { id, local, peer } => {
                    conns[*id].ret = Some((*seq, *step, Ok((local.clone(), peer.clone()))));
                    await_send.retain(|_, v| v != id);
                }
                Ev::ConnErr { id, kind } => {
                    conns[*id].ret = Some((*seq, *step, Err(kind.clone())));
                    await_send.retain(|_, v| v != id);
                }
                Ev::Cancelled { id } => {
                    conns[*id].cancel = Some((*seq, *step));
                    await_send.retain(|_, v| v != id);
                }
                Ev::Bind { loopback, ok, .. } => {
                    if *ok {
                        bound = Some(*loopback);
                    } else {
                        out.violate("bind-failed", format!("C12|bind-failed|{shape}"), "re-binding the listener port after the previous listener was dropped failed".into(), desc.clone());
                    }
                }
                Ev::Unbind { .. } => {
                    for id in queue.drain(..) {
                        if conns[id].state == CState::Queued {
                            conns[id].state = CState::ListenerDropped { step: *step };
                        }
                    }
                    bound = None;
                }
                Ev::Accept { peer, local } => {
                    // pop the model queue up to this peer; skipped entries must have given up, or
                    // reuse the address pair of a stream this host still holds (refused): whether a
                    // skipped connector was refused is only known later, so skips are judged at the end
                    let mut found = None;
                    while let Some(id) = queue.pop_front() {
                        let pair_in_use = conns[id].src.as_ref().map(|a| held_pairs.get(a).map(|iv| iv.iter().any(|(from, to)| *from < *seq && to.map(|t| t > queued_at.get(&id).copied().unwrap_or(0)).unwrap_or(true))).unwrap_or(false)).unwrap_or(false);
                        let pair_in_use = pair_in_use || reset_half_open.contains(&id);
                        if conns[id].src.as_deref() == Some(peer.as_str()) && !pair_in_use {
                            found = Some(id);
                            break;
                        }
                        if conns[id].src.as_deref() == Some(peer.as_str()) && queue.iter().all(|q| conns[*q].src.as_deref() != Some(peer.as_str())) {
                            // the only queued request from that address: it is the one accepted
                            found = Some(id);
                            break;
                        }
                        skipped.push((id, *seq, *step, peer.clone(), pair_in_use));
                    }
                    held_pairs.entry(peer.clone()).or_default().push((*seq, None));
                    match found {
                        Some(id) => {
                            conns[id].state = CState::Accepted { step: *step, seq: *seq };
                            accepts.push((peer.clone(), local.clone(), Some(id)));
                        }
                        None => {
                            out.violate("phantom-accept", format!("C12|phantom-accept|{shape}"), format!("accept returned a stream from {peer} whose SYN was never queued at this listener (step {step})"), desc.clone());
                            accepts.push((peer.clone(), local.clone(), None));
                        }
                    }
                    out.count("accepts", 1);
                }
                Ev::ListenerHostReturns => listener_returned_step = Some(*step),
                Ev::AcceptedDropped { peer } => {
                    if let Some(iv) = held_pairs.get_mut(peer).and_then(|v| v.iter_mut().rev().find(|x| x.1.is_none())) {
                        iv.1 = Some(*seq);
                    }
                }
                Ev::Nonce { peer, nonce } => {
                    // the stream most recently accepted from that address
                    if let Some(ai) = accepts.iter().rposition(|a| a.0 == *peer) {
                        nonces.entry(ai).or_default().push(*nonce);
                    }
                }
                Ev::Counts { host, public } => {
                    out.count("final_count_samples", 1);
                    if *public != 0 {
                        out.violate(
                            "stream-count-nonzero",
                            format!("C12|stream-count-nonzero|public|{shape}"),
                            format!("established_tcp_stream_count_on(h{host}) = {public} after every stream and every pending connect was dropped"),
                            desc.clone(),
                        );
                    }
                }
                Ev::Hold { host } => {
                    link_held.insert(*host);
                    // SYNs definitely still in flight are captured by the hold
                    for (id, c) in conns.iter_mut().enumerate() {
                        if c.state == CState::InFlight && s.conns[id].host == *host && c.sent_step + min_steps > *step {
                            c.held = true;
                        }
                    }
                }
                Ev::Partition { host, oneway } => {
                    if *oneway != 2 {
                        for (id, c) in conns.iter_mut().enumerate() {
                            if c.state == CState::InFlight && s.conns[id].host == *host && *host != 0 {
                                // certainly still on the link: parked by a hold, or its minimum
                                // latency has not elapsed; otherwise it may already count as arrived
                                if c.held || c.sent_step + min_steps > *step {
                                    c.state = CState::PartitionDropped { step: *step };
                                    out.count("syns_in_flight_at_partition", 1);
                                    if c.held {
                                        out.count("held_syns_at_partition", 1);
                                    }
                                } else {
                                    out.count("syns_undetermined_at_partition", 1);
                                }
                            }
                        }
                    }
                }
            },
            Item::T(t) => {
                if t.protocol == "TCP RST" && t.msg == "Delivered" {
                    // a reset that reaches a connector whose request is still pending destroys its
                    // half-open socket (the stream has no identity beyond the address pair, the
                    // reset may belong to an earlier connection): that request can only be refused
                    for (id, c) in conns.iter().enumerate() {
                        if c.src.as_deref() == Some(t.dst.as_str()) && matches!(c.state, CState::InFlight | CState::Queued) && c.ret.is_none() {
                            reset_half_open.insert(id);
                        }
                    }
                    continue;
                }
                if t.protocol != "TCP SYN" {
                    continue;
                }
                match t.msg.as_str() {
                    "Send" => {
                        if let Some(id) = await_send.remove(&t.node) {
                            conns[id].src = Some(t.src.clone());
                            conns[id].state = CState::InFlight;
                            conns[id].sent_step = t.step;
                            conns[id].held = link_held.contains(&s.conns[id].host);
                            by_src.insert(t.src.clone(), id);
                        }
                    }
                    "Drop" => {
                        if let Some(id) = by_src.get(&t.src) {
                            if conns[*id].state == CState::InFlight {
                                conns[*id].state = CState::WireDropped;
                                out.count("syns_dropped_by_partition", 1);
                            }
                        }
                    }
                    "Delivered" => {
                        let same_ip = t.src.rsplit_once(':').map(|x| x.0) == t.dst.rsplit_once(':').map(|x| x.0);
                        let id = if ip_is_loopback(&t.src) || same_ip {
                            let id = lo_fifo.pop_front();
                            if let Some(id) = id {
                                conns[id].src = Some(t.src.clone());
                                by_src.insert(t.src.clone(), id);
                            }
                            id
                        } else {
                            by_src.get(&t.src).copied()
                        };
                        let Some(id) = id else { continue };
                        out.count("syns_delivered", 1);
                        if let CState::PartitionDropped { step } = conns[id].state {
                            // the obligation (refuse promptly) stays; the delivery itself is a violation
                            out.violate(
                                "syn-survived-partition",
                                format!("C12|syn-survived-partition|{shape}"),
                                format!("connector #{id}'s SYN was in flight (or held) when its direction was partitioned after step {step}, yet it was delivered in step {}", t.step),
                                desc.clone(),
                            );
                            continue;
                        }
                        let dport = port_of(&t.dst);
                        let matches = match bound {
                            Some(lo_bind) => dport == PORT && (!lo_bind || ip_is_loopback(&t.dst)),
                            None => false,
                        };
                        if matches {
                            conns[id].state = CState::Queued;
                            queue.push_back(id);
                            queued_at.insert(id, t.seq);
                        } else {
                            conns[id].state = CState::Unmatched { step: t.step };
                        }
                    }
                    _ => {}
                }
            }
        }
    }
    for (id, seq, step, peer, pair_in_use) in &skipped {
        let gave_up = conns[*id].cancel.map(|c| c.0 < *seq).unwrap_or(false);
        let refused = matches!(&conns[*id].ret, Some((_, _, Err(k))) if k == "ConnectionRefused");
        if gave_up {
            out.count("cancelled_connectors_skipped_by_accept", 1);
        } else if *pair_in_use && refused {
            out.count("requests_refused_because_the_address_pair_is_still_in_use", 1);
        } else {
            out.violate(
                "accept-order",
                format!("C12|accept-order|{shape}"),
                format!("accept returned {peer} although connector #{id} ({:?}) arrived earlier and was still waiting (step {step})", conns[*id].src),
                desc.clone(),
            );
        }
    }
    // per-connector verdicts
    let grace = 2u64;
    // first step from which a held (never partitioned) link is healthy again
    let released_from = match s.fault {
        Fault::Hold { at, len, .. } => Some(at + len + 1),
        Fault::HoldThenRepair { at, len, gap, .. } => Some(at + len + gap + 1),
        _ => None,
    };
    // requests parked by the hold (sent while it lasted) that moved again after the release
    let window = match s.fault {
        Fault::Hold { host, at, len } => Some((host, at, at + len, false)),
        Fault::HoldThenRepair { host, at, len, gap } => Some((host, at, at + len + gap, true)),
        _ => None,
    };
    if let Some((fh, from, to, repaired)) = window {
        for (id, c) in conns.iter().enumerate() {
            if s.conns[id].host == fh && c.sent_step > from && c.sent_step < to && !matches!(c.state, CState::InFlight | CState::NotSent) {
                out.count("syns_parked_by_hold_processed_after_release", 1);
                if repaired && c.sent_step < to.saturating_sub(match s.fault { Fault::HoldThenRepair { gap, .. } => gap, _ => 0 }) {
                    out.count("syns_parked_across_repair_processed_after_release", 1);
                }
            }
        }
    }
    for (id, c) in conns.iter().enumerate() {
        let tgt = s.conns[id].target;
        let ok = matches!(c.ret, Some((_, _, Ok(_))));
        let err_kind = match &c.ret {
            Some((_, _, Err(k))) => Some(k.clone()),
            _ => None,
        };
        let ret_step = c.ret.as_ref().map(|r| r.1);
        let cancelled_before = |step: u64| c.cancel.map(|x| x.1 <= step + grace).unwrap_or(false);
        out.saw("connector_outcomes", format!("{:?}->{}", std::mem::discriminant(&c.state), if ok { "ok" } else if err_kind.is_some() { "err" } else if c.cancel.is_some() { "cancelled" } else { "pending" }).replace("Discriminant", ""));
        let mut must_refuse = |why: &str, by_step: u64, out: &mut ScenarioOut| {
            out.count("refusals_expected", 1);
            if ok {
                out.violate("connect-ok-unexpected", format!("C12|connect-ok-unexpected|{why}|{shape}"), format!("connector #{id} ({tgt:?}) succeeded although {why}"), desc.clone());
            } else if let Some(k) = &err_kind {
                if k != "ConnectionRefused" {
                    out.violate("wrong-error", format!("C12|wrong-error|{k}|{why}|{shape}"), format!("connector #{id} ({tgt:?}) failed with {k}, expected ConnectionRefused ({why})"), desc.clone());
                } else if ret_step.unwrap_or(0) > by_step + grace {
                    out.violate("refusal-late", format!("C12|refusal-late|{why}|{shape}"), format!("connector #{id}: refusal arrived in step {:?}, expected by step {} ({why})", ret_step, by_step + grace), desc.clone());
                } else {
                    out.count("refusals_observed", 1);
                }
            } else if !cancelled_before(by_step) {
                out.violate(
                    "connect-hangs",
                    format!("C12|connect-hangs|{why}|{shape}"),
                    format!("connector #{id} ({tgt:?}, called step {}) was still pending {} steps after it had to be refused ({why}); cancel {:?}", c.call_step, grace, c.cancel),
                    desc.clone(),
                );
            }
        };
        match &c.state {
            CState::NotSent => {
                if tgt == Target::NoHost {
                    must_refuse("no host owns the address", c.call_step, &mut out);
                } else if ok {
                    out.violate("connect-ok-unexpected", format!("C12|connect-ok-unexpected|no-syn|{shape}"), format!("connector #{id} succeeded but no SYN was seen on the wire"), desc.clone());
                }
            }
            CState::WireDropped => must_refuse("its SYN was dropped by an explicit partition", c.call_step, &mut out),
            CState::Unmatched { step } => must_refuse("no matching listener was bound when its SYN arrived", *step, &mut out),
            CState::PartitionDropped { step } => must_refuse("its SYN was still in flight (or held) when the direction was partitioned", *step, &mut out),
            CState::ListenerDropped { step } => must_refuse("the listener was dropped before accepting it", *step, &mut out),
            CState::InFlight if matches!(s.fault, Fault::None) && (tgt == Target::Listener || tgt == Target::DeadPort) && s.conns[id].host != 0 && c.sent_step > 0 && c.sent_step + max_steps + 3 + grace < last_step => {
                // a request on a healthy link is handed to the destination host's network stack
                // within the latency bound; there it is queued, or refused
                out.count("requests_never_processed_by_the_destination", 1);
                let why = match listener_returned_step {
                    Some(rs) if rs <= c.sent_step + max_steps + 1 => "the listener host's software had returned: its network stack no longer answers",
                    _ => "its SYN was never handed to the destination host",
                };
                must_refuse(why, c.sent_step + max_steps + 1, &mut out);
            }
            CState::InFlight
                if released_from.is_some()
                    && listener_returned_step.is_none()
                    && (tgt == Target::Listener || tgt == Target::DeadPort)
                    && s.conns[id].host != 0
                    && c.sent_step > 0
                    && c.sent_step.max(released_from.unwrap()) + max_steps + 3 + grace < last_step =>
            {
                // the link was held for a while and released (never partitioned): from the
                // release on it is healthy, so a request parked by the hold, or sent later, is
                // handed to the destination within the latency bound counted from then
                out.count("requests_never_processed_after_release", 1);
                must_refuse("its SYN was never handed to the destination host although the held link had been released", c.sent_step.max(released_from.unwrap()) + max_steps + 1, &mut out);
            }
            CState::InFlight | CState::Queued => {
                if ok {
                    out.violate("connect-ok-unexpected", format!("C12|connect-ok-unexpected|never-accepted|{shape}"), format!("connector #{id} succeeded although no accept returned its stream (state {:?})", c.state), desc.clone());
                }
            }
            CState::Accepted { step, seq } => {
                out.count("connects_accepted", 1);
                let raced = c.cancel.map(|x| x.0 > *seq).unwrap_or(false);
                if !ok && !raced {
                    out.violate(
                        "accepted-but-connect-failed",
                        format!("C12|accepted-but-connect-failed|{shape}"),
                        format!("connector #{id}'s stream was accepted in step {step} but connect returned {:?} / cancel {:?}", c.ret.as_ref().map(|r| &r.2), c.cancel),
                        desc.clone(),
                    );
                }
                if ok {
                    if ret_step.unwrap_or(0) > *step + grace {
                        out.violate("connect-late", format!("C12|connect-late|{shape}"), format!("connector #{id} accepted in step {step} but connect returned in step {ret_step:?}"), desc.clone());
                    }
                    // mirrored addresses + nonce
                    let (local, peer) = match &c.ret {
                        Some((_, _, Ok(x))) => x.clone(),
                        _ => unreachable!(),
                    };
                    let acc: Vec<&(String, String, Option<usize>)> = accepts.iter().filter(|a| a.2 == Some(id)).collect();
                    if acc.len() != 1 {
                        out.violate("accept-count", format!("C12|accept-count|{}|{shape}", acc.len()), format!("connector #{id} was handed out by accept {} times", acc.len()), desc.clone());
                    } else if acc[0].0 != local || acc[0].1 != peer {
                        out.violate(
                            "addresses-not-mirrored",
                            format!("C12|addresses-not-mirrored|{shape}"),
                            format!("connector #{id} local {local} peer {peer}; accepted stream peer {} local {}", acc[0].0, acc[0].1),
                            desc.clone(),
                        );
                    }
                    let ai = accepts.iter().position(|a| a.2 == Some(id)).unwrap_or(usize::MAX);
                    let got = nonces.get(&ai).cloned().unwrap_or_default();
                    // the nonce travels as a data segment: a partition may drop
                    // it and a hold may delay it past the end of the run
                    if s.accept_rst {
                        // the accepting side never reads in this shape
                        if !got.is_empty() {
                            out.violate("nonce-mismatch", format!("C12|nonce-mismatch|{shape}"), format!("stream accepted from {local} delivered nonces {got:?} although the accepting side never read"), desc.clone());
                        }
                    } else if !matches!(s.fault, Fault::None) {
                        if !got.is_empty() && got != vec![id as u64] {
                            out.violate("nonce-mismatch", format!("C12|nonce-mismatch|{shape}"), format!("stream accepted from {local} delivered nonces {got:?}, expected [{id}]"), desc.clone());
                        }
                    } else if got != vec![id as u64] {
                        out.violate("nonce-mismatch", format!("C12|nonce-mismatch|{shape}"), format!("stream accepted from {local} delivered nonces {got:?}, expected [{id}]"), desc.clone());
                    } else {
                        out.count("nonces_matched", 1);
                    }
                }
            }
        }
    }
    for (hi, c) in final_counts.iter().enumerate() {
        if c.2 != 0 {
            out.violate(
                "stream-count-nonzero",
                format!("C12|stream-count-nonzero|table|{shape}"),
                format!("host h{hi} still has {} stream-table entries after every stream and pending connect was dropped", c.2),
                desc.clone(),
            );
        }
    }
    out.count("requests_reset_while_half_open", reset_half_open.len() as u64);
    out.count("connectors", conns.len() as u64);
    out.count("cancelled_connectors", conns.iter().filter(|c| c.cancel.is_some()).count() as u64);
    out.count("listener_lifetimes", s.lifetimes.len() as u64);
    let mut h = Fnv::new();
    for (_, st, e) in &hev {
        h.write_u64(*st);
        h.write_str(&format!("{e:?}"));
    }
    out.digest = h.finish();
    out.nontrivial = conns.iter().filter(|c| matches!(c.state, CState::Accepted { .. })).count() >= 1 && conns.iter().any(|c| !matches!(c.state, CState::Accepted { .. }));
    out.sample = Some(json!({
        "tick_ms": s.tick_ms, "latency_ms": [s.min_ms, s.max_ms], "hosts": s.nhosts, "fault": format!("{:?}", s.fault),
        "lifetimes": s.lifetimes.iter().map(|l| format!("{l:?}")).collect::<Vec<_>>(),
        "connectors": s.conns.iter().map(|l| format!("{l:?}")).collect::<Vec<_>>(),
        "model_states": conns.iter().map(|c| format!("{:?} ret={:?} cancel={:?}", c.state, c.ret.as_ref().map(|r| (&r.1, &r.2)), c.cancel.map(|x| x.1))).collect::<Vec<_>>(),
    }));
    out
}

pub fn run(ctx: &Ctx) -> ! {
    if ctx.replay.is_some() {
        let w = vcore::read_replay(ctx).expect("replay file");
        let seed = w["scenario_seed"].as_u64().unwrap_or(0);
        let report = vcore::run_single(ctx, move |_| scenario(gen(seed)));
        vcore::finish(ctx, report, fin());
    }
    let n = ctx.pick(30_000u64, 500_000);
    let c2 = ctx.clone();
    let report = vcore::run_parallel(
        ctx,
        n,
        RunOpts { budget_s: ctx.pick(60.0, 600.0), scenario_timeout_s: 120.0 },
        move |idx| {
            let seed = c2.scenario_seed("c12", idx);
            let mut out = scenario(gen(seed));
            for v in out.violations.iter_mut() {
                v.witness["scenario_seed"] = json!(seed);
            }
            out
        },
    );
    vcore::finish(ctx, report, fin());
}

fn fin() -> Finish<'static> {
    Finish {
        level: "exploration",
        rule: "seeded scenarios: 1-3 listener lifetimes (wildcard or localhost bind, 0-5 accepts with gaps, drop, re-bind) on host h0, 2-6 connectors on 1-4 hosts (incl. the listener's host via its address and via 127.0.0.1) to the listener / a dead port / an unowned address, 40% with a timeout that cancels them, fixed and ranged latencies, partition (both / one-way) or hold around the handshake, IPv4/IPv6; the wire trace drives a queue model that fixes each connect's obligatory outcome; non-trivial = >=1 connect accepted and >=1 not accepted; distinct = digest of the API history",
        assumptions: vec![
            "live pending requests stay far below tcp_capacity (documented panic); in the give-up flood shape (tcp_capacity 3-5) never more than one request is pending while the listener is parked in accept".into(),
            "a connector whose timeout fires after its stream was accepted may see either outcome".into(),
            "prompt = within 2 steps of the deciding wire/API event".into(),
        ],
        min_distinct: 100,
        required_counters: vec!["syns_in_flight_at_partition", "held_syns_at_partition", "connects_accepted", "refusals_observed", "cancelled_connectors_skipped_by_accept", "syns_dropped_by_partition", "nonces_matched", "final_count_samples", "give_up_flood_scenarios", "port_wrap_scenarios", "port_wrap_scenarios_with_resetting_acceptor", "requests_refused_because_the_address_pair_is_still_in_use", "syns_parked_by_hold_processed_after_release", "syns_parked_across_repair_processed_after_release"],
    }
}
