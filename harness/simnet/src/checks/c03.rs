//! C03 — nothing sent across an explicitly partitioned direction is delivered.
//!
//! History: uniquely numbered UDP datagrams and TCP probes (connect + one
//! record) between every ordered host pair, partition / partition_oneway /
//! repair / repair_oneway calls from the Sim handle (between steps) or from host
//! code, all in one totally ordered log. Monitor: per-direction two-state
//! automaton driven only by the logged calls; each message is classified
//! blocked / in-flight-dropped / must-arrive / undetermined with the timing
//! model of DESIGN.md §2 and compared with the receive log.

use crate::rec::{self, Log};
use crate::util::{self, epoch};
use serde_json::json;
use std::collections::{BTreeMap, BTreeSet};
use std::net::IpAddr;
use std::time::Duration;
use tokio::io::AsyncReadExt;
use turmoil::net::{TcpListener, TcpStream, UdpSocket};
use vcore::{Ctx, Finish, Fnv, Rng, RunOpts, ScenarioOut};

#[derive(Clone, Copy, Debug, PartialEq, Eq)]
enum Op {
    Partition,
    PartitionOneway,
    Repair,
    RepairOneway,
}

#[derive(Clone, Debug)]
enum Sel {
    Name(usize),
    Ip(usize),
    Regex(Vec<usize>),
}

fn sel_hosts(s: &Sel) -> Vec<usize> {
    match s {
        Sel::Name(i) | Sel::Ip(i) => vec![*i],
        Sel::Regex(v) => v.clone(),
    }
}

#[derive(Clone, Debug)]
enum Placement {
    /// from the Sim handle after step k (k = 0: before the first step)
    AfterStep(u64),
    /// from host h's code at host time t ms
    Host(usize, u64),
}

#[derive(Clone, Debug)]
struct Call {
    op: Op,
    x: Sel,
    y: Sel,
    at: Placement,
}

#[derive(Clone, Debug)]
struct Scn {
    tick_ms: u64,
    min_ms: u64,
    max_ms: u64,
    fail_rate: f64,
    repair_rate: f64,
    random_order: bool,
    rng_seed: u64,
    nhosts: usize,
    /// registration order (so either address order of A and B occurs)
    order: Vec<usize>,
    calls: Vec<Call>,
    send_period_ms: u64,
    tcp_period_ms: u64,
    /// long-lived conversations (one stream per ordered host pair, both sides write every
    /// period and close at a seeded time); 0 = none
    conv_period_ms: u64,
    stop_step: u64,
}

#[derive(Clone, Debug)]
enum Ev {
    Call { op: Op, x: Vec<usize>, y: Vec<usize> },
    Sent { src: usize, dst: usize, seq: u64 },
    Recv { src: usize, dst: usize, seq: u64 },
    ConnCall { src: usize, dst: usize, id: u64 },
    ConnRet { id: u64, ok: bool, kind: String },
    DataSent { src: usize, dst: usize, id: u64 },
    TcpRecv { id: u64 },
    /// conversation stream `id` is established as seen by `host`
    ConvUp { id: u64, host: usize, peer: usize },
    /// `host` closed its side (dropped the stream)
    ConvClose { id: u64, host: usize },
    /// `host` learned from the stream that the peer is gone: EOF / reset on read, error on write
    ConvEnd { id: u64, host: usize, peer: usize, how: String },
}

fn hname(i: usize) -> String {
    format!("h{i}")
}

fn now_ms() -> u64 {
    turmoil::elapsed().as_millis() as u64
}

fn do_call_host(op: Op, x: &Sel, y: &Sel, ips: &[IpAddr]) {
    fn re(v: &[usize]) -> regex::Regex {
        let alt: Vec<String> = v.iter().map(|i| format!("h{i}")).collect();
        regex::Regex::new(&format!("^({})$", alt.join("|"))).unwrap()
    }
    macro_rules! with_sel {
        ($sel:expr, |$v:ident| $body:expr) => {
            match $sel {
                Sel::Name(i) => {
                    let $v = hname(*i);
                    $body
                }
                Sel::Ip(i) => {
                    let $v = ips[*i];
                    $body
                }
                Sel::Regex(v) => {
                    let $v = re(v);
                    $body
                }
            }
        };
    }
    match op {
        Op::Partition => with_sel!(x, |a| with_sel!(y, |b| turmoil::partition(a, b))),
        Op::PartitionOneway => with_sel!(x, |a| with_sel!(y, |b| turmoil::partition_oneway(a, b))),
        Op::Repair => with_sel!(x, |a| with_sel!(y, |b| turmoil::repair(a, b))),
        Op::RepairOneway => with_sel!(x, |a| with_sel!(y, |b| turmoil::repair_oneway(a, b))),
    }
}

fn do_call_sim(sim: &turmoil::Sim<'_>, op: Op, x: &Sel, y: &Sel, ips: &[IpAddr]) {
    fn re(v: &[usize]) -> regex::Regex {
        let alt: Vec<String> = v.iter().map(|i| format!("h{i}")).collect();
        regex::Regex::new(&format!("^({})$", alt.join("|"))).unwrap()
    }
    macro_rules! with_sel {
        ($sel:expr, |$v:ident| $body:expr) => {
            match $sel {
                Sel::Name(i) => {
                    let $v = hname(*i);
                    $body
                }
                Sel::Ip(i) => {
                    let $v = ips[*i];
                    $body
                }
                Sel::Regex(v) => {
                    let $v = re(v);
                    $body
                }
            }
        };
    }
    match op {
        Op::Partition => with_sel!(x, |a| with_sel!(y, |b| sim.partition(a, b))),
        Op::PartitionOneway => with_sel!(x, |a| with_sel!(y, |b| sim.partition_oneway(a, b))),
        Op::Repair => with_sel!(x, |a| with_sel!(y, |b| sim.repair(a, b))),
        Op::RepairOneway => with_sel!(x, |a| with_sel!(y, |b| sim.repair_oneway(a, b))),
    }
}

async fn host_program(log: Log<Ev>, me: usize, s: Scn, ips: Vec<IpAddr>) -> turmoil::Result {
    let udp = std::rc::Rc::new(UdpSocket::bind(("0.0.0.0", 9000)).await?);
    let listener = TcpListener::bind(("0.0.0.0", 9001)).await?;
    // UDP receiver
    {
        let udp = udp.clone();
        let log = log.clone();
        tokio::task::spawn_local(async move {
            let mut buf = [0u8; 32];
            loop {
                if let Ok((16, _)) = udp.recv_from(&mut buf).await {
                    let src = u64::from_le_bytes(buf[..8].try_into().unwrap()) as usize;
                    let seq = u64::from_le_bytes(buf[8..16].try_into().unwrap());
                    log.push(Ev::Recv { src, dst: me, seq });
                }
            }
        });
    }
    // TCP acceptor
    {
        let log = log.clone();
        let s2 = s.clone();
        tokio::task::spawn_local(async move {
            loop {
                let Ok((mut st, _)) = listener.accept().await else { continue };
                let log = log.clone();
                let s3 = s2.clone();
                tokio::task::spawn_local(async move {
                    let mut b = [0u8; 8];
                    if st.read_exact(&mut b).await.is_ok() {
                        let id = u64::from_le_bytes(b);
                        if id & CONV != 0 {
                            let peer = ((id >> 8) & 0xff) as usize;
                            log.push(Ev::ConvUp { id, host: me, peer });
                            conv_side(st, log, id, me, peer, &s3).await;
                            return;
                        }
                        log.push(Ev::TcpRecv { id });
                    }
                    // wait for EOF / reset, then drop
                    let mut sink = [0u8; 8];
                    let _ = st.read(&mut sink).await;
                });
            }
        });
    }
    // controller calls placed in this host's code
    for c in s.calls.iter() {
        if let Placement::Host(h, t) = c.at {
            if h == me {
                let c = c.clone();
                let log = log.clone();
                let ips = ips.clone();
                tokio::task::spawn_local(async move {
                    tokio::time::sleep(Duration::from_millis(t)).await;
                    log.push(Ev::Call { op: c.op, x: sel_hosts(&c.x), y: sel_hosts(&c.y) });
                    do_call_host(c.op, &c.x, &c.y, &ips);
                });
            }
        }
    }
    // everybody has bound after the first two steps
    tokio::time::sleep(Duration::from_millis(2 * s.tick_ms)).await;
    // conversations: one long-lived stream to every other host
    if s.conv_period_ms > 0 {
        for dst in 0..s.nhosts {
            if dst == me {
                continue;
            }
            let log = log.clone();
            let s2 = s.clone();
            tokio::task::spawn_local(async move {
                let id = CONV | ((me as u64) << 8) | dst as u64;
                if let Ok(st) = TcpStream::connect((hname(dst), 9001)).await {
                    log.push(Ev::ConvUp { id, host: me, peer: dst });
                    let _ = st.try_write(&id.to_le_bytes());
                    conv_side(st, log, id, me, dst, &s2).await;
                }
            });
        }
    }
    // TCP probes
    if s.tcp_period_ms > 0 {
        let log = log.clone();
        let s2 = s.clone();
        tokio::task::spawn_local(async move {
            let mut n = 0u64;
            loop {
                tokio::time::sleep(Duration::from_millis(s2.tcp_period_ms)).await;
                if rec::step() > s2.stop_step {
                    break;
                }
                for dst in 0..s2.nhosts {
                    if dst == me {
                        continue;
                    }
                    let id = ((me as u64) << 48) | ((dst as u64) << 40) | n;
                    n += 1;
                    let log = log.clone();
                    tokio::task::spawn_local(async move {
                        log.push(Ev::ConnCall { src: me, dst, id });
                        match TcpStream::connect((hname(dst), 9001)).await {
                            Ok(st) => {
                                log.push(Ev::ConnRet { id, ok: true, kind: String::new() });
                                log.push(Ev::DataSent { src: me, dst, id });
                                let _ = st.try_write(&id.to_le_bytes());
                                // keep the stream open: dropping would add a FIN
                                // that the classification does not need
                                std::future::pending::<()>().await;
                                drop(st);
                            }
                            Err(e) => log.push(Ev::ConnRet { id, ok: false, kind: format!("{:?}", e.kind()) }),
                        }
                    });
                }
            }
        });
    }
    // UDP senders: one datagram to every other host per period
    let mut seq = 0u64;
    loop {
        if rec::step() > s.stop_step {
            break;
        }
        for dst in 0..s.nhosts {
            if dst == me {
                continue;
            }
            let mut b = [0u8; 16];
            b[..8].copy_from_slice(&(me as u64).to_le_bytes());
            b[8..].copy_from_slice(&seq.to_le_bytes());
            log.push(Ev::Sent { src: me, dst, seq });
            let _ = udp.send_to(&b, (hname(dst), 9000)).await;
        }
        seq += 1;
        tokio::time::sleep(Duration::from_millis(s.send_period_ms)).await;
    }
    std::future::pending::<()>().await;
    let _ = now_ms();
    Ok(())
}

const CONV: u64 = 1 << 62;

/// One side of a conversation: write a record every period, read whatever comes, close at a
/// seeded time (possibly never). Anything that tells this side the peer is gone is logged.
async fn conv_side(st: TcpStream, log: Log<Ev>, id: u64, me: usize, peer: usize, s: &Scn) {
    use tokio::io::AsyncWriteExt;
    let mut r = Rng::new(s.rng_seed ^ id.rotate_left(17) ^ me as u64);
    let horizon = s.stop_step * s.tick_ms;
    let close_at = if r.chance(0.35) { 4 * horizon + 10_000 /* never during the run; a far-future timer makes the runtime shutdown crawl */ } else { r.range(3, horizon.max(4)) };
    let (mut rd, mut wr) = st.into_split();
    let close = tokio::time::sleep(Duration::from_millis(close_at.saturating_sub(now_ms())));
    tokio::pin!(close);
    let mut tick = tokio::time::interval(Duration::from_millis(s.conv_period_ms));
    let mut buf = [0u8; 64];
    loop {
        tokio::select! {
            _ = &mut close => {
                log.push(Ev::ConvClose { id, host: me });
                return;
            }
            res = rd.read(&mut buf) => match res {
                Ok(0) => {
                    log.push(Ev::ConvEnd { id, host: me, peer, how: "read:eof".into() });
                    return;
                }
                Ok(_) => {}
                Err(e) => {
                    log.push(Ev::ConvEnd { id, host: me, peer, how: format!("read:{:?}", e.kind()) });
                    return;
                }
            },
            _ = tick.tick() => {
                if rec::step() > s.stop_step {
                    continue;
                }
                if let Err(e) = wr.write_all(&[1u8; 8]).await {
                    log.push(Ev::ConvEnd { id, host: me, peer, how: format!("write:{:?}", e.kind()) });
                    return;
                }
            }
        }
    }
}

fn ceil_steps(ms: u64, tick: u64) -> u64 {
    ms.div_ceil(tick)
}

#[derive(Debug, PartialEq, Eq, Clone, Copy)]
enum Class {
    Blocked,
    InFlightDropped,
    MustArrive,
    Undetermined,
}

/// Classify a message sent at log position `p` (step `s`) in direction x->y,
/// given the list of switch-on events (pos, step) of that direction and the
/// direction state at p.
fn classify(on_at_p: bool, p: usize, s: u64, ons: &[(usize, u64)], scn: &Scn) -> Class {
    if on_at_p {
        return Class::Blocked;
    }
    let lb = s + ceil_steps(scn.min_ms, scn.tick_ms);
    let ub = s + ceil_steps(scn.max_ms, scn.tick_ms);
    for (q, j) in ons {
        if *q > p {
            // first switch-on after the send decides
            return if lb > *j {
                Class::InFlightDropped
            } else if ub <= *j {
                Class::MustArrive
            } else {
                Class::Undetermined
            };
        }
    }
    Class::MustArrive
}

fn scenario(s: Scn, tag: &str) -> ScenarioOut {
    let mut out = ScenarioOut::default();
    let log: Log<Ev> = Log::new();
    rec::set_step(0);
    let mut b = turmoil::Builder::new();
    b.tick_duration(Duration::from_millis(s.tick_ms))
        .epoch(epoch(0))
        .rng_seed(s.rng_seed)
        .min_message_latency(Duration::from_millis(s.min_ms))
        .max_message_latency(Duration::from_millis(s.max_ms))
        .fail_rate(s.fail_rate)
        .repair_rate(s.repair_rate)
        .tcp_capacity(100_000)
        .udp_capacity(100_000)
        .simulation_duration(Duration::from_secs(1_000_000));
    if s.random_order {
        b.enable_random_order();
    }
    let mut sim = b.build();
    // resolve names in the chosen order so that address order varies
    let mut ips = vec![IpAddr::from([0, 0, 0, 0]); s.nhosts];
    for i in &s.order {
        ips[*i] = sim.lookup(hname(*i));
    }
    for i in 0..s.nhosts {
        let log = log.clone();
        let sc = s.clone();
        let ips2 = ips.clone();
        sim.host(hname(i), move || host_program(log.clone(), i, sc.clone(), ips2.clone()));
    }
    // a TCP probe started just before stop_step needs SYN latency + data latency
    let drain = 2 * ceil_steps(s.max_ms, s.tick_ms) + 6;
    let last_call_step = s
        .calls
        .iter()
        .map(|c| match c.at {
            Placement::AfterStep(k) => k,
            Placement::Host(_, t) => t / s.tick_ms + 2,
        })
        .max()
        .unwrap_or(0);
    let total = s.stop_step.max(last_call_step) + drain + 2;
    for k in 0..=total {
        for c in &s.calls {
            if let Placement::AfterStep(at) = c.at {
                if at == k {
                    log.push(Ev::Call { op: c.op, x: sel_hosts(&c.x), y: sel_hosts(&c.y) });
                    do_call_sim(&sim, c.op, &c.x, &c.y, &ips);
                }
            }
        }
        if k == total {
            break;
        }
        if let Err(e) = util::step(&mut sim) {
            out.discarded = Some(format!("step error {e}"));
            return out;
        }
    }
    drop(sim);
    let evs = log.take();
    if let Ok(id) = std::env::var("VERIF_DEBUG_ID") {
        let id = u64::from_str_radix(id.trim_start_matches("0x"), 16).unwrap_or(0);
        for (p, (st, e)) in evs.iter().enumerate() {
            let show = match e {
                Ev::Call { .. } => true,
                Ev::ConnCall { id: i, .. } | Ev::ConnRet { id: i, .. } | Ev::DataSent { id: i, .. } | Ev::TcpRecv { id: i } => *i == id,
                _ => false,
            };
            if show {
                eprintln!("{p} step {st}: {e:?}");
            }
        }
    }
    // ---- monitor -------------------------------------------------------
    let n = s.nhosts;
    let mut on = vec![vec![false; n]; n];
    let mut ons: Vec<Vec<Vec<(usize, u64)>>> = vec![vec![vec![]; n]; n];
    // first pass: direction state at each position + switch-on events
    let mut state_at: Vec<Option<bool>> = vec![None; evs.len()];
    for (p, (step, e)) in evs.iter().enumerate() {
        match e {
            Ev::Call { op, x, y } => {
                for a in x {
                    for b in y {
                        if a == b {
                            continue;
                        }
                        match op {
                            Op::Partition => {
                                on[*a][*b] = true;
                                on[*b][*a] = true;
                                ons[*a][*b].push((p, *step));
                                ons[*b][*a].push((p, *step));
                            }
                            Op::PartitionOneway => {
                                on[*a][*b] = true;
                                ons[*a][*b].push((p, *step));
                            }
                            Op::Repair => {
                                on[*a][*b] = false;
                                on[*b][*a] = false;
                            }
                            Op::RepairOneway => on[*a][*b] = false,
                        }
                    }
                }
            }
            Ev::Sent { src, dst, .. } | Ev::ConnCall { src, dst, .. } | Ev::DataSent { src, dst, .. } => state_at[p] = Some(on[*src][*dst]),
            _ => {}
        }
    }
    let healthy = s.fail_rate == 0.0;
    let mut udp_recv: BTreeMap<(usize, usize, u64), u32> = BTreeMap::new();
    let mut tcp_recv: BTreeSet<u64> = BTreeSet::new();
    let mut conn_ret: BTreeMap<u64, (bool, String)> = BTreeMap::new();
    for (_, e) in &evs {
        match e {
            Ev::Recv { src, dst, seq } => *udp_recv.entry((*src, *dst, *seq)).or_default() += 1,
            Ev::TcpRecv { id } => {
                tcp_recv.insert(*id);
            }
            Ev::ConnRet { id, ok, kind } => {
                conn_ret.insert(*id, (*ok, kind.clone()));
            }
            _ => {}
        }
    }
    let desc = json!({"scenario": format!("{s:?}"), "tag": tag});
    let callseq: Vec<String> = s.calls.iter().map(|c| format!("{:?}", c.op)).collect();
    let sigctx = format!("rates={}|{}", if healthy { "0" } else { ">0" }, callseq.join(","));
    let mut syn_class: BTreeMap<u64, Class> = BTreeMap::new();
    for (p, (step, e)) in evs.iter().enumerate() {
        match e {
            Ev::Sent { src, dst, seq } => {
                let c = classify(state_at[p].unwrap(), p, *step, &ons[*src][*dst], &s);
                let got = udp_recv.get(&(*src, *dst, *seq)).copied().unwrap_or(0);
                out.count(&format!("udp_{c:?}"), 1);
                match c {
                    Class::Blocked | Class::InFlightDropped => {
                        if got > 0 {
                            let class = if c == Class::Blocked { "delivered-across-partition" } else { "inflight-not-dropped" };
                            out.violate(
                                class,
                                format!("C03|{class}|udp|{sigctx}"),
                                format!("datagram h{src}->h{dst} seq {seq} sent in step {step} while the direction was {} was received", if c == Class::Blocked { "explicitly partitioned" } else { "about to be partitioned with the datagram still in flight" }),
                                desc.clone(),
                            );
                        }
                    }
                    Class::MustArrive => {
                        if healthy && got != 1 {
                            out.violate(
                                "unaffected-traffic-lost",
                                format!("C03|unaffected-traffic-lost|udp|got={got}|{sigctx}"),
                                format!("datagram h{src}->h{dst} seq {seq} sent in step {step} on an unpartitioned direction was received {got} times"),
                                desc.clone(),
                            );
                        }
                    }
                    Class::Undetermined => {}
                }
            }
            Ev::ConnCall { src, dst, id } => {
                let c = classify(state_at[p].unwrap(), p, *step, &ons[*src][*dst], &s);
                syn_class.insert(*id, c);
                out.count(&format!("syn_{c:?}"), 1);
                match (c, conn_ret.get(id)) {
                    (Class::Blocked | Class::InFlightDropped, Some((true, _))) => out.violate(
                        "connect-across-partition",
                        format!("C03|connect-across-partition|{sigctx}"),
                        format!("connect h{src}->h{dst} started in step {step} with its SYN direction partitioned ({c:?}) succeeded"),
                        desc.clone(),
                    ),
                    (Class::Blocked | Class::InFlightDropped, Some((false, k))) if k != "ConnectionRefused" => out.violate(
                        "connect-wrong-error",
                        format!("C03|connect-wrong-error|{k}|{sigctx}"),
                        format!("connect across a partitioned direction failed with {k}, expected ConnectionRefused"),
                        desc.clone(),
                    ),
                    (Class::Blocked, None) => out.violate(
                        "connect-hangs",
                        format!("C03|connect-hangs|{sigctx}"),
                        format!("connect h{src}->h{dst} started in step {step} across a partitioned direction never returned ({} steps run)", total),
                        desc.clone(),
                    ),
                    (Class::MustArrive, r) if healthy => {
                        if !matches!(r, Some((true, _))) {
                            out.violate(
                                "connect-failed-healthy",
                                format!("C03|connect-failed-healthy|{sigctx}"),
                                format!("connect h{src}->h{dst} started in step {step} on an unpartitioned direction did not succeed: {r:?}"),
                                desc.clone(),
                            );
                        }
                    }
                    _ => {}
                }
            }
            Ev::DataSent { src, dst, id } => {
                let c = classify(state_at[p].unwrap(), p, *step, &ons[*src][*dst], &s);
                out.count(&format!("tcpdata_{c:?}"), 1);
                let got = tcp_recv.contains(id);
                match c {
                    Class::Blocked | Class::InFlightDropped if got => out.violate(
                        "tcp-delivered-across-partition",
                        format!("C03|tcp-delivered-across-partition|{sigctx}"),
                        format!("TCP record {id:#x} h{src}->h{dst} written in step {step} across a partitioned direction ({c:?}) was read"),
                        desc.clone(),
                    ),
                    Class::MustArrive if healthy && !got => out.violate(
                        "tcp-unaffected-lost",
                        format!("C03|tcp-unaffected-lost|{sigctx}"),
                        format!("TCP record {id:#x} h{src}->h{dst} written in step {step} on an unpartitioned direction was never read"),
                        desc.clone(),
                    ),
                    _ => {}
                }
            }
            _ => {}
        }
    }
    // conversations: whatever tells `host` that `peer` is gone was carried by a message
    // peer->host; if that direction was explicitly partitioned during the whole time such a
    // message could have been in flight, it crossed the partition
    {
        let lat_steps = ceil_steps(s.max_ms, s.tick_ms);
        let mut on2 = vec![vec![false; n]; n];
        // per direction: positions where the direction was open (or became open)
        let mut last_open: Vec<Vec<(usize, u64)>> = vec![vec![(0, 0); n]; n]; // (pos, step) of the latest instant the direction was open
        let mut up_step: BTreeMap<(u64, usize), u64> = BTreeMap::new();
        for (p, (step, e)) in evs.iter().enumerate() {
            // every direction that is open now was open at this instant
            for a in 0..n {
                for b in 0..n {
                    if !on2[a][b] {
                        last_open[a][b] = (p, *step);
                    }
                }
            }
            match e {
                Ev::Call { op, x, y } => {
                    for a in x {
                        for b in y {
                            if a == b {
                                continue;
                            }
                            match op {
                                Op::Partition => {
                                    on2[*a][*b] = true;
                                    on2[*b][*a] = true;
                                }
                                Op::PartitionOneway => on2[*a][*b] = true,
                                Op::Repair => {
                                    on2[*a][*b] = false;
                                    on2[*b][*a] = false;
                                }
                                Op::RepairOneway => on2[*a][*b] = false,
                            }
                        }
                    }
                }
                Ev::ConvUp { id, host, .. } => {
                    up_step.insert((*id, *host), *step);
                    out.count("conversations_established", 1);
                }
                Ev::ConvClose { .. } => out.count("conversation_sides_closed", 1),
                Ev::ConvEnd { id, host, peer, how } => {
                    out.count("conversation_ends_observed", 1);
                    out.saw("conversation_end_kinds", how.clone());
                    let (_, open_step) = last_open[*peer][*host];
                    let up = up_step.get(&(*id, *host)).copied().unwrap_or(0);
                    if on2[*peer][*host] {
                        out.count("conversation_ends_with_direction_partitioned", 1);
                    }
                    // a message sent at the last open instant has arrived or was dropped
                    // lat_steps later; two steps of slack for the wake-up of the reader
                    if on2[*peer][*host] && open_step + lat_steps + 2 < *step && up + lat_steps + 2 < *step {
                        out.violate(
                            "notification-across-partition",
                            format!("C03|notification-across-partition|{}|{sigctx}", how),
                            format!(
                                "h{host} learned in step {step} ({how}) that its peer h{peer} closed conversation {id:#x}, but h{peer}->h{host} has been explicitly partitioned since step {open_step} (max latency {lat_steps} steps): the FIN/RST crossed the partition"
                            ),
                            desc.clone(),
                        );
                    }
                }
                _ => {}
            }
        }
    }
    out.count("calls", evs.iter().filter(|e| matches!(e.1, Ev::Call { .. })).count() as u64);
    out.saw("call_sequences", callseq.join(","));
    for c in &s.calls {
        out.saw("callers", match c.at { Placement::AfterStep(_) => "sim-handle".to_string(), Placement::Host(..) => "host-code".to_string() });
        out.saw("selectors", format!("{}/{}", match c.x { Sel::Name(_) => "name", Sel::Ip(_) => "ip", Sel::Regex(_) => "regex" }, match c.y { Sel::Name(_) => "name", Sel::Ip(_) => "ip", Sel::Regex(_) => "regex" }));
    }
    out.saw("address_order", if ips[0] < ips[1] { "A<B" } else { "A>B" }.to_string());
    let blocked = out.counters.iter().filter(|(k, _)| k == "udp_Blocked" || k == "tcpdata_Blocked" || k == "syn_Blocked").map(|(_, v)| *v).sum::<u64>();
    let inflight = out.counters.iter().filter(|(k, _)| k.ends_with("InFlightDropped")).map(|(_, v)| *v).sum::<u64>();
    let mut h = Fnv::new();
    h.write_str(&format!("{:?}", s.calls));
    h.write_u64(s.tick_ms * 1000 + s.min_ms * 10 + s.max_ms);
    for (st, e) in &evs {
        if let Ev::Recv { src, dst, seq } = e {
            h.write_u64(*st);
            h.write_u64((*src * 16 + *dst) as u64);
            h.write_u64(*seq);
        }
    }
    out.digest = h.finish();
    out.nontrivial = blocked >= 1 && inflight >= 1;
    out.sample = Some(json!({
        "tag": tag, "tick_ms": s.tick_ms, "latency_ms": [s.min_ms, s.max_ms], "fail_rate": s.fail_rate, "repair_rate": s.repair_rate, "hosts": s.nhosts,
        "calls": s.calls.iter().map(|c| format!("{c:?}")).collect::<Vec<_>>(),
        "log_excerpt": evs.iter().filter(|e| !matches!(e.1, Ev::Sent{..} | Ev::Recv{..})).take(12).map(|e| format!("step {}: {:?}", e.0, e.1)).collect::<Vec<_>>(),
        "classified": {"blocked": blocked, "inflight_dropped": inflight},
    }));
    out
}

/// The 6-letter alphabet over {A=0, B=1}.
fn letter(k: usize) -> (Op, usize, usize) {
    match k {
        0 => (Op::Partition, 0, 1),
        1 => (Op::PartitionOneway, 0, 1),
        2 => (Op::PartitionOneway, 1, 0),
        3 => (Op::Repair, 0, 1),
        4 => (Op::RepairOneway, 0, 1),
        _ => (Op::RepairOneway, 1, 0),
    }
}

fn base(r: &mut Rng, exhaustive_rates: bool) -> Scn {
    let tick_ms = r.pick_copy(&[1u64, 2, 5]);
    let (min_ms, max_ms) = match r.below(5) {
        0 => (0, 0),
        1 => (3, 3),
        2 => (7, 7),
        3 => (12, 12),
        _ => (r.pick_copy(&[0u64, 2]), r.pick_copy(&[6u64, 15])),
    };
    let (fail_rate, repair_rate) = if exhaustive_rates && r.chance(0.5) {
        (r.pick_copy(&[0.05, 0.3, 1.0]), r.pick_copy(&[0.05, 0.3, 1.0]))
    } else {
        (0.0, 1.0)
    };
    let nhosts = r.range(2, 4) as usize;
    let mut order: Vec<usize> = (0..nhosts).collect();
    r.shuffle(&mut order);
    Scn {
        tick_ms,
        min_ms,
        max_ms,
        fail_rate,
        repair_rate,
        random_order: r.coin(),
        rng_seed: r.next_u64(),
        nhosts,
        order,
        calls: vec![],
        send_period_ms: r.pick_copy(&[1u64, 1, 2, 3]),
        tcp_period_ms: if r.chance(0.6) { r.pick_copy(&[2u64, 3, 5]) } else { 0 },
        conv_period_ms: r.pick_copy(&[0u64, 1, 2, 3]),
        stop_step: 0,
    }
}

fn place(r: &mut Rng, s: &Scn, lo_ms: u64, hi_ms: u64) -> Placement {
    let t = r.range(lo_ms, hi_ms);
    if r.chance(0.5) {
        Placement::AfterStep(t / s.tick_ms)
    } else {
        Placement::Host(r.usize_below(s.nhosts), t)
    }
}

fn gen_exhaustive(seed: u64, word: &[usize]) -> Scn {
    let mut r = Rng::new(seed);
    let mut s = base(&mut r, true);
    // burst window: calls placed between 6 and 60 ms, in order
    let mut t = 4 + 2 * s.tick_ms;
    for k in word {
        let (op, a, b) = letter(*k);
        t += r.range(1, 14);
        let selx = match r.below(3) {
            0 => Sel::Ip(a),
            1 => Sel::Regex(vec![a]),
            _ => Sel::Name(a),
        };
        let sely = if r.chance(0.3) { Sel::Ip(b) } else { Sel::Name(b) };
        let at = place(&mut r, &s, t, t);
        s.calls.push(Call { op, x: selx, y: sely, at });
    }
    s.stop_step = (t + 15) / s.tick_ms + 2;
    s
}

fn gen_random(seed: u64) -> Scn {
    let mut r = Rng::new(seed);
    let mut s = base(&mut r, true);
    let mut t = 4 + 2 * s.tick_ms;
    for _ in 0..r.range(1, 12) {
        let op = r.pick_copy(&[Op::Partition, Op::PartitionOneway, Op::PartitionOneway, Op::Repair, Op::RepairOneway]);
        t += r.range(0, 12);
        let mk = |r: &mut Rng, n: usize| match r.below(4) {
            0 => Sel::Ip(r.usize_below(n)),
            1 => {
                let mut v: Vec<usize> = (0..n).filter(|_| r.coin()).collect();
                if v.is_empty() {
                    v.push(r.usize_below(n));
                }
                Sel::Regex(v)
            }
            _ => Sel::Name(r.usize_below(n)),
        };
        let x = mk(&mut r, s.nhosts);
        let y = mk(&mut r, s.nhosts);
        let at = place(&mut r, &s, t, t);
        s.calls.push(Call { op, x, y, at });
    }
    s.stop_step = (t + 15) / s.tick_ms + 2;
    s
}

fn words() -> Vec<Vec<usize>> {
    let mut w = vec![];
    for a in 0..6 {
        w.push(vec![a]);
        for b in 0..6 {
            w.push(vec![a, b]);
            for c in 0..6 {
                w.push(vec![a, b, c]);
            }
        }
    }
    w
}

/// Directed regression scenario for the one-way partition overridden by the
/// random failure process (design finding F3).
fn gen_directed_f3(seed: u64) -> Scn {
    let mut r = Rng::new(seed);
    let mut s = base(&mut r, false);
    s.fail_rate = 0.3;
    s.repair_rate = 0.5;
    s.min_ms = 0;
    s.max_ms = 0;
    s.calls = vec![Call { op: Op::PartitionOneway, x: Sel::Name(0), y: Sel::Name(1), at: Placement::AfterStep(3) }];
    s.stop_step = 200 / s.tick_ms;
    s
}

pub fn run(ctx: &Ctx) -> ! {
    let ws = words();
    let nwords = ws.len() as u64; // 258
    let reps = ctx.pick(30u64, 150);
    let nrandom = ctx.pick(40_000u64, 600_000);
    let ndirected = 8u64;
    let total = nwords * reps + nrandom + ndirected;
    let build = move |c: &Ctx, idx: u64| -> (Scn, String, u64) {
        let seed = c.scenario_seed("c03", idx);
        if idx < ndirected {
            (gen_directed_f3(seed), "directed-oneway-under-random-failures".to_string(), seed)
        } else if idx < ndirected + nwords * reps {
            let w = &ws[((idx - ndirected) % nwords) as usize];
            (gen_exhaustive(seed, w), format!("word{w:?}"), seed)
        } else {
            (gen_random(seed), "random".to_string(), seed)
        }
    };
    if ctx.replay.is_some() {
        let w = vcore::read_replay(ctx).expect("replay file");
        let idx = w["scenario_index"].as_u64().unwrap_or(0);
        let c2 = ctx.clone();
        let report = vcore::run_single(ctx, move |_| {
            let (s, tag, _) = build(&c2, idx);
            scenario(s, &tag)
        });
        vcore::finish(ctx, report, fin(false));
    }
    let c2 = ctx.clone();
    let mut report = vcore::run_parallel(
        ctx,
        total,
        RunOpts { budget_s: ctx.pick(60.0, 700.0), scenario_timeout_s: 120.0 },
        move |idx| {
            let (s, tag, seed) = build(&c2, idx);
            let mut out = scenario(s, &tag);
            if tag.starts_with("word") {
                out.saw("words_covered", tag.clone());
            }
            for v in out.violations.iter_mut() {
                v.witness["scenario_index"] = json!(idx);
                v.witness["scenario_seed"] = json!(seed);
            }
            out
        },
    );
    let covered = report.seen.get("words_covered").map(|s| s.len()).unwrap_or(0);
    report.extra.insert("call_sequences_len_le3_covered".into(), json!(covered));
    report.extra.insert("call_sequences_len_le3_total".into(), json!(nwords));
    // keep the evidence file small
    report.seen.remove("words_covered");
    report.seen.remove("call_sequences");
    report.exhaustive = Some(false);
    vcore::finish(ctx, report, fin(true));
}

fn fin(_full: bool) -> Finish<'static> {
    Finish {
        level: "fault_enumeration",
        rule: "every call sequence of length <=3 over {partition(A,B), partition_oneway(A,B), partition_oneway(B,A), repair(A,B), repair_oneway(A,B), repair_oneway(B,A)} (258 words) x sampled placements (between steps from the Sim handle / inside host code), plus random sequences of length <=12 over 2-4 hosts with name/IP/regex host sets, plus directed one-way-partition-under-random-failure runs; UDP datagrams every 1-3 ms in every direction, TCP connect+record probes and long-lived conversations (one stream per ordered host pair, both sides write periodically and close at seeded times; every EOF/reset/write error a side observes must have been carried by a message that did not cross an explicit partition); fixed and ranged latencies; fail/repair rates 0 or in {0.05,0.3,1}; non-trivial = >=1 message sent inside a partitioned interval and >=1 message definitely in flight at a switch-on; distinct = digest of (calls, latency config, receive log)",
        assumptions: vec![
            "hold/release never generated (documented unsupported mix)".into(),
            "messages whose maturity relative to a switch-on cannot be decided from the latency range are skipped and counted as Undetermined".into(),
            "keeps-flowing half only checked with fail_rate = 0".into(),
        ],
        min_distinct: 100,
        required_counters: vec!["udp_Blocked", "udp_InFlightDropped", "udp_MustArrive", "syn_Blocked", "tcpdata_MustArrive", "calls", "conversations_established", "conversation_ends_observed", "conversation_ends_with_direction_partitioned"],
    }
}
