//! C11 — Sim::run succeeds exactly when every client finished Ok in time.
//!
//! Outcome-set model: every software has an outcome script {Ok/Err/Never/Panic
//! at t}; a finish at virtual time T lands in step ceil(T/tick) (either adjacent
//! step when T is exactly on a boundary). The model enumerates the admissible
//! (outcome, step) pairs of run #1 and run #2 jointly; the observed pair must be
//! among them. A twin driven by `step` must report the same. Background tickers
//! show whether finished / crashed software is ever scheduled again.

use crate::rec::{self, Log};
use crate::util::{self, epoch};
use serde_json::json;
use std::cell::Cell;
use std::collections::BTreeSet;
use std::rc::Rc;
use std::time::Duration;
use vcore::{Ctx, Finish, Fnv, Rng, RunOpts, ScenarioOut};

#[derive(Clone, Copy, Debug, PartialEq, Eq)]
enum Kind {
    Ok,
    Err,
    Never,
    Panic,
}

#[derive(Clone, Debug)]
struct Sw {
    is_client: bool,
    kind: Kind,
    t_ms: u64,
    spawned: bool,
    phase: u8,
}

#[derive(Clone, Debug)]
struct Scn {
    tick_ms: u64,
    duration_ms: u64,
    random_order: bool,
    rng_seed: u64,
    sw: Vec<Sw>,
    two_phases: bool,
    crash_between: Vec<usize>,
    /// hosts bounced (restarted from scratch) between the two runs
    bounce_between: Vec<usize>,
}

#[derive(Clone, Debug, PartialEq, Eq, PartialOrd, Ord)]
enum Outcome {
    Ok,
    SwErr(usize),
    Duration,
    Panic,
    /// phase not executed
    None,
}

fn gen(seed: u64) -> Scn {
    let mut r = Rng::new(seed);
    let tick_ms = r.pick_copy(&[1u64, 3, 5, 10]);
    let two_phases = r.chance(0.5);
    let mut sw = vec![];
    let n0 = r.range(0, 5);
    let mk = |r: &mut Rng, phase: u8, tick: u64| {
        let is_client = r.chance(0.55);
        let kind = match r.below(20) {
            0..=11 => Kind::Ok,
            12..=13 => Kind::Err,
            14..=17 => Kind::Never,
            _ => Kind::Panic,
        };
        // hosts mostly never finish; clients mostly finish
        let kind = if !is_client && kind == Kind::Ok && r.chance(0.5) { Kind::Never } else { kind };
        let kind = if is_client && kind == Kind::Never && r.chance(0.7) { Kind::Ok } else { kind };
        let t_ms = if r.chance(0.35) { tick * r.range(0, 8) } else { r.range(0, 60) };
        Sw { is_client, kind, t_ms, spawned: r.chance(0.4), phase }
    };
    for _ in 0..n0 {
        sw.push(mk(&mut r, 0, tick_ms));
    }
    if two_phases {
        for _ in 0..r.range(0, 3) {
            sw.push(mk(&mut r, 1, tick_ms));
        }
    }
    let last = sw.iter().filter(|s| s.is_client && s.kind == Kind::Ok).map(|s| s.t_ms).max().unwrap_or(20);
    let duration_ms = match r.below(6) {
        0 => last,
        1 => last + 1,
        2 => last.saturating_sub(1).max(1),
        3 => last + tick_ms,
        _ => r.range(1, 90),
    };
    let crash_between = if two_phases {
        (0..sw.len()).filter(|i| sw[*i].phase == 0 && !sw[*i].is_client && r.chance(0.4)).collect()
    } else {
        vec![]
    };
    let bounce_between: Vec<usize> = if two_phases {
        (0..sw.len()).filter(|i| sw[*i].phase == 0 && !sw[*i].is_client && !crash_between.contains(i) && r.chance(0.35)).collect()
    } else {
        vec![]
    };
    Scn {
        tick_ms,
        duration_ms,
        random_order: r.coin(),
        rng_seed: r.next_u64(),
        sw,
        two_phases,
        crash_between,
        bounce_between,
    }
}

#[derive(Clone, Default)]
struct Probe {
    /// last step in which the background ticker of software i ran
    last_tick_step: Rc<Cell<u64>>,
    ticks: Rc<Cell<u64>>,
    /// step in which the main future was about to return (0 = not yet)
    finish_step: Rc<Cell<u64>>,
    /// number of times the software was started, and per incarnation the last
    /// step in which its background ticker ran
    starts: Rc<Cell<u32>>,
    last_tick_by_inc: Rc<std::cell::RefCell<Vec<u64>>>,
    /// last step in which the software's `tokio::spawn` (runtime-level, not LocalSet) task ran
    last_spawned_tick_step: std::sync::Arc<std::sync::atomic::AtomicU64>,
}

fn program(i: usize, sw: Sw, p: Probe, log: Log<String>) -> impl std::future::Future<Output = turmoil::Result> + 'static {
    let inc = p.starts.get() as usize;
    p.starts.set(p.starts.get() + 1);
    p.last_tick_by_inc.borrow_mut().push(0);
    async move {
        let p2 = p.clone();
        tokio::task::spawn_local(async move {
            loop {
                tokio::time::sleep(Duration::from_millis(1)).await;
                p2.ticks.set(p2.ticks.get() + 1);
                p2.last_tick_step.set(rec::step());
                p2.last_tick_by_inc.borrow_mut()[inc] = rec::step();
            }
        });
        // a task on the runtime itself (not on the software's LocalSet)
        let st = p.last_spawned_tick_step.clone();
        tokio::spawn(async move {
            loop {
                tokio::time::sleep(Duration::from_millis(1)).await;
                st.store(rec::step(), std::sync::atomic::Ordering::Relaxed);
            }
        });
        let fs = p.finish_step.clone();
        let body = async move {
            tokio::time::sleep(Duration::from_millis(sw.t_ms)).await;
            match sw.kind {
                Kind::Ok => {
                    fs.set(rec::step());
                    Ok(())
                }
                Kind::Err => {
                    fs.set(rec::step());
                    Err(format!("boom-{i}").into())
                }
                Kind::Never => {
                    std::future::pending::<()>().await;
                    Ok(())
                }
                Kind::Panic => {
                    fs.set(rec::step());
                    panic!("injected-panic-{i}")
                }
            }
        };
        let _ = &log;
        if sw.spawned {
            match tokio::task::spawn_local(body).await {
                Ok(r) => r,
                Err(e) => Err(format!("join-{i}: {e}").into()),
            }
        } else {
            body.await
        }
    }
}

#[derive(Debug, Clone, PartialEq, Eq)]
struct Obs {
    o1: Outcome,
    s1: u64,
    o2: Outcome,
    s2: u64,
}

struct Exec {
    obs: Obs,
    probes: Vec<Probe>,
    /// step after which each crashed host was crashed
    crashed_after: Vec<(usize, u64)>,
    final_step: u64,
    err_texts: Vec<String>,
}

fn classify(r: Result<turmoil::Result<()>, String>, errs: &mut Vec<String>) -> Outcome {
    match r {
        Ok(Ok(())) => Outcome::Ok,
        Ok(Err(e)) => {
            let t = e.to_string();
            errs.push(t.clone());
            if let Some(rest) = t.strip_prefix("boom-") {
                Outcome::SwErr(rest.parse().unwrap_or(usize::MAX))
            } else if t.starts_with("Ran for duration") {
                Outcome::Duration
            } else {
                Outcome::SwErr(usize::MAX)
            }
        }
        Err(_) => Outcome::Panic,
    }
}

/// Drive one phase either through `run` or through a `step` loop.
fn drive(sim: &mut turmoil::Sim<'_>, by_step: bool, has_clients: bool) -> Result<turmoil::Result<()>, String> {
    if !by_step {
        let r = std::panic::catch_unwind(std::panic::AssertUnwindSafe(|| sim.run()));
        return r.map_err(|p| vcore::take_last_panic().unwrap_or(vcore::panic_message(&*p)));
    }
    if !has_clients {
        return Ok(Ok(()));
    }
    loop {
        match util::step_catch(sim) {
            Err(p) => return Err(p),
            Ok(Err(e)) => return Ok(Err(e)),
            Ok(Ok(true)) => return Ok(Ok(())),
            Ok(Ok(false)) => {}
        }
    }
}

fn execute(s: &Scn, by_step: bool) -> Exec {
    rec::with_recorder(false, |_h| execute_inner(s, by_step))
}

fn execute_inner(s: &Scn, by_step: bool) -> Exec {
    rec::set_step(0);
    let log: Log<String> = Log::new();
    let mut b = turmoil::Builder::new();
    b.tick_duration(Duration::from_millis(s.tick_ms))
        .epoch(epoch(0))
        .rng_seed(s.rng_seed)
        .simulation_duration(Duration::from_millis(s.duration_ms));
    if s.random_order {
        b.enable_random_order();
    }
    let mut sim = b.build();
    let probes: Vec<Probe> = s.sw.iter().map(|_| Probe::default()).collect();
    let register = |sim: &mut turmoil::Sim<'_>, i: usize| {
        let sw = s.sw[i].clone();
        let p = probes[i].clone();
        let log = log.clone();
        if sw.is_client {
            sim.client(format!("n{i}"), program(i, sw, p, log));
        } else {
            sim.host(format!("n{i}"), move || program(i, sw.clone(), p.clone(), log.clone()));
        }
    };
    let mut errs = vec![];
    let mut has_clients = false;
    for i in 0..s.sw.len() {
        if s.sw[i].phase == 0 {
            register(&mut sim, i);
            has_clients |= s.sw[i].is_client;
        }
    }
    let r1 = drive(&mut sim, by_step, has_clients);
    let o1 = classify(r1, &mut errs);
    let s1 = rec::step();
    let mut obs = Obs { o1: o1.clone(), s1, o2: Outcome::None, s2: 0 };
    let mut crashed_after = vec![];
    if s.two_phases && o1 == Outcome::Ok {
        for i in &s.crash_between {
            sim.crash(format!("n{i}"));
            crashed_after.push((*i, s1));
        }
        for i in &s.bounce_between {
            sim.bounce(format!("n{i}"));
        }
        for i in 0..s.sw.len() {
            if s.sw[i].phase == 1 {
                register(&mut sim, i);
                has_clients |= s.sw[i].is_client;
            }
        }
        let r2 = drive(&mut sim, by_step, has_clients);
        obs.o2 = classify(r2, &mut errs);
        obs.s2 = rec::step();
    }
    let final_step = rec::step();
    if obs.o1 != Outcome::Panic && obs.o2 != Outcome::Panic {
        drop(sim);
    } else {
        // a Sim whose host panicked is left as-is; dropping it is fine too
        drop(sim);
    }
    Exec { obs, probes, crashed_after, final_step, err_texts: errs }
}

const INF: u64 = u64::MAX / 4;

/// Admissible steps for software i finishing, absolute (steps counted from 1).
fn finish_steps(s: &Scn, i: usize, offset_steps: u64) -> Vec<u64> {
    let t = s.sw[i].t_ms;
    let tick = s.tick_ms;
    if t == 0 {
        vec![offset_steps + 1]
    } else if t % tick == 0 {
        vec![offset_steps + t / tick, offset_steps + t / tick + 1]
    } else {
        vec![offset_steps + t.div_ceil(tick)]
    }
}

/// Evaluate one phase for one choice of finish steps. `pending`: (index, step)
/// of software still alive whose scripted event lies at or after `start`.
fn eval_phase(s: &Scn, start: u64, alive: &[(usize, u64)], has_clients: bool, by_step: bool) -> Vec<(Outcome, u64)> {
    if !has_clients {
        return vec![(Outcome::Ok, start - 1)];
    }
    let _ = by_step;
    // the duration was already exceeded before this phase began (only the step *during which* it
    // is crossed still counts as in time): a client that is still unfinished is out of time at once
    let crossing = s.duration_ms / s.tick_ms + 1;
    if start > crossing && alive.iter().any(|(i, _)| s.sw[*i].is_client) {
        // the step is still taken: software that fails or panics in that very step is reported as such
        let mut v: Vec<(Outcome, u64)> = alive
            .iter()
            .filter(|(i, c)| *c == start && matches!(s.sw[*i].kind, Kind::Err | Kind::Panic))
            .map(|(i, _)| (if s.sw[*i].kind == Kind::Err { Outcome::SwErr(*i) } else { Outcome::Panic }, start))
            .collect();
        v.push((Outcome::Duration, start));
        return v;
    }
    let mut e = INF;
    let mut f = start;
    for (i, c) in alive {
        let sw = &s.sw[*i];
        match sw.kind {
            Kind::Err | Kind::Panic => e = e.min(*c),
            Kind::Ok => {
                if sw.is_client {
                    f = f.max(*c)
                }
            }
            Kind::Never => {
                if sw.is_client {
                    f = INF
                }
            }
        }
        if sw.is_client && matches!(sw.kind, Kind::Err | Kind::Panic) {
            f = INF;
        }
    }
    let d = start.max(s.duration_ms / s.tick_ms + 1);
    let m = e.min(f).min(d);
    if e == m {
        alive
            .iter()
            .filter(|(i, c)| *c == e && matches!(s.sw[*i].kind, Kind::Err | Kind::Panic))
            .map(|(i, _)| (if s.sw[*i].kind == Kind::Err { Outcome::SwErr(*i) } else { Outcome::Panic }, e))
            .collect()
    } else if f == m {
        vec![(Outcome::Ok, f)]
    } else {
        vec![(Outcome::Duration, d)]
    }
}

/// All admissible observation pairs. The phase-2 registration offset depends on
/// where phase 1 ended, so phase 2 is evaluated per phase-1 result.
fn admissible(s: &Scn, by_step: bool) -> BTreeSet<(Outcome, u64, Outcome, u64)> {
    let mut out = BTreeSet::new();
    let p0: Vec<usize> = (0..s.sw.len()).filter(|i| s.sw[*i].phase == 0).collect();
    let p1: Vec<usize> = (0..s.sw.len()).filter(|i| s.sw[*i].phase == 1 || s.bounce_between.contains(i)).collect();
    let has_c0 = p0.iter().any(|i| s.sw[*i].is_client);
    let has_c1 = has_c0 || p1.iter().any(|i| s.sw[*i].is_client);
    let opts0: Vec<Vec<u64>> = p0.iter().map(|i| finish_steps(s, *i, 0)).collect();
    let mut idx0 = vec![0usize; p0.len()];
    loop {
        let choice0: Vec<(usize, u64)> = p0.iter().enumerate().map(|(k, i)| (*i, opts0[k][idx0[k]])).collect();
        for (o1, s1) in eval_phase(s, 1, &choice0, has_c0, by_step) {
            if !(s.two_phases && o1 == Outcome::Ok) {
                out.insert((o1.clone(), s1, Outcome::None, 0));
            } else {
                // survivors of phase 1: not crashed, event strictly after s1
                let mut alive: Vec<(usize, u64)> = choice0
                    .iter()
                    .filter(|(i, c)| *c > s1 && !s.crash_between.contains(i) && !s.bounce_between.contains(i) && s.sw[*i].kind != Kind::Never)
                    .cloned()
                    .collect();
                // a Never client from phase 0 cannot exist here (phase 1 was Ok)
                let opts1: Vec<Vec<u64>> = p1.iter().map(|i| finish_steps(s, *i, s1)).collect();
                let mut idx1 = vec![0usize; p1.len()];
                loop {
                    let base = alive.len();
                    for (k, i) in p1.iter().enumerate() {
                        alive.push((*i, opts1[k][idx1[k]]));
                    }
                    // phase-1 clients that never finish block success
                    let mut al2 = alive.clone();
                    for i in &p1 {
                        if s.sw[*i].kind == Kind::Never {
                            al2.retain(|(j, _)| j != i);
                            al2.push((*i, INF));
                        }
                    }
                    for (o2, s2) in eval_phase(s, s1 + 1, &al2, has_c1, by_step) {
                        out.insert((o1.clone(), s1, o2, s2));
                    }
                    alive.truncate(base);
                    // next idx1
                    let mut k = 0;
                    loop {
                        if k == idx1.len() {
                            break;
                        }
                        idx1[k] += 1;
                        if idx1[k] < opts1[k].len() {
                            break;
                        }
                        idx1[k] = 0;
                        k += 1;
                    }
                    if k == idx1.len() {
                        break;
                    }
                }
            }
        }
        let mut k = 0;
        loop {
            if k == idx0.len() {
                break;
            }
            idx0[k] += 1;
            if idx0[k] < opts0[k].len() {
                break;
            }
            idx0[k] = 0;
            k += 1;
        }
        if k == idx0.len() {
            break;
        }
    }
    out
}

fn scenario(s: Scn) -> ScenarioOut {
    let mut out = ScenarioOut::default();
    let desc = json!({"scenario": format!("{s:?}")});
    // Never-kind phase-0 entries must stay in phase 0 eval (Never clients block)
    let ex_run = execute(&s, false);
    let ex_step = execute(&s, true);
    let adm_run = admissible(&s, false);
    let shape = |s: &Scn| {
        let kinds: Vec<String> = s.sw.iter().map(|w| format!("{}{:?}{}", if w.is_client { "c" } else { "h" }, w.kind, if w.spawned { "s" } else { "" })).collect();
        kinds.join(",")
    };
    for (mode, ex) in [("run", &ex_run), ("step", &ex_step)] {
        let o = &ex.obs;
        let key = (o.o1.clone(), o.s1, o.o2.clone(), o.s2);
        // in step mode with zero clients the twin performs no step either (see drive)
        if !adm_run.contains(&key) {
            let class = match (&o.o1, &o.o2) {
                (Outcome::Ok, Outcome::None) | (_, Outcome::Ok) => "spurious-ok",
                (Outcome::Panic, _) | (_, Outcome::Panic) => "unexpected-panic",
                (Outcome::Duration, _) | (_, Outcome::Duration) => "wrong-duration-error",
                _ => "wrong-error",
            };
            let expected: Vec<String> = adm_run.iter().take(6).map(|k| format!("{k:?}")).collect();
            out.violate(
                class,
                format!("C11|{class}|{mode}|{}", shape(&s)),
                format!(
                    "Sim::{mode}: observed (run1 {:?} after {} steps, run2 {:?} at step {}), admissible: {}; tick {} ms duration {} ms; errors {:?}",
                    o.o1, o.s1, o.o2, o.s2, expected.join(" | "), s.tick_ms, s.duration_ms, ex.err_texts
                ),
                desc.clone(),
            );
        }
        out.saw("outcomes", format!("{:?}/{:?}", o.o1, o.o2));
        // never scheduled again: finished software
        for (i, p) in ex.probes.iter().enumerate() {
            let fs = p.finish_step.get();
            if fs > 0 && s.sw[i].kind == Kind::Ok && ex.final_step > fs && !s.bounce_between.contains(&i) {
                out.count("finished_software_observed_for_later_steps", 1);
                let spawned = p.last_spawned_tick_step.load(std::sync::atomic::Ordering::Relaxed);
                if spawned > 0 {
                    out.count("runtime_level_tasks_of_finished_software_observed", 1);
                }
                if spawned > fs {
                    out.violate(
                        "finished-software-polled",
                        format!("C11|finished-software-polled|{mode}|client={}|tokio-spawn", s.sw[i].is_client),
                        format!("software n{i} returned in step {fs} but the task it had started with tokio::spawn still ran in step {spawned}"),
                        desc.clone(),
                    );
                }
                if p.last_tick_step.get() > fs {
                    out.violate(
                        "finished-software-polled",
                        format!("C11|finished-software-polled|{mode}|client={}", s.sw[i].is_client),
                        format!("software n{i} returned in step {fs} but its background task still ran in step {}", p.last_tick_step.get()),
                        desc.clone(),
                    );
                }
            }
        }
        // a bounced host's previous incarnation (finished or not) is gone for good
        if ex.obs.o1 == Outcome::Ok && ex.obs.o2 != Outcome::None {
            for i in &s.bounce_between {
                let ticks = ex.probes[*i].last_tick_by_inc.borrow().clone();
                if ticks.len() >= 2 && ex.final_step > ex.obs.s1 {
                    out.count("bounced_software_observed_for_later_steps", 1);
                    if ticks[0] > ex.obs.s1 {
                        out.violate(
                            "old-incarnation-polled",
                            format!("C11|old-incarnation-polled|{mode}|kind={:?}", s.sw[*i].kind),
                            format!("host n{i} was bounced after step {} but a task of its previous incarnation still ran in step {}", ex.obs.s1, ticks[0]),
                            desc.clone(),
                        );
                    }
                }
            }
        }
        for (i, after) in &ex.crashed_after {
            if ex.final_step > *after {
                out.count("crashed_software_observed_for_later_steps", 1);
                let spawned = ex.probes[*i].last_spawned_tick_step.load(std::sync::atomic::Ordering::Relaxed);
                if spawned > *after && !s.bounce_between.contains(i) {
                    out.violate(
                        "crashed-software-polled",
                        format!("C11|crashed-software-polled|{mode}|tokio-spawn"),
                        format!("host n{i} crashed after step {after} but the task it had started with tokio::spawn still ran in step {spawned}"),
                        desc.clone(),
                    );
                }
                if ex.probes[*i].last_tick_step.get() > *after {
                    out.violate(
                        "crashed-software-polled",
                        format!("C11|crashed-software-polled|{mode}"),
                        format!("host n{i} crashed after step {after} but its task still ran in step {}", ex.probes[*i].last_tick_step.get()),
                        desc.clone(),
                    );
                }
            }
        }
    }
    let any_client = s.sw.iter().any(|w| w.is_client && w.phase == 0);
    if any_client && ex_run.obs != ex_step.obs {
        out.violate(
            "step-run-disagree",
            format!("C11|step-run-disagree|{}", shape(&s)),
            format!("run reported {:?} but a step loop over the same scenario reported {:?}", ex_run.obs, ex_step.obs),
            desc.clone(),
        );
    }
    if ex_run.obs.o1 == Outcome::Panic || ex_run.obs.o2 == Outcome::Panic {
        out.count("panics_surfaced", 1);
    }
    if matches!(ex_run.obs.o1, Outcome::SwErr(_)) || matches!(ex_run.obs.o2, Outcome::SwErr(_)) {
        out.count("software_errors_surfaced", 1);
    }
    if ex_run.obs.o1 == Outcome::Duration || ex_run.obs.o2 == Outcome::Duration {
        out.count("duration_errors", 1);
    }
    if ex_run.obs.o1 == Outcome::Ok {
        out.count("run_ok", 1);
    }
    if adm_run.len() > 1 {
        out.count("scenarios_with_boundary_ambiguity", 1);
    }
    if !s.bounce_between.is_empty() && ex_run.obs.o1 == Outcome::Ok {
        out.count("scenarios_with_bounce_between_runs", 1);
        if ex_run.obs.o2 == Outcome::Panic {
            out.count("panics_surfaced_after_bounce", 1);
        }
    }
    if s.sw.iter().all(|w| !w.is_client) {
        out.count("zero_client_scenarios", 1);
    }
    let mut h = Fnv::new();
    h.write_str(&format!("{:?}{:?}", s.sw, ex_run.obs));
    h.write_u64(s.tick_ms);
    h.write_u64(s.duration_ms);
    out.digest = h.finish();
    out.nontrivial = s.sw.len() >= 2;
    out.sample = Some(json!({
        "tick_ms": s.tick_ms, "duration_ms": s.duration_ms, "software": s.sw.iter().map(|w| format!("{w:?}")).collect::<Vec<_>>(),
        "crash_between_runs": s.crash_between, "observed_run": format!("{:?}", ex_run.obs), "observed_step_twin": format!("{:?}", ex_step.obs),
        "admissible": adm_run.iter().take(4).map(|k| format!("{k:?}")).collect::<Vec<_>>(),
    }));
    out
}

pub fn run(ctx: &Ctx) -> ! {
    if ctx.replay.is_some() {
        let w = vcore::read_replay(ctx).expect("replay file");
        let seed = w["scenario_seed"].as_u64().unwrap_or(0);
        let report = vcore::run_single(ctx, move |_| scenario(gen(seed)));
        vcore::finish(ctx, report, fin());
    }
    let n = ctx.pick(50_000, 800_000);
    let c2 = ctx.clone();
    let report = vcore::run_parallel(
        ctx,
        n,
        RunOpts { budget_s: ctx.pick(60.0, 600.0), scenario_timeout_s: 120.0 },
        move |idx| {
            let seed = c2.scenario_seed("c11", idx);
            let mut out = scenario(gen(seed));
            for v in out.violations.iter_mut() {
                v.witness["scenario_seed"] = json!(seed);
            }
            out
        },
    );
    vcore::finish(ctx, report, fin());
}

fn fin() -> Finish<'static> {
    Finish {
        level: "exploration",
        rule: "seeded mixes of 0-8 clients/hosts with outcome scripts {Ok,Err,Never,Panic at t} in main futures or spawned tasks, tick in {1,3,5,10 ms}, durations incl. non-multiples of the tick and exact-boundary finishes, second run after registering more software / crashing hosts, random order on/off; each scenario executed through Sim::run and through a step loop; non-trivial = >=2 software; distinct = digest of (scripts, tick, duration, observed outcome)",
        assumptions: vec![
            "built with --cfg tokio_unstable (panic forwarding)".into(),
            "a finish exactly on a step boundary may be attributed to either adjacent step".into(),
        ],
        min_distinct: 100,
        required_counters: vec!["panics_surfaced", "software_errors_surfaced", "duration_errors", "run_ok", "finished_software_observed_for_later_steps", "crashed_software_observed_for_later_steps", "zero_client_scenarios", "panics_surfaced_after_bounce", "bounced_software_observed_for_later_steps", "runtime_level_tasks_of_finished_software_observed"],
    }
}
