//! C08 — held links deliver nothing until released, then everything exactly
//! once in order; `Sim::links` shows exactly what is in flight.
//!
//! History: uniquely numbered UDP datagrams and TCP probes per direction, hold /
//! release calls (Sim handle between steps, host code), manual
//! `SentRef::deliver` calls and `Sim::links` snapshots, all in one total order.
//! Monitor: per-message state machine InFlight[lb,ub] / Held / Arrived driven by
//! the logged calls (timing model of DESIGN.md §2); receipts must not fall
//! inside a held interval, every message is received exactly once, groups
//! released together arrive in send order, link snapshots equal the model.

use crate::rec::{self, Log};
use crate::util::{self, epoch, ns};
use serde_json::json;
use std::collections::{BTreeMap, BTreeSet};
use std::net::IpAddr;
use std::time::Duration;
use tokio::io::AsyncReadExt;
use turmoil::net::{TcpListener, TcpStream, UdpSocket};
use vcore::{Ctx, Finish, Fnv, Rng, RunOpts, ScenarioOut};

#[derive(Clone, Debug)]
enum Sel {
    Name(usize),
    Regex(Vec<usize>),
}
fn sel_hosts(s: &Sel) -> Vec<usize> {
    match s {
        Sel::Name(i) => vec![*i],
        Sel::Regex(v) => v.clone(),
    }
}

#[derive(Clone, Debug)]
enum Act {
    Hold(Sel, Sel),
    Release(Sel, Sel),
    /// manually deliver the listed datagrams (src, dst, seq) through Sim::links
    Deliver(Vec<(usize, usize, u64)>),
}

#[derive(Clone, Debug)]
enum Placement {
    AfterStep(u64),
    Host(usize, u64),
}

#[derive(Clone, Debug)]
struct Traffic {
    src: usize,
    dst: usize,
    period_ms: u64,           // 0 = no periodic traffic
    bursts: Vec<(u64, u32)>, // (host time ms, count)
    tcp_period_ms: u64,       // 0 = no tcp probes
}

#[derive(Clone, Debug)]
struct Scn {
    tick_ms: u64,
    min_ms: u64,
    max_ms: u64,
    random_order: bool,
    rng_seed: u64,
    nhosts: usize,
    acts: Vec<(Placement, Act)>,
    traffic: Vec<Traffic>,
    stop_step: u64,
    sample_links: bool,
}

#[derive(Clone, Debug)]
enum Ev {
    Hold { x: Vec<usize>, y: Vec<usize>, host_code: bool },
    Release { x: Vec<usize>, y: Vec<usize>, host_code: bool },
    Deliver { src: usize, dst: usize, seq: u64 },
    Sent { src: usize, dst: usize, seq: u64, t: u64 },
    Recv { src: usize, dst: usize, seq: u64, t: u64 },
    ConnCall { src: usize, dst: usize, id: u64 },
    ConnRet { id: u64, ok: bool, kind: String },
    DataSent { src: usize, dst: usize, id: u64 },
    FinSent { src: usize, dst: usize, id: u64 },
    TcpRecv { id: u64 },
    TcpEof { id: u64 },
    /// snapshot of Sim::links taken between steps, before and right after controller actions
    Links { udp: Vec<(usize, usize, u64)>, tcp_data: Vec<u64>, syns: Vec<(usize, usize)>, other: u32 },
}

fn hname(i: usize) -> String {
    format!("h{i}")
}

fn re(v: &[usize]) -> regex::Regex {
    let alt: Vec<String> = v.iter().map(|i| format!("h{i}")).collect();
    regex::Regex::new(&format!("^({})$", alt.join("|"))).unwrap()
}

macro_rules! with_sel {
    ($sel:expr, |$v:ident| $body:expr) => {
        match $sel {
            Sel::Name(i) => {
                let $v = hname(*i);
                $body
            }
            Sel::Regex(v) => {
                let $v = re(v);
                $body
            }
        }
    };
}

fn now_ns() -> u64 {
    ns(turmoil::sim_elapsed().expect("in host"))
}

async fn host_program(log: Log<Ev>, me: usize, s: Scn) -> turmoil::Result {
    let udp = std::rc::Rc::new(UdpSocket::bind(("0.0.0.0", 9000)).await?);
    let listener = TcpListener::bind(("0.0.0.0", 9001)).await?;
    {
        let udp = udp.clone();
        let log = log.clone();
        tokio::task::spawn_local(async move {
            let mut buf = [0u8; 32];
            loop {
                if let Ok((24, _)) = udp.recv_from(&mut buf).await {
                    let src = u64::from_le_bytes(buf[..8].try_into().unwrap()) as usize;
                    let seq = u64::from_le_bytes(buf[8..16].try_into().unwrap());
                    log.push(Ev::Recv { src, dst: me, seq, t: now_ns() });
                }
            }
        });
    }
    {
        let log = log.clone();
        tokio::task::spawn_local(async move {
            loop {
                let Ok((mut st, _)) = listener.accept().await else { continue };
                let log = log.clone();
                tokio::task::spawn_local(async move {
                    let mut b = [0u8; 8];
                    if st.read_exact(&mut b).await.is_ok() {
                        let id = u64::from_le_bytes(b);
                        log.push(Ev::TcpRecv { id });
                        let mut sink = [0u8; 8];
                        if let Ok(0) = st.read(&mut sink).await {
                            log.push(Ev::TcpEof { id });
                        }
                    }
                });
            }
        });
    }
    for (pl, a) in s.acts.iter() {
        if let Placement::Host(h, t) = pl {
            if *h == me {
                let a = a.clone();
                let log = log.clone();
                let t = *t;
                tokio::task::spawn_local(async move {
                    tokio::time::sleep(Duration::from_millis(t)).await;
                    match &a {
                        Act::Hold(x, y) => {
                            log.push(Ev::Hold { x: sel_hosts(x), y: sel_hosts(y), host_code: true });
                            with_sel!(x, |a| with_sel!(y, |b| turmoil::hold(a, b)))
                        }
                        Act::Release(x, y) => {
                            log.push(Ev::Release { x: sel_hosts(x), y: sel_hosts(y), host_code: true });
                            with_sel!(x, |a| with_sel!(y, |b| turmoil::release(a, b)))
                        }
                        Act::Deliver(_) => {}
                    }
                });
            }
        }
    }
    let send = {
        let udp = udp.clone();
        let log = log.clone();
        move |dst: usize, seq: u64| {
            let udp = udp.clone();
            let log = log.clone();
            async move {
                let t = now_ns();
                let mut b = [0u8; 24];
                b[..8].copy_from_slice(&(me as u64).to_le_bytes());
                b[8..16].copy_from_slice(&seq.to_le_bytes());
                b[16..].copy_from_slice(&t.to_le_bytes());
                log.push(Ev::Sent { src: me, dst, seq, t });
                let _ = udp.send_to(&b, (hname(dst), 9000)).await;
            }
        }
    };
    tokio::time::sleep(Duration::from_millis(2 * s.tick_ms)).await;
    for tr in s.traffic.iter().filter(|t| t.src == me) {
        let tr = tr.clone();
        let stop = s.stop_step;
        // periodic + bursts share one sequence space per (src,dst): bursts use
        // seq >= 1_000_000 so that both stay increasing in send order
        if tr.period_ms > 0 {
            let send = send.clone();
            let tr = tr.clone();
            tokio::task::spawn_local(async move {
                let mut seq = 0u64;
                while rec::step() <= stop {
                    send(tr.dst, seq).await;
                    seq += 1;
                    tokio::time::sleep(Duration::from_millis(tr.period_ms)).await;
                }
            });
        }
        if !tr.bursts.is_empty() {
            let send = send.clone();
            let tr = tr.clone();
            tokio::task::spawn_local(async move {
                let mut seq = 1_000_000u64;
                for (t, n) in &tr.bursts {
                    let now = turmoil::elapsed().as_millis() as u64;
                    if *t > now {
                        tokio::time::sleep(Duration::from_millis(*t - now)).await;
                    }
                    if rec::step() > stop {
                        break;
                    }
                    for _ in 0..*n {
                        send(tr.dst, seq).await;
                        seq += 1;
                    }
                }
            });
        }
        if tr.tcp_period_ms > 0 {
            let log = log.clone();
            tokio::task::spawn_local(async move {
                let mut n = 0u64;
                loop {
                    tokio::time::sleep(Duration::from_millis(tr.tcp_period_ms)).await;
                    if rec::step() > stop {
                        break;
                    }
                    let id = ((me as u64) << 48) | ((tr.dst as u64) << 40) | n;
                    n += 1;
                    let log = log.clone();
                    let dst = tr.dst;
                    tokio::task::spawn_local(async move {
                        log.push(Ev::ConnCall { src: me, dst, id });
                        match TcpStream::connect((hname(dst), 9001)).await {
                            Ok(st) => {
                                log.push(Ev::ConnRet { id, ok: true, kind: String::new() });
                                log.push(Ev::DataSent { src: me, dst, id });
                                let _ = st.try_write(&id.to_le_bytes());
                                let mut st = st;
                                if id % 2 == 0 {
                                    // half of the probes also close their write side: the FIN is a message too
                                    use tokio::io::AsyncWriteExt;
                                    log.push(Ev::FinSent { src: me, dst, id });
                                    let _ = st.shutdown().await;
                                }
                                std::future::pending::<()>().await;
                                drop(st);
                            }
                            Err(e) => log.push(Ev::ConnRet { id, ok: false, kind: format!("{:?}", e.kind()) }),
                        }
                    });
                }
            });
        }
    }
    std::future::pending::<()>().await;
    Ok(())
}

fn snapshot_links(sim: &turmoil::Sim<'_>, ips: &[IpAddr]) -> Ev {
    let host_of = |ip: IpAddr| ips.iter().position(|x| *x == ip).unwrap_or(usize::MAX);
    let mut udp = vec![];
    let mut tcp_data = vec![];
    let mut syns = vec![];
    let mut other = 0;
    sim.links(|links| {
        for link in links {
            for sent in link {
                let (src, dst) = sent.pair();
                match sent.protocol() {
                    turmoil::Protocol::Udp(d) if d.0.len() == 24 => {
                        let s = u64::from_le_bytes(d.0[..8].try_into().unwrap()) as usize;
                        let seq = u64::from_le_bytes(d.0[8..16].try_into().unwrap());
                        udp.push((s, host_of(dst.ip()), seq));
                    }
                    turmoil::Protocol::Tcp(turmoil::Segment::Data(_, b)) if b.len() == 8 => {
                        tcp_data.push(u64::from_le_bytes(b[..].try_into().unwrap()));
                    }
                    turmoil::Protocol::Tcp(turmoil::Segment::Syn(_)) => syns.push((host_of(src.ip()), host_of(dst.ip()))),
                    _ => other += 1,
                }
            }
        }
    });
    udp.sort();
    tcp_data.sort();
    syns.sort();
    Ev::Links { udp, tcp_data, syns, other }
}

fn deliver_manual(sim: &turmoil::Sim<'_>, ips: &[IpAddr], want: &[(usize, usize, u64)]) -> usize {
    let host_of = |ip: IpAddr| ips.iter().position(|x| *x == ip).unwrap_or(usize::MAX);
    let mut n = 0;
    sim.links(|links| {
        for link in links {
            for sent in link {
                let (_, dst) = sent.pair();
                let id = match sent.protocol() {
                    turmoil::Protocol::Udp(d) if d.0.len() == 24 => {
                        let s = u64::from_le_bytes(d.0[..8].try_into().unwrap()) as usize;
                        let seq = u64::from_le_bytes(d.0[8..16].try_into().unwrap());
                        Some((s, host_of(dst.ip()), seq))
                    }
                    _ => None,
                };
                if let Some(id) = id {
                    if want.contains(&id) {
                        sent.deliver();
                        n += 1;
                    }
                }
            }
        }
    });
    n
}

fn ceil_steps(ms: u64, tick: u64) -> u64 {
    ms.div_ceil(tick)
}

#[derive(Clone, Debug, PartialEq)]
enum St {
    InFlight { lb: u64, ub: u64 },
    Held,
}

#[derive(Clone, Debug)]
struct Msg {
    src: usize,
    dst: usize,
    st: St,
    tainted: bool,
    /// positions [from, to) during which the message must not be received
    held: Vec<(usize, Option<usize>)>,
    /// id of the call that last freed it (release pos or deliver pos batch)
    freed_by: Option<usize>,
    sent_pos: usize,
    sent_step: u64,
    ever_held: bool,
}

#[derive(Clone, Debug, PartialEq, Eq, PartialOrd, Ord)]
enum Key {
    Udp(usize, usize, u64),
    Syn(u64),
    Data(u64),
    Fin(u64),
}

fn scenario(s: Scn, tag: &str) -> ScenarioOut {
    let mut out = ScenarioOut::default();
    let log: Log<Ev> = Log::new();
    rec::set_step(0);
    let mut b = turmoil::Builder::new();
    b.tick_duration(Duration::from_millis(s.tick_ms))
        .epoch(epoch(0))
        .rng_seed(s.rng_seed)
        .min_message_latency(Duration::from_millis(s.min_ms))
        .max_message_latency(Duration::from_millis(s.max_ms))
        .tcp_capacity(100_000)
        .udp_capacity(100_000)
        .simulation_duration(Duration::from_secs(1_000_000));
    if s.random_order {
        b.enable_random_order();
    }
    let mut sim = b.build();
    for i in 0..s.nhosts {
        let log = log.clone();
        let sc = s.clone();
        sim.host(hname(i), move || host_program(log.clone(), i, sc.clone()));
    }
    let ips: Vec<IpAddr> = (0..s.nhosts).map(|i| sim.lookup(hname(i))).collect();
    let last_act = s
        .acts
        .iter()
        .map(|(p, _)| match p {
            Placement::AfterStep(k) => *k,
            Placement::Host(_, t) => t / s.tick_ms + 2,
        })
        .max()
        .unwrap_or(0);
    let drain = 2 * ceil_steps(s.max_ms, s.tick_ms) + 6;
    let total = s.stop_step.max(last_act) + drain + 2;
    for k in 0..=total {
        if s.sample_links {
            log.push(snapshot_links(&sim, &ips));
        }
        for (pl, a) in &s.acts {
            if let Placement::AfterStep(at) = pl {
                if *at == k {
                    match a {
                        Act::Hold(x, y) => {
                            log.push(Ev::Hold { x: sel_hosts(x), y: sel_hosts(y), host_code: false });
                            with_sel!(x, |a| with_sel!(y, |b| sim.hold(a, b)))
                        }
                        Act::Release(x, y) => {
                            log.push(Ev::Release { x: sel_hosts(x), y: sel_hosts(y), host_code: false });
                            with_sel!(x, |a| with_sel!(y, |b| sim.release(a, b)))
                        }
                        Act::Deliver(ids) => {
                            // one pass over Sim::links per delivery, the view is sampled in between:
                            // a message scheduled by hand stays in flight until the next step
                            let mut n = 0;
                            for (a, b, q) in ids {
                                log.push(Ev::Deliver { src: *a, dst: *b, seq: *q });
                                n += deliver_manual(&sim, &ips, &[(*a, *b, *q)]);
                                if s.sample_links {
                                    log.push(snapshot_links(&sim, &ips));
                                }
                            }
                            if n != ids.len() {
                                out.violate(
                                    "links-missing-held-message",
                                    format!("C08|links-missing-held-message|{tag}"),
                                    format!("manual delivery after step {k}: {} of {} requested held datagrams were listed by Sim::links", n, ids.len()),
                                    json!({"scenario": format!("{s:?}")}),
                                );
                            }
                        }
                    }
                }
            }
        }
        if s.sample_links && s.acts.iter().any(|(pl, _)| matches!(pl, Placement::AfterStep(at) if *at == k)) {
            // the view right after hold / release / manual delivery, before the next step
            log.push(snapshot_links(&sim, &ips));
            out.count("links_snapshots_right_after_an_action", 1);
        }
        if k == total {
            break;
        }
        if let Err(e) = util::step(&mut sim) {
            out.discarded = Some(format!("step error {e}"));
            return out;
        }
    }
    drop(sim);
    let evs = log.take();
    if std::env::var("VERIF_DEBUG").is_ok() {
        for (p, (st, e)) in evs.iter().enumerate() {
            eprintln!("{p} step {st}: {e:?}");
        }
    }
    // ---- monitor -------------------------------------------------------
    let n = s.nhosts;
    let desc = json!({"scenario": format!("{s:?}"), "tag": tag});
    let mut held_link = vec![vec![false; n]; n]; // symmetric
    let mut msgs: BTreeMap<Key, Msg> = BTreeMap::new();
    let mut recv_pos: BTreeMap<Key, Vec<(usize, u64)>> = BTreeMap::new();
    let mut conn_ret: BTreeMap<u64, (usize, bool, String)> = BTreeMap::new();
    let lat_lb = ceil_steps(s.min_ms, s.tick_ms);
    let lat_ub = ceil_steps(s.max_ms, s.tick_ms);
    let mut violations: Vec<(String, String, String)> = vec![];
    let on_send = |msgs: &mut BTreeMap<Key, Msg>, held_link: &Vec<Vec<bool>>, key: Key, src: usize, dst: usize, p: usize, step: u64| {
        let held = held_link[src][dst];
        msgs.insert(
            key,
            Msg {
                src,
                dst,
                st: if held { St::Held } else { St::InFlight { lb: step + lat_lb, ub: step + lat_ub } },
                tainted: false,
                held: if held { vec![(p, None)] } else { vec![] },
                freed_by: None,
                sent_pos: p,
                sent_step: step,
                ever_held: held,
            },
        );
    };
    for (p, (step, e)) in evs.iter().enumerate() {
        match e {
            Ev::Sent { src, dst, seq, .. } => on_send(&mut msgs, &held_link, Key::Udp(*src, *dst, *seq), *src, *dst, p, *step),
            Ev::ConnCall { src, dst, id } => on_send(&mut msgs, &held_link, Key::Syn(*id), *src, *dst, p, *step),
            Ev::DataSent { src, dst, id } => on_send(&mut msgs, &held_link, Key::Data(*id), *src, *dst, p, *step),
            Ev::FinSent { src, dst, id } => on_send(&mut msgs, &held_link, Key::Fin(*id), *src, *dst, p, *step),
            Ev::Hold { x, y, .. } => {
                for a in x {
                    for b in y {
                        if a == b {
                            continue;
                        }
                        held_link[*a][*b] = true;
                        held_link[*b][*a] = true;
                        for m in msgs.values_mut() {
                            if !((m.src == *a && m.dst == *b) || (m.src == *b && m.dst == *a)) {
                                continue;
                            }
                            if let St::InFlight { lb, ub } = m.st {
                                if lb > *step {
                                    m.st = St::Held;
                                    m.held.push((p, None));
                                    m.ever_held = true;
                                } else if ub > *step {
                                    m.tainted = true;
                                }
                            }
                        }
                    }
                }
            }
            Ev::Release { x, y, host_code } => {
                for a in x {
                    for b in y {
                        if a == b {
                            continue;
                        }
                        held_link[*a][*b] = false;
                        held_link[*b][*a] = false;
                        for m in msgs.values_mut() {
                            if !((m.src == *a && m.dst == *b) || (m.src == *b && m.dst == *a)) {
                                continue;
                            }
                            if m.st == St::Held {
                                m.st = St::InFlight { lb: if *host_code { *step } else { *step + 1 }, ub: *step + 1 };
                                if let Some(last) = m.held.last_mut() {
                                    last.1 = Some(p);
                                }
                                m.freed_by = Some(p);
                            }
                        }
                    }
                }
            }
            Ev::Deliver { src, dst, seq } => {
                if let Some(m) = msgs.get_mut(&Key::Udp(*src, *dst, *seq)) {
                    if m.st == St::Held {
                        m.st = St::InFlight { lb: *step + 1, ub: *step + 1 };
                        if let Some(last) = m.held.last_mut() {
                            last.1 = Some(p);
                        }
                        // deliveries issued at one between-step point form one batch
                        m.freed_by = Some(1_000_000_000 + *step as usize);
                    }
                }
            }
            Ev::Recv { src, dst, seq, .. } => recv_pos.entry(Key::Udp(*src, *dst, *seq)).or_default().push((p, *step)),
            Ev::TcpRecv { id } => recv_pos.entry(Key::Data(*id)).or_default().push((p, *step)),
            Ev::TcpEof { id } => recv_pos.entry(Key::Fin(*id)).or_default().push((p, *step)),
            Ev::ConnRet { id, ok, kind } => {
                conn_ret.insert(*id, (p, *ok, kind.clone()));
                if *ok {
                    recv_pos.entry(Key::Syn(*id)).or_default().push((p, *step));
                }
            }
            Ev::Links { udp, tcp_data, syns, other } => {
                // model listing after `step` steps
                let mut must: BTreeSet<Key> = BTreeSet::new();
                let mut may: BTreeSet<Key> = BTreeSet::new();
                for (k, m) in msgs.iter() {
                    match m.st {
                        St::Held => {
                            must.insert(k.clone());
                        }
                        St::InFlight { lb, ub } => {
                            if m.tainted {
                                may.insert(k.clone());
                            } else if lb > *step {
                                must.insert(k.clone());
                            } else if ub > *step {
                                may.insert(k.clone());
                            }
                        }
                    }
                }
                let mut listed: BTreeSet<Key> = BTreeSet::new();
                for (a, b, q) in udp {
                    listed.insert(Key::Udp(*a, *b, *q));
                }
                for id in tcp_data {
                    listed.insert(Key::Data(*id));
                }
                out.count("links_snapshots", 1);
                out.count("links_listed_messages", (udp.len() + tcp_data.len() + syns.len()) as u64);
                let must_ud: Vec<&Key> = must.iter().filter(|k| !matches!(k, Key::Syn(_) | Key::Fin(_))).collect();
                for k in &must_ud {
                    if !listed.contains(k) {
                        violations.push((
                            "links-missing".into(),
                            format!("C08|links-missing|{}", if msgs[k].ever_held { "held" } else { "inflight" }),
                            format!("after step {step}: message {k:?} is in flight in the model (state {:?}) but not listed by Sim::links", msgs[k].st),
                        ));
                    }
                }
                for k in &listed {
                    if !must.contains(k) && !may.contains(k) {
                        violations.push((
                            "links-extra".into(),
                            "C08|links-extra".into(),
                            format!("after step {step}: Sim::links lists {k:?} which the model says was already delivered or never sent (state {:?})", msgs.get(k).map(|m| m.st.clone())),
                        ));
                    }
                }
                // SYNs: compare counts per direction
                let mut syn_must: BTreeMap<(usize, usize), i64> = BTreeMap::new();
                let mut syn_may: BTreeMap<(usize, usize), i64> = BTreeMap::new();
                for k in must.iter().filter(|k| matches!(k, Key::Syn(_))) {
                    *syn_must.entry((msgs[k].src, msgs[k].dst)).or_default() += 1;
                }
                for k in may.iter().filter(|k| matches!(k, Key::Syn(_))) {
                    *syn_may.entry((msgs[k].src, msgs[k].dst)).or_default() += 1;
                }
                let mut syn_listed: BTreeMap<(usize, usize), i64> = BTreeMap::new();
                for d in syns {
                    *syn_listed.entry(*d).or_default() += 1;
                }
                let dirs: BTreeSet<(usize, usize)> = syn_must.keys().chain(syn_listed.keys()).cloned().collect();
                for d in dirs {
                    let lo = syn_must.get(&d).copied().unwrap_or(0);
                    let hi = lo + syn_may.get(&d).copied().unwrap_or(0);
                    let got = syn_listed.get(&d).copied().unwrap_or(0);
                    if got < lo || got > hi {
                        violations.push(("links-syn-count".into(), "C08|links-syn-count".into(), format!("after step {step}: Sim::links lists {got} SYNs h{}->h{}, model expects {lo}..={hi}", d.0, d.1)));
                    }
                }
                if *other > 0 {
                    out.count("links_other_segments", *other as u64);
                }
            }
        }
    }
    for (class, sig, what) in violations {
        out.violate(&class, format!("{sig}|{tag_kind}", tag_kind = tag.split(':').next().unwrap_or("")), what, desc.clone());
    }
    // receipts vs held intervals, exactly-once, completeness
    let end_pos = evs.len();
    let tag_kind = tag.split(':').next().unwrap_or("").to_string();
    for (k, m) in &msgs {
        let proto = match k {
            Key::Udp(..) => "udp",
            Key::Syn(_) => "syn",
            Key::Data(_) => "tcpdata",
            Key::Fin(_) => "fin",
        };
        let rs = recv_pos.get(k).cloned().unwrap_or_default();
        if m.ever_held {
            out.count(&format!("{proto}_held"), 1);
        }
        if m.tainted {
            out.count("undetermined_skipped", 1);
        }
        for (rp, rstep) in &rs {
            for (from, to) in &m.held {
                if *rp > *from && to.map(|t| *rp < t).unwrap_or(true) {
                    out.violate(
                        "delivered-while-held",
                        format!("C08|delivered-while-held|{proto}|{tag_kind}"),
                        format!("{k:?} (sent step {}) was received in step {rstep} (log pos {rp}) while held (held from pos {from} to {:?})", m.sent_step, to),
                        desc.clone(),
                    );
                }
            }
        }
        if rs.len() > 1 {
            out.violate("duplicate", format!("C08|duplicate|{proto}|{tag_kind}"), format!("{k:?} received {} times", rs.len()), desc.clone());
        }
        // completeness: final state not Held, not tainted => received exactly once
        let finally_free = m.st != St::Held;
        if finally_free && !m.tainted && rs.is_empty() {
            let is_syn = matches!(k, Key::Syn(_));
            // a refused connect is a lost SYN
            let detail = if is_syn { format!(" (connect returned {:?})", if let Key::Syn(id) = k { conn_ret.get(id) } else { None }) } else { String::new() };
            out.violate(
                "lost",
                format!("C08|lost|{proto}|held={}|{tag_kind}", m.ever_held),
                format!("{k:?} sent in step {} {} was never received{detail} ({} log entries, {} steps)", m.sent_step, if m.ever_held { "and later released" } else { "on a link that was not held" }, end_pos, total),
                desc.clone(),
            );
        }
        if !rs.is_empty() {
            out.count(&format!("{proto}_received"), 1);
        }
    }
    // released together => send order per direction (UDP)
    let mut groups: BTreeMap<(usize, usize, usize), Vec<(u64, usize, usize)>> = BTreeMap::new(); // (freed_by, src, dst) -> (seq, sent_pos, recv_pos)
    for (k, m) in &msgs {
        if let (Key::Udp(a, b, q), Some(fb)) = (k, m.freed_by) {
            if m.tainted {
                continue;
            }
            if let Some(rs) = recv_pos.get(k) {
                if rs.len() == 1 {
                    groups.entry((fb, *a, *b)).or_default().push((*q, m.sent_pos, rs[0].0));
                }
            }
        }
    }
    for ((_, a, b), mut g) in groups {
        g.sort_by_key(|x| x.1);
        out.count("release_groups", 1);
        if g.len() >= 2 {
            out.count("release_groups_multi", 1);
        }
        if g.windows(2).any(|w| w[0].2 > w[1].2) {
            out.violate(
                "released-out-of-order",
                format!("C08|released-out-of-order|{tag_kind}"),
                format!("datagrams h{a}->h{b} released together were received out of send order: (seq, sent pos, recv pos) {:?}", vcore::excerpt(&g, 8)),
                desc.clone(),
            );
        }
    }
    // latency window on never-held, never-tainted datagrams (unheld links keep delivering normally)
    let tick = s.tick_ms * 1_000_000;
    for (_, e) in &evs {
        if let Ev::Recv { src, dst, seq, t } = e {
            let k = Key::Udp(*src, *dst, *seq);
            if let Some(m) = msgs.get(&k) {
                if !m.ever_held && !m.tainted {
                    if let Some((_, Ev::Sent { t: ts, .. })) = evs.get(m.sent_pos) {
                        let d = *t as i64 - *ts as i64;
                        out.count("unheld_window_checks", 1);
                        if d < (s.min_ms * 1_000_000) as i64 - tick as i64 || d > (s.max_ms * 1_000_000 + tick) as i64 {
                            out.violate(
                                "unheld-delayed",
                                format!("C08|unheld-delayed|{tag_kind}"),
                                format!("datagram {k:?} never held took {d} ns, outside [{} ms - tick, {} ms + tick]", s.min_ms, s.max_ms),
                                desc.clone(),
                            );
                        }
                    }
                }
            }
        }
    }
    // connects started under hold complete only after release (covered by the
    // held-interval check on Key::Syn via ConnRet ok); refused connects are losses
    for (id, (_, ok, kind)) in &conn_ret {
        if !ok {
            out.violate(
                "connect-refused-under-hold",
                format!("C08|connect-refused|{kind}|{tag_kind}"),
                format!("connect {id:#x} failed with {kind} although no partition exists (holds must only delay)"),
                desc.clone(),
            );
        }
    }
    let held_total: u64 = out.counters.iter().filter(|(k, _)| k.ends_with("_held")).map(|(_, v)| *v).sum();
    out.count("hold_calls", evs.iter().filter(|e| matches!(e.1, Ev::Hold { .. })).count() as u64);
    out.count("release_calls", evs.iter().filter(|e| matches!(e.1, Ev::Release { .. })).count() as u64);
    out.count("manual_deliveries", evs.iter().filter(|e| matches!(e.1, Ev::Deliver { .. })).count() as u64);
    out.count("host_code_calls", evs.iter().filter(|e| matches!(e.1, Ev::Hold { host_code: true, .. } | Ev::Release { host_code: true, .. })).count() as u64);
    let mut h = Fnv::new();
    h.write_str(&format!("{:?}{:?}", s.acts, s.traffic));
    for (st, e) in &evs {
        if let Ev::Recv { src, dst, seq, .. } = e {
            h.write_u64(*st);
            h.write_u64((*src * 16 + *dst) as u64);
            h.write_u64(*seq);
        }
    }
    out.digest = h.finish();
    out.nontrivial = held_total >= 1;
    out.sample = Some(json!({
        "tag": tag, "tick_ms": s.tick_ms, "latency_ms": [s.min_ms, s.max_ms], "hosts": s.nhosts,
        "actions": s.acts.iter().map(|c| format!("{c:?}")).collect::<Vec<_>>(),
        "traffic": s.traffic.iter().map(|c| format!("{c:?}")).collect::<Vec<_>>(),
        "held_messages": held_total,
        "log_excerpt": evs.iter().filter(|e| matches!(e.1, Ev::Hold{..} | Ev::Release{..} | Ev::Deliver{..} | Ev::ConnRet{..})).take(10).map(|e| format!("step {}: {:?}", e.0, e.1)).collect::<Vec<_>>(),
    }));
    out
}


/// Directed family: a TCP segment for a socket that no longer exists is handed over by hand
/// while the link is held. The receiving stack answers it itself (RST); that answer is a
/// message on the held link like any other: it must be listed as in flight, must not reach the
/// peer while the hold lasts, and must reach it once after the release.
fn scenario_orphan(seed: u64) -> ScenarioOut {
    use std::cell::Cell;
    use std::rc::Rc;
    use tokio::io::{AsyncReadExt, AsyncWriteExt};
    let mut out = ScenarioOut::default();
    let mut r = Rng::new(seed);
    let tick_ms = r.pick_copy(&[1u64, 1, 2]);
    let lat_ms = r.pick_copy(&[0u64, 1, 3, 5]);
    let lat_steps = ceil_steps(lat_ms, tick_ms);
    let extra_before_hold = r.range(0, 3);
    let writes_during_hold = r.range(1, 3);
    let deliver_which = r.below(writes_during_hold);
    let wait_after_deliver = 2 * lat_steps + r.range(4, 9);
    let use_regex = r.coin();
    rec::set_step(0);
    let mut b = turmoil::Builder::new();
    b.tick_duration(Duration::from_millis(tick_ms))
        .epoch(epoch(0))
        .rng_seed(r.next_u64())
        .min_message_latency(Duration::from_millis(lat_ms))
        .max_message_latency(Duration::from_millis(lat_ms))
        .simulation_duration(Duration::from_secs(1_000_000));
    let mut sim = b.build();
    // shared observations (single thread)
    let saw_eof = Rc::new(Cell::new(false));
    let go_write = Rc::new(Cell::new(false));
    let wrote = Rc::new(Cell::new(0u64));
    let write_err: Rc<Cell<Option<u64>>> = Rc::new(Cell::new(None)); // step of the first failing write
    {
        sim.host("h1", || async {
            let l = TcpListener::bind(("0.0.0.0", 9001)).await?;
            loop {
                let (mut st, _) = l.accept().await?;
                let mut b = [0u8; 8];
                let _ = st.read_exact(&mut b).await;
                drop(st); // nothing unread: a graceful close, the socket is gone afterwards
            }
        });
    }
    {
        let (saw_eof, go_write, wrote, write_err) = (saw_eof.clone(), go_write.clone(), wrote.clone(), write_err.clone());
        sim.host("h0", move || {
            let (saw_eof, go_write, wrote, write_err) = (saw_eof.clone(), go_write.clone(), wrote.clone(), write_err.clone());
            async move {
                tokio::time::sleep(Duration::from_millis(2 * tick_ms)).await;
                let mut st = TcpStream::connect(("h1", 9001)).await?;
                st.write_all(&7u64.to_le_bytes()).await?;
                let mut b = [0u8; 8];
                if let Ok(0) = st.read(&mut b).await {
                    saw_eof.set(true);
                }
                while !go_write.get() {
                    tokio::time::sleep(Duration::from_millis(1)).await;
                }
                let mut n = 0u64;
                loop {
                    // records 0x0b00.. are recognisable in Sim::links
                    let rec_id = 0x0b00_0000_0000_0000u64 | n;
                    if n < writes_during_hold {
                        match st.write_all(&rec_id.to_le_bytes()).await {
                            Ok(()) => wrote.set(n + 1),
                            Err(_) => {
                                write_err.set(Some(rec::step()));
                                break;
                            }
                        }
                        n += 1;
                    } else if let Err(e) = st.try_write(&[0u8; 1]) {
                        if e.kind() != std::io::ErrorKind::WouldBlock {
                            write_err.set(Some(rec::step()));
                            break;
                        }
                    }
                    tokio::time::sleep(Duration::from_millis(1)).await;
                }
                std::future::pending::<()>().await;
                Ok(())
            }
        });
    }
    let desc = json!({"family": "orphan-segment", "seed": seed, "tick_ms": tick_ms, "lat_ms": lat_ms, "writes_during_hold": writes_during_hold, "deliver_which": deliver_which});
    let mut step = |sim: &mut turmoil::Sim<'_>| util::step(sim).is_ok();
    // phase 1: until the client has seen the server's close
    let mut k = 0;
    while !saw_eof.get() && k < 200 {
        if !step(&mut sim) {
            out.discarded = Some("step error".into());
            return out;
        }
        k += 1;
    }
    if !saw_eof.get() {
        out.discarded = Some("client never saw the server's close".into());
        return out;
    }
    for _ in 0..extra_before_hold {
        step(&mut sim);
    }
    // phase 2: hold, then the client writes into the held link
    if use_regex {
        sim.hold(regex::Regex::new("^h0$").unwrap(), regex::Regex::new("^h1$").unwrap());
    } else {
        sim.hold("h0", "h1");
    }
    let hold_step = rec::step();
    go_write.set(true);
    let mut k = 0;
    while wrote.get() < writes_during_hold && k < 50 {
        step(&mut sim);
        k += 1;
    }
    // the view: the records are in flight, held
    let count = |sim: &turmoil::Sim<'_>| {
        let (mut recs, mut rsts, mut other_data) = (vec![], 0u32, 0u32);
        sim.links(|links| {
            for link in links {
                for sent in link {
                    match sent.protocol() {
                        turmoil::Protocol::Tcp(turmoil::Segment::Data(_, b)) if b.len() == 8 && b[7] == 0x0b => recs.push(u64::from_le_bytes(b[..].try_into().unwrap()) & 0xff),
                        turmoil::Protocol::Tcp(turmoil::Segment::Rst) => rsts += 1,
                        turmoil::Protocol::Tcp(turmoil::Segment::Data(..)) => other_data += 1,
                        _ => {}
                    }
                }
            }
        });
        (recs, rsts, other_data)
    };
    let (recs, rsts0, _) = count(&sim);
    if recs.len() as u64 != writes_during_hold || rsts0 != 0 {
        out.violate(
            "links-view",
            "C08|links-view|orphan|before-delivery".to_string(),
            format!("{} records written into the held link, Sim::links lists records {recs:?} and {rsts0} RSTs", writes_during_hold),
            desc.clone(),
        );
    }
    // phase 3: hand one record over by hand
    let mut delivered = 0;
    sim.links(|links| {
        for link in links {
            for sent in link {
                if let turmoil::Protocol::Tcp(turmoil::Segment::Data(_, b)) = sent.protocol() {
                    if b.len() == 8 && b[7] == 0x0b && (u64::from_le_bytes(b[..].try_into().unwrap()) & 0xff) == deliver_which {
                        sent.deliver();
                        delivered += 1;
                    }
                }
            }
        }
    });
    out.count("orphan_segments_delivered_by_hand", delivered);
    let deliver_step = rec::step();
    for _ in 0..wait_after_deliver {
        step(&mut sim);
    }
    // the stack's answer is in flight on the held link and has not reached the client
    let (recs, rsts, _) = count(&sim);
    out.count("stack_replies_listed_while_held", rsts as u64);
    if delivered == 1 && rsts != 1 {
        out.violate(
            "links-view",
            "C08|links-view|orphan|reply-not-listed".to_string(),
            format!("record {deliver_which} was handed to the closed socket on h1 after step {deliver_step}; {} steps later Sim::links lists {rsts} RST segments on the held link (expected exactly 1, held) and records {recs:?}", wait_after_deliver),
            desc.clone(),
        );
    }
    if let Some(st) = write_err.get() {
        out.violate(
            "delivered-during-hold",
            "C08|delivered-during-hold|stack-reply".to_string(),
            format!("link h0<->h1 held since step {hold_step}; a record was handed to the closed socket on h1 after step {deliver_step} and the stack's RST reached h0 by step {st} although the link was still held"),
            desc.clone(),
        );
    } else {
        out.count("stack_replies_kept_back_by_the_hold", 1);
    }
    // phase 4: release: the answer arrives, once
    sim.release("h0", "h1");
    let release_step = rec::step();
    let mut k = 0;
    while write_err.get().map(|s| s <= release_step).unwrap_or(true) && k < lat_steps + 6 {
        step(&mut sim);
        k += 1;
    }
    match write_err.get() {
        Some(st) if st > release_step => out.count("stack_replies_delivered_after_release", 1),
        Some(_) => {}
        None => out.violate(
            "held-message-lost",
            "C08|held-message-lost|stack-reply".to_string(),
            format!("the RST held since the manual delivery (step {deliver_step}) did not reach h0 within {} steps after the release at step {release_step}", lat_steps + 6),
            desc.clone(),
        ),
    }
    let mut h = Fnv::new();
    h.write_u64(tick_ms * 100 + lat_ms);
    h.write_u64(writes_during_hold * 10 + deliver_which);
    h.write_u64(extra_before_hold * 100 + wait_after_deliver);
    h.write_u64(use_regex as u64);
    out.digest = h.finish();
    out.nontrivial = delivered == 1;
    out.sample = Some(desc);
    out
}

fn base(r: &mut Rng) -> Scn {
    let tick_ms = r.pick_copy(&[1u64, 2, 5]);
    let (min_ms, max_ms) = match r.below(5) {
        0 => (0, 0),
        1 => (3, 3),
        2 => (8, 8),
        3 => (1, 1),
        _ => (r.pick_copy(&[0u64, 2]), r.pick_copy(&[6u64, 15])),
    };
    Scn {
        tick_ms,
        min_ms,
        max_ms,
        random_order: r.coin(),
        rng_seed: r.next_u64(),
        nhosts: r.range(2, 4) as usize,
        acts: vec![],
        traffic: vec![],
        stop_step: 0,
        sample_links: false,
    }
}

fn gen_random(seed: u64) -> Scn {
    let mut r = Rng::new(seed);
    let mut s = base(&mut r);
    let sim_only = r.chance(0.5);
    s.sample_links = sim_only;
    for a in 0..s.nhosts {
        for b in 0..s.nhosts {
            if a != b && r.chance(0.8) {
                let mut bursts = vec![];
                let mut t = 5;
                for _ in 0..r.range(0, 3) {
                    t += r.range(1, 25);
                    bursts.push((t, r.range(1, 6) as u32));
                }
                s.traffic.push(Traffic { src: a, dst: b, period_ms: r.pick_copy(&[0u64, 1, 2, 3]), bursts, tcp_period_ms: if r.chance(0.5) { r.pick_copy(&[3u64, 5, 8]) } else { 0 } });
            }
        }
    }
    let mut t = 4 + 2 * s.tick_ms;
    let mk = |r: &mut Rng, n: usize| {
        if r.chance(0.3) {
            let mut v: Vec<usize> = (0..n).filter(|_| r.coin()).collect();
            if v.is_empty() {
                v.push(r.usize_below(n));
            }
            Sel::Regex(v)
        } else {
            Sel::Name(r.usize_below(n))
        }
    };
    let mut last_hold: Option<(Sel, Sel)> = None;
    for _ in 0..r.range(1, 8) {
        t += r.range(1, 14);
        let pl = if sim_only || r.chance(0.5) { Placement::AfterStep(t / s.tick_ms) } else { Placement::Host(r.usize_below(s.nhosts), t) };
        let act = match (&last_hold, r.below(10)) {
            (Some((x, y)), 0..=5) => {
                let a = Act::Release(x.clone(), y.clone());
                last_hold = None;
                a
            }
            (_, 6) => Act::Release(mk(&mut r, s.nhosts), mk(&mut r, s.nhosts)),
            _ => {
                let x = mk(&mut r, s.nhosts);
                let y = mk(&mut r, s.nhosts);
                last_hold = Some((x.clone(), y.clone()));
                Act::Hold(x, y)
            }
        };
        s.acts.push((pl, act));
    }
    // mostly release everything at the end so completeness is checkable
    if r.chance(0.8) {
        t += r.range(3, 12);
        let all: Vec<usize> = (0..s.nhosts).collect();
        s.acts.push((Placement::AfterStep(t / s.tick_ms + 1), Act::Release(Sel::Regex(all.clone()), Sel::Regex(all))));
    }
    s.stop_step = (t + 10) / s.tick_ms + 2;
    s
}

/// Exhaustive manual delivery: hold A<->B, send n datagrams A->B (and m B->A),
/// then deliver in the given batches, one batch per between-step point.
fn gen_manual(seed: u64, n: usize, batches: &[Vec<usize>]) -> Scn {
    let mut r = Rng::new(seed);
    let mut s = base(&mut r);
    s.sample_links = true;
    s.nhosts = r.range(2, 3) as usize;
    let hold_step = 3;
    let burst_t = (hold_step + 1) * s.tick_ms + 1;
    s.traffic.push(Traffic { src: 0, dst: 1, period_ms: 0, bursts: vec![(burst_t, n as u32)], tcp_period_ms: 0 });
    let rev = r.range(0, 2) as u32;
    if rev > 0 {
        s.traffic.push(Traffic { src: 1, dst: 0, period_ms: 0, bursts: vec![(burst_t, rev)], tcp_period_ms: 0 });
    }
    if s.nhosts == 3 {
        // unrelated link keeps flowing
        s.traffic.push(Traffic { src: 2, dst: 1, period_ms: 1, bursts: vec![], tcp_period_ms: 0 });
        s.traffic.push(Traffic { src: 0, dst: 2, period_ms: 2, bursts: vec![], tcp_period_ms: 0 });
    }
    s.acts.push((Placement::AfterStep(hold_step), Act::Hold(Sel::Name(0), Sel::Name(1))));
    let mut k = hold_step + 2 + burst_t / s.tick_ms;
    for b in batches {
        s.acts.push((Placement::AfterStep(k), Act::Deliver(b.iter().map(|i| (0usize, 1usize, 1_000_000 + *i as u64)).collect())));
        k += r.range(1, 3);
    }
    k += 2;
    s.acts.push((Placement::AfterStep(k), Act::Release(Sel::Name(1), Sel::Name(0))));
    s.stop_step = k + 3;
    s
}

fn manual_space(max_n: usize) -> Vec<(usize, Vec<Vec<usize>>)> {
    let mut v = vec![];
    for n in 1..=max_n {
        // all permutations, one message per step
        let mut perm: Vec<usize> = (0..n).collect();
        fn heap(k: usize, a: &mut Vec<usize>, outv: &mut Vec<Vec<usize>>) {
            if k <= 1 {
                outv.push(a.clone());
                return;
            }
            for i in 0..k {
                heap(k - 1, a, outv);
                if k % 2 == 0 {
                    a.swap(i, k - 1);
                } else {
                    a.swap(0, k - 1);
                }
            }
        }
        let mut perms = vec![];
        heap(n, &mut perm, &mut perms);
        for p in perms {
            v.push((n, p.iter().map(|i| vec![*i]).collect()));
        }
        // all non-empty subsets delivered as one batch
        for mask in 1u32..(1 << n) {
            let sub: Vec<usize> = (0..n).filter(|i| mask & (1 << i) != 0).collect();
            v.push((n, vec![sub]));
        }
    }
    v
}

pub fn run(ctx: &Ctx) -> ! {
    let space = manual_space(4);
    let nman = space.len() as u64; // 33 perms + 30 subsets = 63... (n=1: 1+1)
    let reps = ctx.pick(8u64, 60);
    let nrandom = ctx.pick(15_000u64, 300_000);
    let norphan = ctx.pick(150u64, 3000);
    let total = nman * reps + nrandom + norphan;
    let build = move |c: &Ctx, idx: u64| -> (Scn, String) {
        let seed = c.scenario_seed("c08", idx);
        if idx < nman * reps {
            let (n, b) = &space[(idx % nman) as usize];
            (gen_manual(seed, *n, b), format!("manual:n={n} batches={b:?}"))
        } else {
            (gen_random(seed), "random:".to_string())
        }
    };
    if ctx.replay.is_some() {
        let w = vcore::read_replay(ctx).expect("replay file");
        if let Some(seed) = w.get("orphan_seed").and_then(|x| x.as_u64()) {
            let report = vcore::run_single(ctx, move |_| scenario_orphan(seed));
            vcore::finish(ctx, report, fin());
        }
        let idx = w["scenario_index"].as_u64().unwrap_or(0);
        let c2 = ctx.clone();
        let report = vcore::run_single(ctx, move |_| {
            let (s, tag) = build(&c2, idx);
            scenario(s, &tag)
        });
        vcore::finish(ctx, report, fin());
    }
    let c2 = ctx.clone();
    let mut report = vcore::run_parallel(
        ctx,
        total,
        RunOpts { budget_s: ctx.pick(60.0, 600.0), scenario_timeout_s: 120.0 },
        move |idx| {
            if idx >= nman * reps + nrandom {
                let seed = c2.scenario_seed("c08orphan", idx);
                let mut out = scenario_orphan(seed);
                for v in out.violations.iter_mut() {
                    v.witness["orphan_seed"] = json!(seed);
                }
                return out;
            }
            let (s, tag) = build(&c2, idx);
            let mut out = scenario(s, &tag);
            if tag.starts_with("manual") {
                out.saw("manual_cases", tag.clone());
            }
            for v in out.violations.iter_mut() {
                v.witness["scenario_index"] = json!(idx);
            }
            out
        },
    );
    let covered = report.seen.get("manual_cases").map(|s| s.len()).unwrap_or(0);
    report.extra.insert("manual_delivery_cases_covered".into(), json!(covered));
    report.extra.insert("manual_delivery_cases_total".into(), json!(nman));
    report.seen.remove("manual_cases");
    vcore::finish(ctx, report, fin());
}

fn fin() -> Finish<'static> {
    Finish {
        level: "exploration",
        rule: "random scenarios: 2-4 hosts, periodic + burst UDP and TCP connect+record probes per ordered pair, 1-8 hold/release calls by name/regex from the Sim handle between steps or from host code, fixed and ranged latencies; plus every permutation (one manual SentRef::deliver per step) and every subset (one batch) of <=4 held datagrams; Sim::links snapshot before every between-step point, after every action and between manual deliveries in Sim-handle-only scenarios; a directed family where a TCP record for an already closed socket is handed over by hand during a hold (the stack's RST must be listed, held, and arrive once after the release); non-trivial = >=1 message held; distinct = digest of (actions, traffic, receive log)",
        assumptions: vec![
            "fail_rate = 0; partitions never mixed with holds (documented unsupported)".into(),
            "messages whose maturity relative to a hold call cannot be decided are skipped (undetermined_skipped)".into(),
            "capacities exceed the number of held messages, receivers drain continuously".into(),
        ],
        min_distinct: 100,
        required_counters: vec!["udp_held", "syn_held", "tcpdata_held", "fin_held", "release_groups_multi", "manual_deliveries", "links_listed_messages", "unheld_window_checks", "host_code_calls", "links_snapshots_right_after_an_action", "orphan_segments_delivered_by_hand", "stack_replies_listed_while_held", "stack_replies_kept_back_by_the_hold", "stack_replies_delivered_after_release"],
    }
}
