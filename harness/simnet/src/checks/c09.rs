//! C09 — turmoil::net UDP delivers datagrams whole, to the right sockets, at
//! most once.
//!
//! A routing reference model (socket table with bind kind, port, connected peer,
//! broadcast / multicast-loop flags, group memberships), updated from the
//! logged configuration calls, computes for every `send_to` the set of sockets
//! that must receive it and the origin they must see. Every receipt must match
//! an outstanding (send, socket) pair with the payload cut to the buffer length;
//! in quiescent phases every pair must be matched exactly once.

use crate::rec::{self, Log};
use crate::util::{self, epoch};
use serde_json::json;
use std::cell::RefCell;
use std::collections::{BTreeMap, BTreeSet};
use std::net::{IpAddr, Ipv4Addr, Ipv6Addr, SocketAddr};
use std::rc::Rc;
use std::time::Duration;
use turmoil::net::UdpSocket;
use vcore::rng::keyed_bytes;
use vcore::{Ctx, Finish, Fnv, Rng, RunOpts, ScenarioOut};

#[derive(Clone, Copy, Debug, PartialEq)]
enum RecvMode {
    RecvFrom,
    TryRecv,
    Readable,
    /// alternates the three receive paths on one socket
    Mixed,
}

#[derive(Clone, Debug)]
struct SockSpec {
    host: usize,
    local_bind: bool,
    port: u16, // 0 = ephemeral
    mode: RecvMode,
    buf: usize,
    /// the receiver task starts reading at this host time (backlogs build up before)
    start_reading_ms: u64,
}

#[derive(Clone, Debug, PartialEq)]
enum Dst {
    Host(usize, PortRef),
    Loopback(PortRef),
    Broadcast(PortRef),
    Multicast(u8, PortRef),
    NoHost(u16),
}

/// a port given literally or as "the port of socket k" (for ephemeral binds)
#[derive(Clone, Debug, PartialEq)]
enum PortRef {
    Lit(u16),
    OfSock(usize),
}

#[derive(Clone, Debug)]
enum Act {
    Bind(usize),
    DropSock(usize),
    Connect(usize, usize, bool), // sock, peer sock, via loopback
    SetBroadcast(usize, bool),
    SetLoop(usize, bool),
    Join(usize, u8),
    Leave(usize, u8),
    Send { sock: usize, dst: Dst, len: usize, count: u32 },
}

#[derive(Clone, Debug)]
struct Scn {
    tick_ms: u64,
    min_ms: u64,
    max_ms: u64,
    v6: bool,
    cap: usize,
    random_order: bool,
    rng_seed: u64,
    nhosts: usize,
    socks: Vec<SockSpec>,
    /// (host time ms, acting host, action); sorted by time
    script: Vec<(u64, usize, Act)>,
    racy: bool,
    overflow: bool,
    end_ms: u64,
}

#[derive(Clone, Debug)]
enum Ev {
    Bound { sock: usize, port: u16, ok: bool, err: String },
    Dropped { sock: usize },
    Connected { sock: usize, to: SocketAddr },
    Broadcast { sock: usize, on: bool },
    Loop { sock: usize, on: bool },
    Joined { sock: usize, g: u8, ok: bool },
    Left { sock: usize, g: u8, ok: bool },
    Sent { sock: usize, id: u64, dst: SocketAddr, dstk: Dst, len: usize, res: Result<usize, String> },
    Recv { sock: usize, n: usize, origin: SocketAddr, data: Vec<u8>, buf: usize },
}

fn hname(i: usize) -> String {
    format!("h{i}")
}

fn group(v6: bool, g: u8) -> IpAddr {
    if v6 {
        IpAddr::V6(Ipv6Addr::new(0xff08, 0, 0, 0, 0, 0, 0, 1 + g as u16))
    } else {
        IpAddr::V4(Ipv4Addr::new(239, 1, 1, 1 + g))
    }
}
fn lo(v6: bool) -> IpAddr {
    if v6 {
        IpAddr::V6(Ipv6Addr::LOCALHOST)
    } else {
        IpAddr::V4(Ipv4Addr::LOCALHOST)
    }
}

fn payload(seed: u64, id: u64, len: usize) -> Vec<u8> {
    let mut v = id.to_le_bytes().to_vec();
    v.extend(keyed_bytes(seed ^ id, 0, len.saturating_sub(8)));
    v.truncate(len);
    v
}

struct Live {
    sock: Rc<UdpSocket>,
    rx: tokio::task::JoinHandle<()>,
}

async fn receiver(log: Log<Ev>, k: usize, spec: SockSpec, sock: Rc<UdpSocket>) {
    let mut turn = 0u32;
    let now = turmoil::elapsed().as_millis() as u64;
    if spec.start_reading_ms > now {
        tokio::time::sleep(Duration::from_millis(spec.start_reading_ms - now)).await;
    }
    loop {
        let mut buf = vec![0u8; spec.buf];
        turn += 1;
        let mode = match spec.mode {
            RecvMode::Mixed => match turn % 4 {
                // readable() parks a datagram in the socket's one-slot buffer; the
                // following receive call must hand exactly that datagram out
                0 => {
                    if sock.readable().await.is_err() {
                        return;
                    }
                    RecvMode::RecvFrom
                }
                1 => RecvMode::Readable,
                2 => RecvMode::RecvFrom,
                _ => RecvMode::TryRecv,
            },
            m => m,
        };
        let r = match mode {
            RecvMode::Mixed => unreachable!(),
            RecvMode::RecvFrom => sock.recv_from(&mut buf).await,
            RecvMode::Readable => {
                if sock.readable().await.is_err() {
                    return;
                }
                sock.try_recv_from(&mut buf)
            }
            RecvMode::TryRecv => match sock.try_recv_from(&mut buf) {
                Err(e) if e.kind() == std::io::ErrorKind::WouldBlock => {
                    tokio::time::sleep(Duration::from_millis(1)).await;
                    continue;
                }
                other => other,
            },
        };
        match r {
            Ok((n, origin)) => log.push(Ev::Recv { sock: k, n, origin, data: buf[..n.min(buf.len())].to_vec(), buf: spec.buf }),
            Err(e) if e.kind() == std::io::ErrorKind::WouldBlock => {}
            Err(_) => return,
        }
    }
}

async fn host_program(log: Log<Ev>, me: usize, s: Scn, ips: Vec<IpAddr>, ports: Rc<RefCell<BTreeMap<usize, u16>>>, next_id: Rc<std::cell::Cell<u64>>) -> turmoil::Result {
    let mut live: BTreeMap<usize, Live> = BTreeMap::new();
    let any: IpAddr = if s.v6 { IpAddr::V6(Ipv6Addr::UNSPECIFIED) } else { IpAddr::V4(Ipv4Addr::UNSPECIFIED) };
    let port_of = |p: &PortRef, ports: &Rc<RefCell<BTreeMap<usize, u16>>>| match p {
        PortRef::Lit(x) => Some(*x),
        PortRef::OfSock(k) => ports.borrow().get(k).copied(),
    };
    for (t, who, act) in s.script.iter() {
        if *who != me {
            continue;
        }
        let now = turmoil::elapsed().as_millis() as u64;
        if *t > now {
            tokio::time::sleep(Duration::from_millis(*t - now)).await;
        }
        match act {
            Act::Bind(k) => {
                if live.contains_key(k) {
                    // racy scripts can reorder a re-bind before the drop of the old socket
                    continue;
                }
                let spec = s.socks[*k].clone();
                let ip = if spec.local_bind { lo(s.v6) } else { any };
                match UdpSocket::bind(SocketAddr::new(ip, spec.port)).await {
                    Ok(sock) => {
                        let port = sock.local_addr()?.port();
                        ports.borrow_mut().insert(*k, port);
                        log.push(Ev::Bound { sock: *k, port, ok: true, err: String::new() });
                        let sock = Rc::new(sock);
                        let rx = tokio::task::spawn_local(receiver(log.clone(), *k, spec, sock.clone()));
                        live.insert(*k, Live { sock, rx });
                    }
                    Err(e) => log.push(Ev::Bound { sock: *k, port: spec.port, ok: false, err: format!("{:?}", e.kind()) }),
                }
            }
            Act::DropSock(k) => {
                if let Some(l) = live.remove(k) {
                    l.rx.abort();
                    let _ = l.rx.await;
                    log.push(Ev::Dropped { sock: *k });
                    drop(l.sock);
                }
            }
            Act::Connect(k, peer, via_lo) => {
                if let (Some(l), Some(pp)) = (live.get(k), ports.borrow().get(peer).copied()) {
                    let ip = if *via_lo { lo(s.v6) } else { ips[s.socks[*peer].host] };
                    let to = SocketAddr::new(ip, pp);
                    if l.sock.connect(to).await.is_ok() {
                        log.push(Ev::Connected { sock: *k, to });
                    }
                }
            }
            Act::SetBroadcast(k, on) => {
                if let Some(l) = live.get(k) {
                    if l.sock.set_broadcast(*on).is_ok() {
                        log.push(Ev::Broadcast { sock: *k, on: *on });
                    }
                }
            }
            Act::SetLoop(k, on) => {
                if let Some(l) = live.get(k) {
                    let r = if s.v6 { l.sock.set_multicast_loop_v6(*on) } else { l.sock.set_multicast_loop_v4(*on) };
                    if r.is_ok() {
                        log.push(Ev::Loop { sock: *k, on: *on });
                    }
                }
            }
            Act::Join(k, g) => {
                if let Some(l) = live.get(k) {
                    let r = match group(s.v6, *g) {
                        IpAddr::V4(a) => l.sock.join_multicast_v4(a, Ipv4Addr::UNSPECIFIED),
                        IpAddr::V6(a) => l.sock.join_multicast_v6(&a, 0),
                    };
                    log.push(Ev::Joined { sock: *k, g: *g, ok: r.is_ok() });
                }
            }
            Act::Leave(k, g) => {
                if let Some(l) = live.get(k) {
                    let r = match group(s.v6, *g) {
                        IpAddr::V4(a) => l.sock.leave_multicast_v4(a, Ipv4Addr::UNSPECIFIED),
                        IpAddr::V6(a) => l.sock.leave_multicast_v6(&a, 0),
                    };
                    log.push(Ev::Left { sock: *k, g: *g, ok: r.is_ok() });
                }
            }
            Act::Send { sock, dst, len, count } => {
                let Some(l) = live.get(sock) else { continue };
                let target = match dst {
                    Dst::Host(h, p) => port_of(p, &ports).map(|p| SocketAddr::new(ips[*h], p)),
                    Dst::Loopback(p) => port_of(p, &ports).map(|p| SocketAddr::new(lo(s.v6), p)),
                    Dst::Broadcast(p) => port_of(p, &ports).map(|p| SocketAddr::new(IpAddr::V4(Ipv4Addr::BROADCAST), p)),
                    Dst::Multicast(g, p) => port_of(p, &ports).map(|p| SocketAddr::new(group(s.v6, *g), p)),
                    Dst::NoHost(p) => Some(SocketAddr::new(if s.v6 { "fe80::9999".parse().unwrap() } else { "192.168.200.200".parse().unwrap() }, *p)),
                };
                let Some(target) = target else { continue };
                for _ in 0..*count {
                    let id = next_id.get();
                    next_id.set(id + 1);
                    let data = payload(s.rng_seed, id, *len);
                    let res = l.sock.send_to(&data, target).await.map_err(|e| format!("{:?}", e.kind()));
                    log.push(Ev::Sent { sock: *sock, id, dst: target, dstk: dst.clone(), len: *len, res });
                }
            }
        }
    }
    // keep sockets (and receivers) alive until the end of the run
    std::future::pending::<()>().await;
    drop(live);
    Ok(())
}

fn gen(seed: u64, overflow: bool) -> Scn {
    let mut r = Rng::new(seed);
    let v6 = r.chance(0.3);
    let nhosts = r.range(2, 4) as usize;
    let tick_ms = r.pick_copy(&[1u64, 2, 5]);
    let (min_ms, max_ms) = match r.below(4) {
        0 => (0, 0),
        1 => (2, 2),
        2 => (0, 8),
        _ => (1, 15),
    };
    let racy = !overflow && r.chance(0.25);
    let cap = if overflow { r.pick_copy(&[1usize, 2, 8]) } else { 4096 };
    let nsocks = r.range(2, 7) as usize;
    let mut socks = vec![];
    let fixed_ports = [9000u16, 9001, 9002];
    for _ in 0..nsocks {
        socks.push(SockSpec {
            host: r.usize_below(nhosts),
            local_bind: r.chance(0.15),
            port: if r.chance(0.3) { 0 } else { r.pick_copy(&fixed_ports) },
            mode: r.pick_copy(&[RecvMode::RecvFrom, RecvMode::RecvFrom, RecvMode::TryRecv, RecvMode::Readable, RecvMode::Mixed]),
            buf: r.pick_copy(&[0usize, 1, 8, 12, 100, 2000, 2000]),
            start_reading_ms: 0,
        });
    }
    if overflow {
        for s in socks.iter_mut() {
            s.mode = RecvMode::RecvFrom;
            s.buf = 2000;
            s.local_bind = false;
        }
    }
    let settle = max_ms + 3 * tick_ms + 2; // everything in flight has landed after this long
    let mut script: Vec<(u64, usize, Act)> = vec![];
    let mut t = 1u64;
    let nphases = if overflow { 1 } else { r.range(1, 4) };
    let mut bound: BTreeSet<usize> = BTreeSet::new();
    let mut joined: BTreeSet<(usize, u8)> = BTreeSet::new();
    for ph in 0..nphases {
        // configuration window
        let cfg_t = |r: &mut Rng, t: u64| if racy { t + r.range(0, settle + 20) } else { t };
        for k in 0..nsocks {
            if !bound.contains(&k) && (ph == 0 || r.chance(0.5)) {
                script.push((cfg_t(&mut r, t), socks[k].host, Act::Bind(k)));
                bound.insert(k);
            }
        }
        let t_cfg2 = if racy { t } else { t + 1 };
        for _ in 0..r.range(0, 6) {
            let k = r.usize_below(nsocks);
            if !bound.contains(&k) {
                continue;
            }
            let act = match r.below(10) {
                0 | 1 => Act::Join(k, r.below(2) as u8),
                2 => {
                    let g = r.below(2) as u8;
                    if joined.contains(&(k, g)) {
                        joined.remove(&(k, g));
                        Act::Leave(k, g)
                    } else {
                        Act::Join(k, g)
                    }
                }
                3 => Act::SetBroadcast(k, r.chance(0.8)),
                4 => Act::SetLoop(k, r.coin()),
                5 => {
                    let peer = r.usize_below(nsocks);
                    Act::Connect(k, peer, socks[peer].host == socks[k].host && r.chance(0.3))
                }
                6 if ph > 0 => {
                    bound.remove(&k);
                    joined.retain(|x| x.0 != k);
                    Act::DropSock(k)
                }
                _ => Act::Join(k, r.below(2) as u8),
            };
            if let Act::Join(k, g) = &act {
                joined.insert((*k, *g));
            }
            script.push((cfg_t(&mut r, t_cfg2), socks[k].host, act));
        }
        // traffic window (after configuration settled unless racy)
        let t_send0 = if racy { t } else { t_cfg2 + 2 * tick_ms + 1 };
        let nsends = if overflow { r.range(1, 3) } else { r.range(2, 12) };
        let mut first_tgt: Option<usize> = None;
        for si in 0..nsends {
            let k = r.usize_below(nsocks);
            let mut tgt = r.usize_below(nsocks);
            if overflow && si > 0 {
                // further bursts go to a neighbour of the flooded socket (same host, other socket)
                let f = first_tgt.unwrap();
                let nb: Vec<usize> = (0..nsocks).filter(|x| *x != f && socks[*x].host == socks[f].host).collect();
                if !nb.is_empty() {
                    tgt = nb[r.usize_below(nb.len())];
                }
            }
            first_tgt.get_or_insert(tgt);
            let pr = |r: &mut Rng, k: usize, socks: &Vec<SockSpec>| if socks[k].port == 0 { PortRef::OfSock(k) } else if r.chance(0.5) { PortRef::OfSock(k) } else { PortRef::Lit(socks[k].port) };
            let dst = if socks[k].local_bind {
                // a localhost-bound socket only talks to its own host's loopback
                Dst::Loopback(pr(&mut r, tgt, &socks))
            } else {
                match r.below(12) {
                    0 | 1 if !v6 => Dst::Broadcast(pr(&mut r, tgt, &socks)),
                    2 | 3 | 4 => Dst::Multicast(r.below(2) as u8, pr(&mut r, tgt, &socks)),
                    5 => Dst::Loopback(pr(&mut r, tgt, &socks)),
                    6 => Dst::Host(socks[tgt].host, PortRef::Lit(9555)), // unbound port
                    7 => Dst::NoHost(9000),
                    _ => Dst::Host(socks[tgt].host, pr(&mut r, tgt, &socks)),
                }
            };
            let (len, count) = if overflow { (64, if si == 0 { cap as u32 + r.range(1, 6) as u32 } else { r.range(1, cap as u64) as u32 }) } else { (r.pick_copy(&[0usize, 1, 8, 9, 64, 1000, 2000]), r.range(1, 4) as u32) };
            let dst = if overflow { Dst::Host(socks[tgt].host, PortRef::OfSock(tgt)) } else { dst };
            script.push((t_send0 + r.range(0, 10), socks[k].host, Act::Send { sock: k, dst, len, count }));
        }
        t = t_send0 + 10 + settle + 2;
        if overflow && r.chance(0.6) {
            // nobody reads before every burst has landed: the queues hold the backlog
            for sp in socks.iter_mut() {
                sp.start_reading_ms = t;
            }
            t += 3 * tick_ms;
        }
    }
    script.sort_by_key(|x| x.0);
    Scn { tick_ms, min_ms, max_ms, v6, cap, random_order: r.coin(), rng_seed: r.next_u64(), nhosts, socks, script, racy, overflow, end_ms: t + settle + 5 }
}

#[derive(Clone, Debug)]
struct MSock {
    alive: bool,
    port: u16,
    connected: Option<SocketAddr>,
    broadcast: bool,
    loop_: bool,
    groups: BTreeSet<u8>,
}

#[derive(Clone, Copy, PartialEq, Debug)]
enum Want {
    Must,
    May,
}

/// Target set of one send under model state `m`: sock -> (expected origin, Must/May).
fn targets(s: &Scn, ips: &[IpAddr], m: &BTreeMap<usize, MSock>, sender: usize, dst: SocketAddr, dstk: &Dst) -> BTreeMap<usize, (SocketAddr, Want)> {
    let mut out = BTreeMap::new();
    let Some(sm) = m.get(&sender) else { return out };
    let shost = s.socks[sender].host;
    let origin_host = SocketAddr::new(ips[shost], sm.port);
    let origin_lo = SocketAddr::new(lo(s.v6), sm.port);
    let filter_ok = |r: &MSock, origin: SocketAddr| match r.connected {
        None => true,
        Some(t) => (t.ip().is_unspecified() && t.port() == origin.port()) || t == origin,
    };
    match dstk {
        Dst::NoHost(_) => {}
        Dst::Loopback(_) => {
            for (k, r) in m.iter() {
                if r.alive && s.socks[*k].host == shost && r.port == dst.port() && filter_ok(r, origin_lo) {
                    out.insert(*k, (origin_lo, Want::Must));
                }
            }
        }
        Dst::Host(h, _) => {
            for (k, r) in m.iter() {
                if r.alive && s.socks[*k].host == *h && r.port == dst.port() && !s.socks[*k].local_bind && filter_ok(r, origin_host) {
                    out.insert(*k, (origin_host, Want::Must));
                }
            }
        }
        Dst::Broadcast(_) => {
            if sm.broadcast {
                for (k, r) in m.iter() {
                    if r.alive && r.port == dst.port() && !s.socks[*k].local_bind && filter_ok(r, origin_host) {
                        out.insert(*k, (origin_host, Want::Must));
                    }
                }
            }
        }
        Dst::Multicast(g, _) => {
            for (k, r) in m.iter() {
                if r.alive && r.port == dst.port() && r.groups.contains(g) && !s.socks[*k].local_bind && filter_ok(r, origin_host) {
                    let same_host = s.socks[*k].host == shost;
                    let want = if !same_host {
                        Some(Want::Must)
                    } else if sm.loop_ && r.loop_ {
                        Some(Want::Must)
                    } else if !sm.loop_ && !r.loop_ {
                        None
                    } else {
                        Some(Want::May)
                    };
                    if let Some(w) = want {
                        out.insert(*k, (origin_host, w));
                    }
                }
            }
        }
    }
    out
}

fn apply(m: &mut BTreeMap<usize, MSock>, e: &Ev) {
    match e {
        Ev::Bound { sock, port, ok: true, .. } => {
            m.insert(*sock, MSock { alive: true, port: *port, connected: None, broadcast: false, loop_: true, groups: BTreeSet::new() });
        }
        Ev::Dropped { sock } => {
            if let Some(x) = m.get_mut(sock) {
                x.alive = false;
                x.groups.clear();
            }
        }
        Ev::Connected { sock, to } => {
            if let Some(x) = m.get_mut(sock) {
                x.connected = Some(*to);
            }
        }
        Ev::Broadcast { sock, on } => {
            if let Some(x) = m.get_mut(sock) {
                x.broadcast = *on;
            }
        }
        Ev::Loop { sock, on } => {
            if let Some(x) = m.get_mut(sock) {
                x.loop_ = *on;
            }
        }
        Ev::Joined { sock, g, ok: true } => {
            if let Some(x) = m.get_mut(sock) {
                x.groups.insert(*g);
            }
        }
        Ev::Left { sock, g, ok: true } => {
            if let Some(x) = m.get_mut(sock) {
                x.groups.remove(g);
            }
        }
        _ => {}
    }
}

fn scenario(s: Scn) -> ScenarioOut {
    let mut out = ScenarioOut::default();
    let log: Log<Ev> = Log::new();
    rec::set_step(0);
    let mut b = turmoil::Builder::new();
    b.tick_duration(Duration::from_millis(s.tick_ms))
        .epoch(epoch(0))
        .rng_seed(s.rng_seed)
        .min_message_latency(Duration::from_millis(s.min_ms))
        .max_message_latency(Duration::from_millis(s.max_ms))
        .udp_capacity(s.cap)
        .simulation_duration(Duration::from_secs(100_000));
    if s.random_order {
        b.enable_random_order();
    }
    if s.v6 {
        b.ip_version(turmoil::IpVersion::V6);
    }
    let mut sim = b.build();
    let ips: Vec<IpAddr> = (0..s.nhosts).map(|i| sim.lookup(hname(i))).collect();
    let ports = Rc::new(RefCell::new(BTreeMap::new()));
    let next_id = Rc::new(std::cell::Cell::new(1u64));
    for i in 0..s.nhosts {
        let (log, sc, ips, ports, next_id) = (log.clone(), s.clone(), ips.clone(), ports.clone(), next_id.clone());
        sim.host(hname(i), move || host_program(log.clone(), i, sc.clone(), ips.clone(), ports.clone(), next_id.clone()));
    }
    let steps = s.end_ms / s.tick_ms + 3;
    let mut panic_msg = None;
    for _ in 0..steps {
        match util::step_catch(&mut sim) {
            Err(p) => {
                panic_msg = Some(p);
                break;
            }
            Ok(Err(e)) => {
                panic_msg = Some(e.to_string());
                break;
            }
            Ok(Ok(_)) => {}
        }
    }
    drop(sim);
    let evs = log.take();
    if std::env::var("VERIF_DEBUG").is_ok() {
        for (p, (st, e)) in evs.iter().enumerate() {
            let t = format!("{e:?}");
            eprintln!("{p} step {st}: {}", &t[..t.len().min(200)]);
        }
    }
    let desc = json!({"scenario": format!("{s:?}")});
    let kind = if s.overflow { "overflow" } else if s.racy { "racy" } else { "quiescent" };
    if let Some(p) = panic_msg {
        out.violate("panic", format!("C09|panic|{kind}"), format!("simulation failed: {p}"), desc.clone());
        return out;
    }
    // ---- routing model -----------------------------------------------------
    struct Pending {
        id: u64,
        sender: usize,
        origin: SocketAddr,
        want: Want,
        data: Vec<u8>,
        pos: usize,
        step: u64,
        matched: u32,
        dstk: Dst,
    }
    let mut model: BTreeMap<usize, MSock> = BTreeMap::new();
    let mut pend: BTreeMap<usize, Vec<Pending>> = BTreeMap::new(); // per destination socket
    // model states per position for the racy legitimacy test
    let mut sends_all: Vec<(usize, usize, SocketAddr, Dst, Vec<u8>, u64)> = vec![]; // (pos, sender, dst, dstk, data, id)
    // racy scenarios: model state after every log position (legitimacy may hold at
    // any moment between the send and the receipt, e.g. at delivery time)
    let mut snapshots: Vec<BTreeMap<usize, MSock>> = vec![];
    for (p, (step, e)) in evs.iter().enumerate() {
        apply(&mut model, e);
        if s.racy {
            snapshots.push(model.clone());
        }
        match e {
            Ev::Bound { sock, ok: false, err, .. } => {
                // model: a bind fails only when the port is already bound on that host
                let spec = &s.socks[*sock];
                let clash = model.iter().any(|(k, m)| m.alive && s.socks[*k].host == spec.host && m.port == spec.port);
                if !(clash && err == "AddrInUse") {
                    out.violate("bind-failed", format!("C09|bind-failed|{err}"), format!("bind of socket {sock} ({spec:?}) failed with {err}; port clash in model: {clash}"), desc.clone());
                } else {
                    out.count("addr_in_use_binds", 1);
                }
            }
            Ev::Sent { sock, id, dst, dstk, len, res } => {
                let data = payload(s.rng_seed, *id, *len);
                let sm = model.get(sock);
                let need_perm = matches!(dstk, Dst::Broadcast(_)) && !sm.map(|m| m.broadcast).unwrap_or(false);
                out.count(&format!("sends_{}", format!("{dstk:?}").split('(').next().unwrap().to_lowercase()), 1);
                match res {
                    Ok(n) => {
                        if need_perm {
                            out.violate("broadcast-without-permission", "C09|broadcast-without-permission".into(), format!("send_to the broadcast address succeeded on socket {sock} without SO_BROADCAST"), desc.clone());
                        }
                        if *n != *len {
                            out.violate("send-length", "C09|send-length".into(), format!("send_to of {len} bytes returned {n}"), desc.clone());
                        }
                        for (k, (origin, want)) in targets(&s, &ips, &model, *sock, *dst, dstk) {
                            pend.entry(k).or_default().push(Pending { id: *id, sender: *sock, origin, want, data: data.clone(), pos: p, step: *step, matched: 0, dstk: dstk.clone() });
                        }
                        sends_all.push((p, *sock, *dst, dstk.clone(), data, *id));
                    }
                    Err(k) => {
                        let legit = (need_perm && k == "PermissionDenied") || (matches!(dstk, Dst::NoHost(_)) && k == "ConnectionRefused");
                        if legit {
                            out.count("send_errors_expected", 1);
                        } else {
                            out.violate("send-error", format!("C09|send-error|{k}|{}", format!("{dstk:?}").split('(').next().unwrap()), format!("send_to {dst} ({dstk:?}) from socket {sock} failed with {k}"), desc.clone());
                        }
                    }
                }
            }
            Ev::Recv { sock, n, origin, data, buf } => {
                out.count("receipts", 1);
                if *buf < 8 {
                    out.count("receipts_into_tiny_buffers", 1);
                }
                let list = pend.entry(*sock).or_default();
                // candidate: earliest outstanding pair with this origin whose payload, cut to the buffer, equals what was read
                // (obligatory pairs first: with tiny buffers datagrams can be indistinguishable)
                let fits = |c: &Pending| c.matched == 0 && c.origin == *origin && c.data.len().min(*buf) == *n && c.data[..*n] == data[..];
                let idx = list.iter().position(|c| fits(c) && c.want == Want::Must).or_else(|| list.iter().position(|c| fits(c)));
                match idx {
                    Some(i) => {
                        list[i].matched += 1;
                        if list[i].data.len() > *buf {
                            out.count("receipts_truncated", 1);
                        }
                    }
                    None => {
                        // racy scenarios: legitimate if the socket is a target under the model state at receive time
                        let mut legit = false;
                        if s.racy {
                            'search: for (sp, sender, dst, dstk, d, _) in sends_all.iter().rev().take(64) {
                                if d.len().min(*buf) == *n && d[..*n] == data[..] {
                                    for q in *sp..=p {
                                        if let Some((o, _)) = targets(&s, &ips, &snapshots[q], *sender, *dst, dstk).get(sock) {
                                            if o == origin {
                                                legit = true;
                                                break 'search;
                                            }
                                        }
                                    }
                                    // the implementation evaluates the conditions at different instants
                                    // (membership and loop flag when the datagram is sent, bind address and
                                    // connected-peer filter when it is handed over): under concurrent
                                    // reconfiguration each condition may hold at its own instant of the window
                                    let mut comp = snapshots[*sp].clone();
                                    let mut peers: Vec<Option<SocketAddr>> = vec![];
                                    for snap in &snapshots[*sp..=p] {
                                        for (k, m) in snap {
                                            let c = comp.entry(*k).or_insert_with(|| m.clone());
                                            c.alive |= m.alive;
                                            c.broadcast |= m.broadcast;
                                            c.loop_ |= m.loop_;
                                            c.groups.extend(m.groups.iter().copied());
                                            if m.alive {
                                                c.port = m.port;
                                            }
                                            if k == sock && !peers.contains(&m.connected) {
                                                peers.push(m.connected);
                                            }
                                        }
                                    }
                                    for peer in peers {
                                        if let Some(c) = comp.get_mut(sock) {
                                            c.connected = peer;
                                        }
                                        if let Some((o, _)) = targets(&s, &ips, &comp, *sender, *dst, dstk).get(sock) {
                                            if o == origin {
                                                legit = true;
                                                out.count("racy_receipts_legit_per_condition", 1);
                                                break 'search;
                                            }
                                        }
                                    }
                                }
                            }
                        }
                        if legit {
                            out.count("racy_receipts_legit_at_receive_time", 1);
                        } else {
                            // explain: duplicate, wrong origin, wrong socket or altered
                            let dup = list.iter().any(|c| c.matched > 0 && c.origin == *origin && c.data.len().min(*buf) == *n && c.data[..*n] == data[..]);
                            let wrong_origin = list.iter().any(|c| c.matched == 0 && c.data.len().min(*buf) == *n && c.data[..*n] == data[..]);
                            let known = sends_all.iter().any(|x| x.4.len().min(*buf) == *n && x.4[..*n] == data[..]);
                            let class = if dup { "duplicate" } else if wrong_origin { "wrong-origin" } else if known { "misrouted" } else { "altered-or-phantom" };
                            out.violate(
                                class,
                                format!("C09|{class}|{kind}"),
                                format!("socket {sock} ({:?}) received {n} bytes from {origin} in step {step} that no outstanding send targets ({class})", s.socks[*sock]),
                                desc.clone(),
                            );
                        }
                    }
                }
            }
            _ => {}
        }
    }
    // completeness
    let mut per_target_step: BTreeMap<(usize, u64), u64> = BTreeMap::new();
    for (k, list) in &pend {
        for c in list {
            *per_target_step.entry((*k, c.step)).or_default() += 1;
        }
    }
    for (k, list) in &pend {
        let mut burst_ok = 0u64;
        let mut burst_total = 0u64;
        for c in list {
            out.count("send_target_pairs", 1);
            if c.matched == 1 {
                out.count("pairs_received_once", 1);
                burst_ok += 1;
            }
            burst_total += 1;
            if c.matched == 0 && c.want == Want::Must && !s.racy && !s.overflow {
                out.violate(
                    "lost",
                    format!("C09|lost|{}|{kind}", format!("{:?}", c.dstk).split('(').next().unwrap()),
                    format!("datagram #{} sent by socket {} at step {} (log pos {}) to {:?} must reach socket {k} ({:?}) with origin {} but was never received", c.id, c.sender, c.step, c.pos, c.dstk, s.socks[*k], c.origin),
                    desc.clone(),
                );
            }
            if c.want == Want::May {
                out.count("undetermined_loop_flag_pairs", 1);
            }
        }
        if s.overflow && burst_total > 0 {
            out.count("overflow_bursts", 1);
            if burst_ok < (s.cap as u64).min(burst_total) {
                out.violate(
                    "capacity-underused",
                    format!("C09|capacity-underused|cap={}", s.cap),
                    format!("burst of {burst_total} datagrams into idle socket {k} with udp_capacity {}: only {burst_ok} received", s.cap),
                    desc.clone(),
                );
            }
            if burst_ok < burst_total {
                out.count("overflow_drops_observed", 1);
            }
        }
    }
    out.saw("kinds", kind.to_string());
    out.saw("recv_modes", format!("{:?}", s.socks.iter().map(|x| format!("{:?}", x.mode)).collect::<BTreeSet<_>>()));
    if s.v6 {
        out.count("ipv6_scenarios", 1);
    }
    let mut h = Fnv::new();
    for (st, e) in &evs {
        h.write_u64(*st);
        h.write_str(&format!("{e:?}"));
    }
    out.digest = h.finish();
    let receipts = evs.iter().filter(|e| matches!(e.1, Ev::Recv { .. })).count();
    out.nontrivial = receipts >= 3;
    out.sample = Some(json!({
        "kind": kind, "tick_ms": s.tick_ms, "latency_ms": [s.min_ms, s.max_ms], "v6": s.v6, "udp_capacity": s.cap, "hosts": s.nhosts,
        "sockets": s.socks.iter().map(|x| format!("{x:?}")).collect::<Vec<_>>(),
        "script": s.script.iter().take(14).map(|x| format!("t={} h{} {:?}", x.0, x.1, x.2)).collect::<Vec<_>>(),
        "receipts": receipts,
    }));
    out
}

pub fn run(ctx: &Ctx) -> ! {
    if ctx.replay.is_some() {
        let w = vcore::read_replay(ctx).expect("replay file");
        let seed = w["scenario_seed"].as_u64().unwrap_or(0);
        let ov = w["overflow"].as_bool().unwrap_or(false);
        let report = vcore::run_single(ctx, move |_| scenario(gen(seed, ov)));
        vcore::finish(ctx, report, fin());
    }
    let n = ctx.pick(30_000u64, 500_000);
    let c2 = ctx.clone();
    let report = vcore::run_parallel(
        ctx,
        n,
        RunOpts { budget_s: ctx.pick(60.0, 600.0), scenario_timeout_s: 120.0 },
        move |idx| {
            let seed = c2.scenario_seed("c09", idx);
            let ov = idx % 8 == 7;
            let mut out = scenario(gen(seed, ov));
            for v in out.violations.iter_mut() {
                v.witness["scenario_seed"] = json!(seed);
                v.witness["overflow"] = json!(ov);
            }
            out
        },
    );
    vcore::finish(ctx, report, fin());
}

fn fin() -> Finish<'static> {
    Finish {
        level: "exploration",
        rule: "seeded scenarios: 2-4 hosts, IPv4/IPv6, 2-7 sockets (wildcard/localhost bind, fixed/ephemeral ports, recv_from / try_recv_from / readable, buffers 0..2000), 1-4 phases of configuration (bind, drop, connect filter, SO_BROADCAST, multicast loop, join, leave) followed by traffic (unicast by host address / 127.0.0.1 / own address, broadcast, multicast, unbound port, unowned address; payloads 0..2000 bytes), fixed and ranged latencies, random host order; 1/8 overflow scenarios (udp_capacity 1/2/8, a burst beyond capacity into one socket and smaller bursts into neighbouring sockets of the same host, receivers reading at once or only after everything has landed); 1/4 racy scenarios (configuration concurrent with traffic: only at-most-once and legitimacy asserted); non-trivial = >=3 receipts; distinct = digest of the API history",
        assumptions: vec![
            "a localhost-bound socket only sends to loopback destinations (other destinations are outside the documented support)".into(),
            "same-host multicast where sender and receiver disagree on the loop flag is undetermined (May)".into(),
            "healthy links (fail_rate 0)".into(),
        ],
        min_distinct: 100,
        required_counters: vec!["pairs_received_once", "receipts_truncated", "sends_broadcast", "sends_multicast", "sends_loopback", "send_errors_expected", "overflow_drops_observed", "addr_in_use_binds", "ipv6_scenarios", "racy_receipts_legit_at_receive_time"],
    }
}
