pub mod c05;
pub mod c14;
